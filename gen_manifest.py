#!/usr/bin/env python3
"""Writes MANIFEST.json from checkmeta.META (so driver and manifest cannot drift)."""
import json, os, subprocess
from checkmeta import META, NOT_APPLICABLE
ROOT = os.path.dirname(os.path.abspath(__file__))
hooks = subprocess.run(["git", "-C", "/repo", "log", "--format=%H %s", "--grep=^verif hooks"], capture_output=True, text=True).stdout.strip().splitlines()
man = {
    "version": 1,
    "setup_cmd": "cd /verif/harness && CARGO_NET_OFFLINE=true cargo build --profile verif --offline",
    "hooks": {
        "guard": "cargo feature `verif_hooks` of the rxrust crate (off by default)",
        "enable": "the harness depends on rxrust = { path = \"/repo\", default-features = false, features = [\"futures-scheduler\", \"verif_hooks\"] }; every check command runs `cargo build --profile verif --offline` in /verif/harness first, so it rebuilds from /repo's working tree",
        "baseline_off_cmd": "cd /repo && cargo test --workspace --no-fail-fast --offline",
        "source_commits": [h.split()[0] for h in hooks][::-1],
        "add_only": True,
    },
    "engines": [
        {"name": "rxverif", "path": "harness/", "serves_properties": sorted(META),
         "kind_free_text": "one Rust binary: dynamic pipeline builder over the real operators (box_it), recording probes/spies, virtual clock behind NEW_TIMER_FN, order-choosing executor behind VerifScheduler, baton thread scheduler on the MutArc lock hook, reference models and online/offline monitors"},
        {"name": "check", "path": "check", "serves_properties": sorted(META),
         "kind_free_text": "python3 driver: build, shard subprocesses under a watchdog, merge, classify against known_findings.json, evidence, replay files"},
    ],
    "checks": [],
    "not_applicable": NOT_APPLICABLE,
    "notes": "All checks are runtime monitors over executions of the real library (technique family: runtime monitoring and sanitizers). Verdicts are three-valued: exit 0 held on what was observed, exit 1 VIOLATION, exit 2 INCONCLUSIVE (never printed as VIOLATION). Genuine defects are listed in known_findings.json (fixed / known).",
}
for pid in sorted(META):
    m = META[pid]
    man["checks"].append({
        "property_id": pid,
        "quick_cmd": "./check %s --tier quick" % pid,
        "thorough_cmd": "./check %s --tier thorough" % pid,
        "evidence_file": "/verif/evidence/%s.json" % pid,
        "replay_cmd_template": "./check %s --replay {path}" % pid,
        "engine": "rxverif",
        "level_claimed": {"category": "exploration", "text": m["level_text"], "design_ref": m["design_ref"]},
        "level_note": m["level_note"],
        "technique": m["technique"],
    })
json.dump(man, open(os.path.join(ROOT, "MANIFEST.json"), "w"), indent=1)
print("wrote MANIFEST.json with", len(man["checks"]), "checks;", len(NOT_APPLICABLE), "not applicable")
