"""Per-property metadata shared by ./check and gen_manifest.py."""

COMMON_ASSUME = [
    "rxRust built from /repo's working tree with default-features=false, features=[futures-scheduler, verif_hooks]: the `timer` feature glue (futures_time sleep), tokio and wasm schedulers are not executed",
    "pipelines are assembled at run time through the library's own box_it(), so each operator is exercised over boxed upstream/downstream types (plus a small typed static battery)",
    "held on the executions sampled by this run only: deeper pipelines, longer scripts, other parameters and undrawn schedules are not covered",
]

META = {}

import json as _json, os as _os, subprocess as _sp, re as _re

def miri_extra(prop, argv_seeds, miri_seeds):
    """Thorough tier only: tiny free-running thread scenarios of `prop` under Miri
    (many-seeds: Miri's preemptive scheduler; deadlock / data race / UB are Miri errors)."""
    def run(tier, seed, repo):
        if tier != "thorough":
            return None
        root = _os.path.dirname(_os.path.abspath(__file__))
        hdir = _os.path.join(root, "harness")
        env = dict(_os.environ, CARGO_NET_OFFLINE="true", CARGO_TARGET_DIR=_os.path.join(hdir, "target-miri"),
                   MIRIFLAGS="-Zmiri-many-seeds=0..%d -Zmiri-ignore-leaks -Zmiri-disable-isolation" % miri_seeds)
        out = {"counters": {"miri_processes": 0, "miri_scenario_runs": 0, "miri_events": 0}, "violations": [], "inconclusive": [], "samples": []}
        if _os.path.abspath(repo) != "/repo":
            out["inconclusive"].append("miri part skipped for --repo override")
            return out
        for k in range(argv_seeds):
            try:
                p = _sp.run(["cargo", "+nightly", "miri", "run", "--offline", "--", "run", "--prop", prop, "--mode", "miri",
                             "--tier", "thorough", "--seed", str(seed * 100 + k)], cwd=hdir, env=env,
                            stdout=_sp.PIPE, stderr=_sp.PIPE, text=True, timeout=1500)
            except _sp.TimeoutExpired:
                out["inconclusive"].append("miri run %d: watchdog fired" % k)
                continue
            lines = [l for l in p.stdout.splitlines() if l.startswith("MIRI-RESULT ")]
            out["counters"]["miri_processes"] += len(lines)
            for l in lines:
                for r in _json.loads(l[len("MIRI-RESULT "):]):
                    out["counters"]["miri_scenario_runs"] += 1
                    out["counters"]["miri_events"] += r["events"]
                    if r.get("inconclusive"):
                        out["inconclusive"].append("miri run %d, scenario %s: %s" % (k, r["scenario"], r["inconclusive"]))
                    if r["violation"]:
                        out["violations"].append({"kind": r["violation"]["kind"], "locus": r["scenario"] + "[miri]", "case_id": "miri:%d" % (seed * 100 + k),
                                                  "detail": r["violation"]["detail"], "shard": 0, "nshards": 1})
            err = p.stderr
            if "the evaluated program deadlocked" in err or _re.search(r"error: deadlock", err):
                out["violations"].append({"kind": "deadlock", "locus": "miri", "case_id": "miri:%d" % (seed * 100 + k),
                                          "detail": {"miri_stderr_tail": err[-1500:]}, "shard": 0, "nshards": 1})
            elif "Undefined Behavior" in err or "Data race" in err or "data race" in err:
                out["violations"].append({"kind": "miri_undefined_behaviour", "locus": "miri", "case_id": "miri:%d" % (seed * 100 + k),
                                          "detail": {"miri_stderr_tail": err[-1500:]}, "shard": 0, "nshards": 1})
            elif p.returncode != 0 and not lines:
                out["inconclusive"].append("miri run %d failed to run: %s" % (k, err[-300:].replace("\n", " | ")))
            if k == 0 and lines:
                out["samples"].append({"miri_run": _json.loads(lines[0][len("MIRI-RESULT "):])})
        return out
    return run


def rtimer_extra(prop):
    """Both tiers: the real-clock monitor (crate rtimer/, rxrust with its DEFAULT features, i.e. the
    built-in timer the virtual-clock harness never compiles). Lower bounds and logical oracles only."""
    def run(tier, seed, repo):
        import hashlib as _hl, shutil as _sh
        root = _os.path.dirname(_os.path.abspath(__file__))
        rdir = _os.path.join(root, "rtimer")
        out = {"counters": {}, "violations": [], "inconclusive": [], "samples": []}
        env = dict(_os.environ, CARGO_NET_OFFLINE="true")
        scratch = None
        if _os.path.abspath(repo) != "/repo":
            tag = _hl.sha1(_os.path.abspath(repo).encode()).hexdigest()[:10]
            scratch = _os.path.join(root, ".scratch", "rtimer-" + tag)
            _os.makedirs(_os.path.join(scratch, ".cargo"), exist_ok=True)
            man = open(_os.path.join(rdir, "Cargo.toml")).read().replace('path = "/repo"', 'path = "%s"' % _os.path.abspath(repo))
            open(_os.path.join(scratch, "Cargo.toml"), "w").write(man)
            _sh.copy(_os.path.join(rdir, "Cargo.lock"), _os.path.join(scratch, "Cargo.lock"))
            _sh.copy(_os.path.join(rdir, ".cargo", "config.toml"), _os.path.join(scratch, ".cargo", "config.toml"))
            link = _os.path.join(scratch, "src")
            if _os.path.islink(link):
                _os.unlink(link)
            _os.symlink(_os.path.join(rdir, "src"), link)
            rdir = scratch
        try:
            b = _sp.run(["cargo", "build", "--profile", "verif", "--offline"], cwd=rdir, env=env, stdout=_sp.PIPE, stderr=_sp.STDOUT, text=True, timeout=1200)
            if b.returncode != 0:
                out["inconclusive"].append("real-timer monitor failed to build: %s" % b.stdout[-400:].replace("\n", " | "))
                return out
            p = _sp.run([_os.path.join(rdir, "target", "verif", "rxrtimer"), "--prop", prop, "--tier", tier, "--seed", str(seed)],
                        stdout=_sp.PIPE, stderr=_sp.PIPE, text=True, timeout=900)
        except _sp.TimeoutExpired:
            out["inconclusive"].append("real-timer monitor: wall-clock watchdog fired")
            return out
        finally:
            if scratch:
                pass
        lines = [l for l in p.stdout.splitlines() if l.startswith("RT-RESULT ")]
        if not lines:
            out["inconclusive"].append("real-timer monitor produced no result (exit %s): %s" % (p.returncode, p.stderr[-300:].replace("\n", " | ")))
            return out
        r = _json.loads(lines[-1][len("RT-RESULT "):])
        for k, v in r["counters"].items():
            out["counters"]["real_clock_" + k if not k.startswith("real_") else k] = v
        for v in r["violations"]:
            out["violations"].append(dict(v, shard=0, nshards=1))
        out["samples"].append({"real_timer_monitor": r.get("sample")})
        if r["counters"].get("lower_bounds_checked", 0) == 0:
            out["inconclusive"].append("real-timer monitor checked no lower bound")
        if scratch:
            _sh.rmtree(scratch, ignore_errors=True)
        return out
    return run


META["C03"] = {
    "title": "Sources and single-input operators compute their documented sequence",
    "rule": "cases = (operator chain AST, input script). Enumerated: every single-input operator x every parameter in 0..n+1 / predicate family x every script over {0,1,2} up to length n (quick 3, thorough 6) x terminal {none,complete,error} x sources {Subject, create (sync and stashed-handle), from_iter}; every basic source alone and under every operator; plus seeded random chains of depth 2..5 with post-terminal events. Long scripts (counter long_script_cases): chains of 1-2 operators with parameters up to 12 over scripts of up to 40 items from an alphabet of 12 values (operators that remember what they have seen or keep the last n items). One long chain in ten is pairwise + distinct / distinct_until_changed: the harness item type hashes a pair by its first component only (Hash coarser than Eq, which is legal), so comparing hashes instead of values is observable. sum() over an item type whose `+` does not commute (string concatenation): the left fold in emission order, as reduce(|acc, v| acc + v) gives. Large parameters (counter large_parameter_cases): take / skip / take_last / skip_last / element_at / buffer_with_count with counts 1024..5000 over from_iter of 1024, 1025 and 3000 items. Callback operators and operators whose item type the AST cannot carry run in the typed battery over a hot subject for 5 inputs x {no terminal, complete, error} (counter callback_operator_cases): on_complete (its callback once, before the downstream completion), on_error (callback once with the error, which ends there: no terminal downstream), timestamp (values untouched, instants ordered and inside the run), collect_into (the given collection extended by the items, on completion only). A hot source is shared: in half of the hot-source cases (a function of the script; counter hot_cases_behind_a_closed_pipeline_on_the_same_source) another pipeline was registered on the same subject first and is already over - unsubscribed at once, or a take(1) that finishes by itself - when the events arrive; the pipeline under test is owed the same sequence. A case is non-trivial when the reference model's expected output contains an item, or terminates although the input did not, or ends with an error; distinct = distinct hash of (AST, script).",
    "assumptions": COMMON_ASSUME + [
        "reference list semantics are written from the doc comments in src/observable.rs; where they are silent (take(0) on an unterminated input) both behaviours are accepted",
        "buffer_with_count(0) and float `average` are exercised only in the typed static battery",
    ],
    "technique": "runtime monitoring: recording probe observer on real pipelines, checked against an executable list-semantics reference model; enumerated scripts + seeded random chains",
    "level_text": "Exploration: every enumerated (operator, parameter, script, source) case and every sampled random chain is executed against the real operators and compared item-by-item with a reference model; no claim beyond the cases counted in the evidence.",
    "level_note": "Trusted: the reference model (harness/src/model.rs), the recording probe, rustc. The model's relaxations are listed in DESIGN.md §5 C03.",
    "design_ref": "DESIGN.md §5 C03",
    "require": {"quick": {"operators_covered": 50, "callback_operator_cases": 15, "long_script_cases": 40000, "hot_cases_behind_a_closed_pipeline_on_the_same_source": 30000}, "thorough": {"operators_covered": 45, "long_script_cases": 2000000, "hot_cases_behind_a_closed_pipeline_on_the_same_source": 30000}},
}

META["C04"] = {
    "title": "Multi-input combinators follow the interleaving of their inputs",
    "rule": "cases = (operator, local|_threads form, script A, script B, interleaving). Enumerated: all pairs of scripts with 0..n uniquely numbered items (quick n=3, thorough n=5) and terminal {none, complete, error}, optionally followed by post-terminal events, x ALL interleavings of the two scripts, for merge, zip, combine_latest, with_latest_from, take_until, skip_until, sample, buffer in both forms, both inputs hot Subjects driven from one thread; plus each pair with one input cold (create emitting at subscription); the same with that input a from_iter (a source that consults is_finished() before every item; scripts 'items, complete' only; counter cases_with_a_from_iter_input); plus seeded random timelines with up to 6 items per input. Non-trivial: both inputs contributed an event and the scripts were really interleaved (some B event precedes some A event); distinct = hash of (operator, form, timeline). Thread part: merge / zip / combine_latest / with_latest_from / take_until / skip_until / sample in their _threads form with input k driven from thread k (1-3 items, optional terminal or unsubscribe per thread), under random, PCT and preemption-bounded systematic schedules at the hooked lock points and free-running on OS threads; oracle: some linearization of the calls consistent with their call/return stamps, fed to the same timeline model, explains the observed output.",
    "assumptions": COMMON_ASSUME + [
        "timeline reference model written from the property statement and operator docs; where they are silent the oracle accepts a set: zip/combine_latest may complete anywhere between 'no further output possible' and 'both inputs completed'; a skip_until notifier completing empty may or may not open the gate; after buffer's notifier completed either flush-and-complete or keep gathering; a take_until/skip_until notifier error may be ignored or propagated; sample may flush or drop an unsampled value when the source completes; buffer may emit or skip an empty buffer",
    ],
    "technique": "runtime monitoring: recording probe on the real combinators driven through all interleavings of two uniquely-numbered scripts, checked against an executable timeline model (set-valued where unspecified); for the thread-safe forms a linearizability check of recorded call/return histories against the same model under controlled and free-running thread schedules",
    "level_text": "Exploration: every enumerated interleaving and every sampled random timeline is executed on the real operators (both forms) and compared with the timeline model; unique ids make loss, duplication and mis-pairing directly visible.",
    "level_note": "Trusted: the timeline model (harness/src/model.rs two_input_model) and its documented relaxations, the probe, rustc.",
    "design_ref": "DESIGN.md §5 C04",
    "require": {"quick": {"operators_covered": 16, "thread_schedules": 8000, "free_parallel_runs": 1500, "cases_with_a_from_iter_input": 1000}, "thorough": {"operators_covered": 16, "thread_schedules": 300000, "free_parallel_runs": 100000}},
}

META["C01"] = {
    "title": "Every subscriber sees items, then at most one terminal, then nothing",
    "rule": "cases = seeded random pipelines (depth quick<=3 / thorough<=5 plus sub-chains) over the whole catalogue: 1-3 hot Subject inputs, stashed create() handles, cold and timed/async sources, single-input, two-input, flattening, scheduler, finalize, share operators; local and _threads builders; scripts with post-terminal events and repeated terminals through cloned handles; executed on the virtual clock under prompt/late schedules with FIFO or any-order task choice. Spy observers sit above/below multi-input and early-terminating operators; every subscription through a spy is its own observer id. A case is non-trivial when the final subscriber received a terminal and at least one input event was injected after it; distinct = hash(pipeline AST, scripts, flavour).",
    "assumptions": COMMON_ASSUME + [
        "by Rust ownership a linearly owned observer cannot be called after complete(self)/error(self); what the monitor guards is every place the library shares an observer (Rc/Arc<Option<O>>, Subscriber, subject publisher lists, merge_all's shared state). A change that only reorders notifications across DIFFERENT observers (e.g. group terminals after the outer terminal) is outside this property",
        "cases in which the library panics are counted (cases_panicked) but judged by C05/C10, not here",
    ],
    "technique": "runtime monitoring: online regular-expression monitor `next* (error|complete)?` on every probe and spy observer of randomly generated real pipelines under an explorer-chosen schedule",
    "level_text": "Exploration: the grammar monitor runs on every observer id of every sampled pipeline/schedule; held on the executions counted in the evidence.",
    "level_note": "Trusted: recording probe/spy, pipeline generator, virtual clock and arena executor of the harness; rustc's ownership rules for linearly owned observers.",
    "design_ref": "DESIGN.md §5 C01",
    "require": {"quick": {"operators_covered": 80}, "thorough": {"operators_covered": 80}},
}

META["C02"] = {
    "title": "After unsubscribe() returns the subscriber is never called again",
    "rule": "cases = (random pipeline biased to scheduler-using operators, timed scripts, schedule seed, cut step, unsubscribe() | guard drop). A dry run finds the schedule length and the step of the first terminal; the cut is then placed uniformly before the terminal (5/6) or anywhere (1/6). After the cut the explorer keeps going: remaining events are injected, every pending timer fired, every ready task run. Non-trivial: cut before the terminal while a timer was pending, a task ready, or script events still to come; distinct = hash(pipeline, scripts, flavour, cut step, schedule seed). cut_* counters give the histogram of where cuts fell. A share of the cases (counter runs_on_the_real_LocalPool) is built with the library's own `impl Scheduler for futures::executor::LocalSpawner` and run on the real futures LocalPool (run_until_stalled / try_run_one) instead of the harness executor. In a third of the cases every finalize callback that runs while unsubscribe() is in progress pushes one more item into hot input 0 (user code acting during the teardown; counter cuts_with_finalize_callbacks_emitting_during_teardown). Half of the guard cases leave the guard's scope by a panic that is caught further up (the guard is dropped by the unwinder). Sources that cannot be cancelled (counters cuts_above_a_source_that_cannot_be_cancelled, deaf_cuts_with_source_events_still_to_come): a harness stage right above the hot source swallows the unsubscription, so the source keeps pushing into the pipeline after unsubscribe() returned ('whatever its sources do afterwards'); pipelines source . deaf . [transparent] . observe_on | delay(0|1|5 ms|250|1500 us) . [one single-input operator], cut at a random step: nothing may reach the subscriber afterwards, neither what was queued nor what arrives later. A direct battery (counter cuts_after_a_scheduled_task_panicked, 12 cases on the real LocalPool) unsubscribes (or drops the guard of) an observe_on / delay(0) / delay(1ms) subscription one of whose scheduled tasks had panicked in the subscriber's handler (caught by the scheduler) while later tasks are pending; the unsubscribe call itself is wrapped in catch_unwind; nothing is delivered afterwards.",
    "assumptions": COMMON_ASSUME + [
        "above a source that cannot be cancelled only deliveries that pass through a scheduled task are owed silence; delay forwards an ERROR synchronously (errors are not delayed, by design), so failing uncancellable sources are paired with observe_on only",
        "deliveries are judged by their logical begin-stamp against the stamp taken when unsubscribe() returned (single-threaded part: nothing can be in flight at that moment)",
        "the racing-thread part (emitter vs unsubscriber under the baton scheduler) is reported under the same check when present in the evidence (thread_* counters)",
    ],
    "technique": "runtime monitoring: post-unsubscribe monitor on the recording probe (no event stamped after unsubscribe() returned) over random real pipelines on a virtual clock with explorer-chosen task/timer order; baton-scheduled two-thread races for _threads forms",
    "level_text": "Exploration: every sampled (pipeline, schedule, cut point) is executed and monitored; held on the executions counted in the evidence.",
    "level_note": "Trusted: harness probe, virtual clock, arena executor, baton scheduler.",
    "design_ref": "DESIGN.md §5 C02",
    "require": {"quick": {"cut_with_pending_timer": 2000, "cut_with_ready_task": 1000, "cuts_above_a_source_that_cannot_be_cancelled": 40000, "deaf_cuts_with_source_events_still_to_come": 10000, "cuts_after_a_scheduled_task_panicked": 12}, "thorough": {"cut_with_pending_timer": 50000, "cuts_above_a_source_that_cannot_be_cancelled": 2000000}},
}

META["C05"] = {
    "title": "Flattening delivers every inner item once and honours the concurrency limit",
    "rule": "cases = (spelling merge_all(n)|concat_all|flatten|flat_map|concat_map, local|_threads, table of k inner observables (quick k<=3, thorough k<=5; a quarter of the cases up to k+3 so that three or more inners wait at once) each cold-synchronous (create emitting its script, incl. empty and failing ones) or hot (Subject driven later), merged timeline of outer events, hot-inner events and completions). The outer is a hot Subject emitting the indices 0..k once each; all items carry unique ids; every inner is wrapped in a tracked spy that logs subscribe / terminal / unsubscribe. A deterministic battery builds the queued-then-started shapes (hot inner first, cold/hot inners queued behind the limit); the rest are seeded random interleavings biased towards early outer items. A third battery (mixed_cases_with_timed_inners) mixes cold, hot and TIMED inners (interval.take, timer) on the virtual clock under prompt/late schedules and fifo/any task order (and the real LocalPool) and is judged by invariants read off the tracked inners: output = what the inners produced, in that order, each once; live inners <= n; completion exactly when the outer and all inners completed. Non-trivial: at least one inner was started from the queue when another completed, or two inners were live at once; distinct = hash(case).",
    "assumptions": COMMON_ASSUME + [
        "exact sequential reference model of merge_all(n) (running set, FIFO queue, completion iff outer done and nothing running or queued, first error wins); a hot inner loses events emitted while it is not subscribed",
        "single-threaded drive here; the two-thread interleavings of the _threads forms are explored by C10's baton scenarios",
    ],
    "technique": "runtime monitoring: recording probe + tracked inner observables on the real flattening operators, conservation/order/limit/completion checked against an exact sequential model; panic monitor and lock-hook self-deadlock detector",
    "level_text": "Exploration: every sampled higher-order timeline is executed on the real operator (both forms) and compared with the model; the running-inner counter is read off the tracked inners at every log position.",
    "level_note": "Trusted: the merge_all model in harness/src/props/c05.rs, probe/spy, the lock hook (a re-lock of a held MutArc cell by the only running thread is reported as deadlock).",
    "design_ref": "DESIGN.md §5 C05",
    "require": {"quick": {"cases_with_queued_then_started_inner": 5000, "operators_covered": 10}, "thorough": {"cases_with_queued_then_started_inner": 100000, "operators_covered": 10}},
}

META["C06"] = {
    "title": "Subjects deliver each item once, in order, to exactly the current subscribers",
    "rule": "cases = (subject type in {Subject, SubjectThreads, MutRefItemSubject, MutRefErrSubject, MutRefItemErrSubject}, random history of length <= 12 quick / <= 30 thorough over subscribe / unsubscribe-one / next / error / complete / clone / retain / unsubscribe-subject / arm-a-subscribe-from-inside-the-callback (one newcomer, or two newcomers of which the first leaves again before the callback returns; an armed subscriber that has not received an item when a terminal reaches it subscribes from inside its TERMINAL callback - counter histories_with_subscribe_inside_a_terminal_callback - and that newcomer is owed nothing), <= 3 regular subscribers plus nested ones). Every history is executed on the real subject and, in lock step, on a sequential multicast model (for the &mut variants the probe mutates the item/error and the model tracks the mutation chain and the value handed back to the emitter). After every step past a terminal/unsubscribe the flags is_finished/is_closed/is_empty/len are compared. Non-trivial: >= 2 subscribers and a join or leave happened between two emissions; distinct = hash(type, history). The SubjectThreads two/three-thread part is run under the baton scheduler (thread_* counters): each thread runs up to 4 of next / subscribe / unsubscribe(k) / retain()+len() / complete / error / unsubscribe-subject on clones of one subject; also is_closed() on a clone of the subject; oracle on call/return stamps (must / must-not receive, exactly once), common order, terminal consistency (no item to anybody once anybody received a terminal; whoever received an item and did not leave receives the terminal; nothing after the subject's own is_closed() returned true), panic, every call returned.",
    "assumptions": COMMON_ASSUME + [
        "len()/is_empty() are only checked where the statement speaks (after a terminal or unsubscribe())",
        "a subscriber that joins after the subject terminated receives nothing (what the statement says: it delivers nothing after a terminal)",
    ],
    "technique": "runtime monitoring: recording probes on the real subjects under random operation histories, compared event-by-event with an executable sequential multicast model; baton-scheduled thread histories with an interval-based must/must-not-receive oracle",
    "level_text": "Exploration: each sampled history is executed and every subscriber's trace and the subject's flags are compared with the model.",
    "level_note": "Trusted: the multicast model in harness/src/props/c06.rs, probes, baton scheduler.",
    "design_ref": "DESIGN.md §5 C06",
    "require": {"quick": {"subject_types_covered": 5, "histories_with_subscribe_inside_callback": 2000}, "thorough": {"subject_types_covered": 5}},
}

META["C08"] = {
    "title": "Time and async sources emit exactly what and when they promise",
    "rule": "cases = (source, take count, local|threads scheduler form, FIFO|any task order, due-stepping|late schedule, schedule seed). Sources: interval / interval_at with periods {1,7,100} ms and instants {past, now, +10ms, +250ms, +1h}; timer / timer_at with delays {0,1,7,100} ms and the same instants; from_future(_result) / from_stream(_result) over scripted futures/streams (ready at once, pending k polls self-woken or woken by the explorer, error at position i, empty). Due-stepping runs fire one due timer at a time and run tasks to quiescence (exact 'one period' oracle); late runs leave tasks waiting and jump the clock ('never earlier' oracle). A third of the timed cases (counter runs_with_idle_gap_before_first_poll) move the clock by {period/2, period-1ns, period, 3 periods+1ns, 3 ms} between subscribe() and the executor's first run, then due-step: the first interval / interval_at value is still due at max(subscription + period | the instant, first run). One stream case in six is long (20..100 items, all ready at once or with a rare pending; counter long_stream_runs). A third of the timer cases use sub-millisecond delays (400, 900, 999, 1500 us). Non-trivial: >= 2 ticks observed, or the future/stream was pending at least once; distinct = hash(case). A share of the cases (counter runs_on_the_real_LocalPool) is built with the library's own `impl Scheduler for futures::executor::LocalSpawner` and run on the real futures LocalPool (run_until_stalled / try_run_one) instead of the harness executor. Thread part (scenario interval+workers): interval(1ms).take(k) with 1-2 worker threads running the periodic task and firing the virtual timers, optionally an unsubscribing thread (random/PCT, preemption-bounded systematic, free-running): values 0,1,2,... in order each once; without an unsubscribe exactly k values then completion once the workers ran until idle. Real-clock part (crate rtimer/, the library built with its DEFAULT features so that the built-in timer behind the `timer` feature - which the virtual-clock build never compiles - is the one under test; counters real_timer_cases, real_clock_lower_bounds_checked, real_clock_due_after_idle_cases): timer / timer_at / interval / interval_at / delay / delay_at / delay_subscription / debounce on LocalPool and on a 2-thread ThreadPool with waits from a grid of sub-millisecond and fractional-millisecond durations (0, 50, 100, 400, 499, 500, 501, 999 us, 1, 1.001, 1.4, 1.499, 1.5, 2.4, 2.499, 4.167 ms) plus seeded ones below 3 ms; oracles that machine load cannot falsify: an observation instant taken inside the callback is never earlier than (an instant taken before the call that starts the wait) + the wait; consecutive ticks are at least one period apart and numbered 0,1,2,3 (period 0 included); and, after the thread has slept past subscription + first wait of an interval / interval_at with the executor idle, one run_until_stalled() delivers the first tick (the first wait starts at subscription). The _at forms (interval_at, timer_at, delay_at) are also built first and subscribed 1-2.5 ms of real time later (counter real_clock_at_forms_built_before_they_are_subscribed): whatever they do with the time that passed, nothing comes before the given instant.",
    "assumptions": COMMON_ASSUME + [
        "the _at forms read the real Instant::now(): the instant is placed relative to the case's start and the real time the case took (plus 1 ms) is the tolerance on 'never earlier'; 'exactly' is only demanded of due-stepping runs on the virtual clock",
        "for an instant that has already passed ('at the given instant' cannot be met any more) the first interval_at value is due at once, i.e. at the executor's first run",
        "timer / timer_at are bounded from below only ('no earlier than the due time'): the exact upper bound is checked on due-stepping runs without an idle gap; after an idle gap a one-shot task's delay legitimately starts at the first poll",
    ],
    "technique": "runtime monitoring: virtual-time stamps recorded by the probe for real interval/timer/from_* sources under an explorer-chosen timer/task order, checked against a timed reference model; plus a real-clock monitor on the built-in timer (lower-bound, spacing and due-after-idle oracles on std::time::Instant stamps)",
    "level_text": "Exploration over sampled (source, schedule) pairs on a virtual clock; exact timing on due-stepping runs, lower bounds on all runs.",
    "level_note": "Trusted: the virtual clock behind NEW_TIMER_FN, the arena executor behind VerifScheduler, scripted futures/streams.",
    "design_ref": "DESIGN.md §5 C08",
    "require": {"quick": {"real_timer_cases": 200, "real_clock_lower_bounds_checked": 400, "real_clock_due_after_idle_cases": 8, "sources_covered": 8, "runs_with_idle_gap_before_first_poll": 10000, "long_stream_runs": 2000, "thread_schedules": 2500, "free_parallel_runs": 700}, "thorough": {"real_timer_cases": 4000, "real_clock_lower_bounds_checked": 8000, "real_clock_due_after_idle_cases": 90, "sources_covered": 8, "runs_with_idle_gap_before_first_poll": 500000, "long_stream_runs": 100000, "thread_schedules": 100000, "free_parallel_runs": 50000}},
}

META["C07"] = {
    "title": "Scheduler-moving operators preserve the source's sequence",
    "rule": "cases = (one or two of observe_on / delay / delay_at / delay_subscription / delay_subscription_at / subscribe_on in local or _threads form, optionally between transparent operators, timed script of 1..n uniquely numbered items (quick n=5, thorough n=9) with terminal none/complete/error and gaps {0,1,2,5,10,60} ms, delays {0,1,5,50} ms, instants {past, now, +40ms, +1h}, executor class fifo (FIFO task order, equal deadlines woken in creation order) or any-order (any ready task next, equal deadlines in any order), prompt or late schedule, schedule seed). Subscription-moving operators get a cold source. Non-trivial: at least two tasks were ready at once or a delay was pending across an input event; distinct = hash(case). A violation is blamed on the first scheduler operator of the case that shows the same violation kind alone. A share of the cases (counter runs_on_the_real_LocalPool) is built with the library's own `impl Scheduler for futures::executor::LocalSpawner` and run on the real futures LocalPool (run_until_stalled / try_run_one) instead of the harness executor. Thread part (scenarios observe_on_threads[fifo-worker], delay_threads[fifo-worker]): one producer thread emits 1-4 items and an optional terminal into observe_on_threads / delay_threads(0|1ms) while ONE worker thread runs the scheduled tasks in FIFO order and fires the virtual timers (a single-threaded pool on its own thread), optionally with an unsubscribing thread; random/PCT and preemption-bounded systematic schedules at the hooked lock points plus free-running OS threads; whatever is still scheduled when the threads end is run FIFO afterwards; oracle: no invented or duplicated item, source order kept, and without an unsubscribe every item then the terminal arrived. Feedback loops (counter feedback_loop_cases): the subscriber's callback pushes item x+1 into the hot source when x arrives (1..4 quick / 1..8 thorough items), through observe_on / delay(0|1ms) alone, stacked and between map / filter / tap, in all three builder flavours; when the loop has run dry the source completes, fails or stays open from outside: every item in order, then the terminal. Long-lived subscriptions (counter long_lived_subscription_cases): 3-8 bursts of 1-70 items through one observe_on / delay(0|1ms) / delay_at(past) subscription, with everything scheduled run between bursts, then complete / error / nothing. delay_at(now+2ms) with the real clock crossing the instant in the middle of the history (the thread sleeps 4 ms between items; counter delay_at_instant_crossed_mid_history): order and completeness must not depend on which side of the instant an item was produced. In half of the hot scripts without a terminal the program lets its subscription handle go out of scope and the source subject drops its observers while items may still be on their way (counter scripts_whose_source_goes_away_unterminated): they are still owed, in order.",
    "assumptions": COMMON_ASSUME + [
        "item identity by unique ids; 'never earlier' is judged on virtual stamps: delivery >= emission + sum of configured delays; for _at forms the real time the case took (+1 ms) is the tolerance",
        "the any-order executor models a k-worker pool; the real futures ThreadPool is not under the explorer's control",
    ],
    "technique": "runtime monitoring: unique-id order/completeness monitor and virtual-time delay monitor on real observe_on/delay/subscribe_on pipelines, with the run order of ready tasks and equal-deadline timers chosen by the explorer through the VerifScheduler hook",
    "level_text": "Exploration over sampled scripts and task orders under two executor models.",
    "level_note": "Trusted: virtual clock, arena executor behind the VerifScheduler hook (the library's own remote_handle / Remote::poll / delay-await code runs unchanged).",
    "design_ref": "DESIGN.md §5 C07",
    "require": {"quick": {"runs_where_task_order_was_a_choice": 10000, "operators_covered": 8, "thread_schedules": 5000, "free_parallel_runs": 1000, "feedback_loop_cases": 250}, "thorough": {"operators_covered": 8, "thread_schedules": 200000, "free_parallel_runs": 80000}},
}

META["C09"] = {
    "title": "Rate-limiting operators never invent, duplicate or reorder items",
    "rule": "cases = (operator in debounce / throttle_time / throttle(duration selector) with all three edge modes / sample(interval) / buffer_with_time / buffer_with_count_and_time, window in {1,5,10} ms (and, for debounce and the throttles, a zero-length window in one case of eight: invariants only), timed script of 0..n uniquely numbered items (quick n=5, thorough n=9) whose gaps are 0, 1, window-1, window, window+1, 2*window(+1) ms, terminal none/complete/error, scheduler form, task order fifo|any, prompt|late schedule, seed); in half of the scripts without a terminal the program then lets its subscription handle go out of scope and the source subject drops its observers (counter scripts_whose_source_goes_away_unterminated): what is pending at that moment is still owed exactly as if the source had stayed. Every order of a source event and a timer falling due at the same instant is an explorer choice. Non-trivial: at least one item was suppressed or buffered AND at least one emission happened at an instant with no source event (i.e. was made by a timer); distinct = hash(case). A share of the cases (counter runs_on_the_real_LocalPool) is built with the library's own `impl Scheduler for futures::executor::LocalSpawner` and run on the real futures LocalPool (run_until_stalled / try_run_one) instead of the harness executor. Thread part: debounce / throttle_time (all three edges) / buffer_with_time / buffer_with_count_and_time / sample(interval) over a hot SubjectThreads with 1-2 producer threads (1-3 items each, optional terminal, optional unsubscribing thread) while a managed worker thread runs the operator's timer tasks and fires the virtual timers - i.e. a multi-threaded scheduler, where a timer task can run in the middle of a next() call; random/PCT and preemption-bounded systematic schedules at the hooked lock points plus free-running OS threads; oracle: only emitted items, each at most once, each producer's items in its own order, nothing delivered before its next() was called; the time buffers lose nothing when the source completes, are never empty and never exceed the count limit; for debounce and throttle_time without an unsubscribe additionally linearizability with the timer tasks as operations: every source call (interval call..return) and every task poll that finished a task (interval of the poll on the worker thread) is an operation, a delivery belongs to the operation of its thread that contains it, and some total order respecting real time must make the sequential operator model emit, operation by operation, exactly what was observed inside it.",
    "assumptions": COMMON_ASSUME + [
        "invariants (only source items, at most once, in source order, source's terminal, buffers non-empty / <= count / concatenating to the source on completion) are checked on every run; the exact debounce and throttle models are applied to prompt runs only and branch where a source event coincides with a window end (either order accepted); late runs are judged by 'never earlier than arrival + window'",
        "throttle model: leading edge emits the window-opening item at once; trailing edge emits the last item of the window at window end (in trailing-only mode the opener counts), each item at most once; the trailing emission does not open a window; completion flushes the trailing item",
    ],
    "technique": "runtime monitoring: unique-id conservation/order monitors plus exact timed reference models (debounce, throttle) over virtual-time stamps recorded by the probe, with same-instant timer/event order chosen by the explorer; conservation/order monitors over producer-thread vs worker-thread schedules (controlled at hooked lock points, and free-running)",
    "level_text": "Exploration over sampled timed scripts and schedules; exact-model comparison on prompt runs, invariants on all runs.",
    "level_note": "Trusted: debounce/throttle models in harness/src/props/c09.rs, virtual clock, arena executor.",
    "design_ref": "DESIGN.md §5 C09",
    "require": {"quick": {"operators_covered": 10, "exact_model_runs": 50000, "scripts_whose_source_goes_away_unterminated": 10000, "thread_schedules": 5000, "free_parallel_runs": 1000}, "thorough": {"operators_covered": 10, "thread_schedules": 200000, "free_parallel_runs": 80000}},
}

META["C15"] = {
    "title": "finalize runs its callback exactly once per subscription",
    "rule": "cases = (0-2 upstream operators incl. early-terminating ones, hot Subject or stashed create() handle as source, finalize | finalize_threads directly above the probe, history of length <= 6 quick / <= 10 thorough over item / complete / error / unsubscribe (terminals repeated through cloned handles), plain unsubscribe or guard drop). Non-trivial: the history contains at least two terminating triggers (e.g. complete then unsubscribe); distinct = hash(case). first_trigger_* counters show which event ended the subscriptions. Exhaustively, every history of length <= 4 quick / <= 5 thorough over item / unsubscribe(k<3) / complete / error on THREE subscriptions made from clones of one finalize(..) / finalize_threads(..) value over one hot subject: after every step the number of callback runs equals the number of subscriptions that have ended (counter histories_over_cloned_finalize_values). A quarter of the random cases stack a second finalize directly above the one under test (both owe their callback at the same event); over create sources a third put take(1|2)/first BELOW finalize, where the event that ends finalize's own subscription is the terminal that reaches it from above (recorded by a transparent spy), not the subscriber's. When a history unsubscribes a pipeline over a hot source, the finalize callback itself pushes one more item into that source (user code in the callback): nothing may reach the subscriber once the callback has run. Thread part also covers hot.finalize_threads(f) behind subscribe_on with the subscribing task on a worker thread and an unsubscribing thread: if the inner subscription was made (seen by a spy above finalize) and the handle was unsubscribed, the callback ran exactly once. Histories may also end without any ending event - the plain handle is merely dropped, or the source goes away without a terminal (counter histories_ending_without_any_event): the callback must then not have run (a SubscriptionGuard is not used there: dropping one is an unsubscribe). A direct battery (counter histories_with_a_subscriber_that_panics_on_the_terminal, 8 cases, local form) has the subscriber's own handler panic while it is handed the completion / error (user code; the panic is caught around the source's call), after which the program unsubscribes, or the guard living in the scope the panic leaves is dropped by the unwinder, with one or two stacked finalize: every callback ran exactly once over the whole history. The racing-thread part (terminating thread vs unsubscribing thread) runs under the baton scheduler (thread_* counters).",
    "assumptions": COMMON_ASSUME + [
        "finalize is placed last, so 'the subscription is completed / failed' is exactly 'the probe saw the terminal'",
        "'right after' = before the next step of the history begins, and for an unsubscription before unsubscribe() returns",
    ],
    "technique": "runtime monitoring: counter and logical stamps of the finalize callback against the stamps of the first terminating event, over random histories on the real operator",
    "level_text": "Exploration over sampled histories; counter == 1 exactly after the first trigger, never before, never again.",
    "level_note": "Trusted: probe and log stamps of the harness.",
    "design_ref": "DESIGN.md §5 C15",
    "require": {"quick": {"first_trigger_unsub": 5000, "first_trigger_error": 5000, "histories_over_cloned_finalize_values": 3000, "histories_ending_without_any_event": 20000, "histories_with_a_subscriber_that_panics_on_the_terminal": 8}, "thorough": {"first_trigger_unsub": 5000, "histories_over_cloned_finalize_values": 18000}},
}

META["C20"] = {
    "title": "group_by sends every item to exactly one group, in order",
    "rule": "cases = (key function in {constant, identity, mod 2, mod 3}, script, group subject type Subject|SubjectThreads, hot Subject or cold create source). Enumerated: every script over {0,1,2,3} up to length 5 quick / 7 thorough x terminal {none, complete, error}; plus seeded random scripts up to length 8/12 with post-terminal events. A probe is attached to each group inside the outer observer's next (as the group is announced). Hot cases are additionally flattened back through group_by+flat_map and compared with the source. group_by takes an FnMut: every enumerated script also runs with stateful discriminators (key of the i-th item handed over = i/n for n in 1..3, whatever the item; counter cases_with_a_stateful_discriminator), as does a fifth of the random scripts. A third of the random scripts and half of the stateful enumerated ones use a key type whose Hash is coarser than its Eq (all even keys collide, all odd keys collide; counter cases_with_colliding_key_hashes); a third attach a second subscriber to every group ahead of the probe and unsubscribe it at once (counter cases_with_a_closed_subscriber_ahead_in_each_group). A quarter of the hot plain-key cases subscribe each group only after 0-2 further source events (counter cases_with_groups_subscribed_late): the group is owed the later items of its key and the terminal. In a quarter of the cases the observer of the stream of groups reports finished as soon as any group subscriber has received a terminal (a flattening consumer): every group must still get the terminal. In another quarter the consumer of the stream of groups finishes after n announcements (take(n)-like; counter cases_where_the_outer_observer_finishes_after_n_groups): groups announced until then keep receiving the items of their keys in order (every item: no source used here consults is_finished before an item; only the terminal to them may be withheld), no group is announced twice and nothing is announced afterwards. Late group subscriptions are also made twice at the same moment (twin subscribers): both are owed the same items. Half of the plain hot pipelines have a transparent map in front of group_by (an operator between a push source and group_by must not swallow items once the groups' consumer has finished). A direct battery (counter cases_with_a_group_subscriber_that_panics, 3 scripts, local form): a group's subscriber panics on one item, the application catches the panic around the source call and goes on: no key is announced twice, the groups get the later items of their keys and the terminal. Non-trivial: at least two groups and one group with at least two items; distinct = hash(case).",
    "assumptions": COMMON_ASSUME + [
        "the relative order of the groups' terminals and the outer terminal is not part of the property and not checked",
        "'the key of an item' is what the discriminator returns when it is applied once to every source item in source order (it is an FnMut in the API); the pure functions of the stated family cannot tell, the stateful ones can",
    ],
    "technique": "runtime monitoring: per-group recording probes attached at announcement on the real group_by, checked against a partition model; flatten-back comparison",
    "level_text": "Exploration: enumerated scripts x key functions plus random scripts, each compared with the partition model.",
    "level_note": "Trusted: partition model in harness/src/props/c20.rs, probes.",
    "design_ref": "DESIGN.md §5 C20",
    "require": {"quick": {"group_subject_types": 2, "cases_with_a_stateful_discriminator": 20000, "cases_with_colliding_key_hashes": 10000, "cases_with_a_closed_subscriber_ahead_in_each_group": 10000, "cases_where_the_outer_observer_finishes_after_n_groups": 10000, "cases_with_a_group_subscriber_that_panics": 3}, "thorough": {"group_subject_types": 2, "cases_with_a_stateful_discriminator": 500000}},
}

META["C16"] = {
    "title": "Ending a stream early retires the producers that feed it",
    "rule": "cases = (producer in interval(1|5 ms) / from_iter over a counting iterator capped at 1500 / 1501 pulls (the even cap reports its exact remaining length through size_hint(), like a Vec or range iterator; the odd one leaves size_hint() at its default) / from_stream over an endless self-waking scripted stream (even seeds: a pending spell between most items; odd seeds: a backlog of six items ready in a row, so that several items are ready at the moment the stream is ended), position main or secondary/notifier input of skip_until / take_until / sample / buffer / with_latest_from / merge / zip / combine_latest (hot main input emitting every 3 ms), or inner observable of flat_map / concat_map / merge_all(2) (hot outer emitting exactly one item, so that exactly one inner producer exists when the cutter fires; in two more positions - concat_map and merge_all(1) with three inner producers - two of them are still waiting for the slot of the running one when the stream is ended: each instance is allowed its one look), 0..n intermediate operators, cutter in take / first / first_or / element_at / take_while(_inclusive) / contains / all, scheduler form, task order). A sweep puts every catalogue operator (single-input, two-input with a cold other, flattening, scheduler-using, finalize, share, complete_status() used as a stage) once in the middle position for every producer; a second sweep (counter ended_from_the_side_cases) ends the stream from the side - merge with of(1) or timer(2ms), take_until(of(1)) or take_until(timer(2ms)) - below an operator that forwards nothing at that point (skip_until(never), filter(false), filter_map(false), skip_while(true), skip(100000), ignore_elements, last, take_last, reduce, count, collect, skip_last(100000), sample(never), buffer(never), debounce(50ms > the producer's period)) for every producer and both scheduler forms; the rest are seeded random chains of depth <= 2 quick / <= 4 thorough. Every case runs on the virtual clock to a 200 ms horizon. Thread part (scenario interval+workers): interval(1ms).take(k) ticking on 1-2 worker threads, ended by take or by an unsubscribing thread; after everything ran until idle no scheduled task and no virtual timer may be left (run-until-idle terminates). Cases with the producer in the other input of every two-input operator whose main input is `throw` or `empty`, i.e. a stream that is over at subscription time (counter main_input_over_at_subscription_cases). A case counts (non-trivial) only if the cutter actually fired; distinct = hash(case).",
    "assumptions": COMMON_ASSUME + [
        "retired means, measured after the subscriber saw the cutter's terminal: no tick of the producer later than one period after it, and no pending timer / live task at the horizon (interval); at most one more pull (from_iter); at most two more polls and no live task (from_stream)",
        "take(0) is not used as a cutter",
    ],
    "technique": "runtime monitoring: tap/pull/poll counters inside the producer, live-timer and live-task counts of the virtual clock and arena executor, compared at 'terminal + one period' and at the horizon",
    "level_text": "Exploration: operator sweep in the middle position, every two-input operator with the producer as secondary input, plus random chains.",
    "level_note": "Trusted: virtual clock and arena executor accounting (live timers are exact: a dropped timer future unregisters itself).",
    "design_ref": "DESIGN.md §5 C16",
    "require": {"quick": {"middle_operators_covered": 46, "positions_covered": 14, "cutters_covered": 8, "ended_from_the_side_cases": 400, "thread_schedules": 2500, "free_parallel_runs": 700}, "thorough": {"middle_operators_covered": 46, "positions_covered": 14, "ended_from_the_side_cases": 400, "thread_schedules": 100000, "free_parallel_runs": 50000}},
    "watchdog_s": {"quick": 400, "thorough": 5400},
}

META["C19"] = {
    "title": "Scheduled tasks run at most once, never early, and stay cancelled",
    "rule": "cases = (set of 1-4 tasks scheduled directly through the public Scheduler::schedule on the order-choosing executor: OnceTask, OnceTask returning a subscription (SubscribeReturn), FutureTask over a scripted future pending 0-2 polls, RepeatTask (new and new_immediate) with period 1|5 ms declining after 1-4 runs; delay in {none, 0, 0.4, 0.999, 1, 5} ms; for each handle a cancellation step (or none); local or thread-safe scheduler form; fifo|any task order; prompt|late schedule; seed). is_closed() of every handle is sampled before every step. Thread part (baton scheduler, counter thread_schedules): 1-3 one-shot tasks run by 1-2 worker threads while another thread cancels their handles; in half of the runs (counter runs_with_handles_shared_by_two_owners) every handle is held in its shared form MutArc<Option<TaskHandle>> (the form debounce / throttle keep their pending task in) by two owners on two threads, the second of which samples is_closed() before it unsubscribes: no body starts after any unsubscribe() returned or any is_closed() returned true, and no body is still running at that moment. Non-trivial: a cancellation fell while its task was still pending (scheduled, not finished); distinct = hash(case). Real-clock part (crate rtimer/, library built with its DEFAULT features, i.e. the built-in timer; counters real_timer_cases, real_clock_lower_bounds_checked, real_clock_cancellations_before_due, real_clock_far_future_delays): OnceTask with delays from a grid of sub-millisecond / fractional-millisecond durations plus seeded ones on LocalPool and a 2-thread ThreadPool: the body starts no earlier than (instant before schedule()) + delay and runs exactly once; a task cancelled before it is due has not run after the thread slept past the due time and the pool ran; RepeatTask::new / with_first_delay (periods from the same grid, 0 included): runs at least one period apart, sequence numbers 0..3 consecutive, no run beyond the declining one; delays of 1 h, 30 years, 2^32 ms, 2^32 s, 2^64/1000 s and Duration::MAX: the body has not run after a few milliseconds.",
    "assumptions": COMMON_ASSUME + [
        "bodies are harness fn pointers that log start/end stamps; 'never early' is judged on virtual time: a one-shot body not before schedule + delay, a repeating body not before its delay and later runs at least one period apart",
        "single-threaded here: 'the body is not still running when unsubscribe() returns' is checked by the baton scenarios (worker thread vs cancelling thread) reported under thread_* counters",
    ],
    "technique": "runtime monitoring: stamped task bodies and handle samples on the real Scheduler/TaskHandle code, run order and timer order chosen by the explorer through the VerifScheduler hook, checked against a task model; plus a real-clock monitor on the built-in timer (not-early, exactly-once, stays-cancelled and spacing oracles on std::time::Instant stamps)",
    "level_text": "Exploration over sampled task sets, cancellation points and run orders.",
    "level_note": "Trusted: arena executor, virtual clock; the library's remote_handle/Remote::poll/TaskHandle run unchanged.",
    "design_ref": "DESIGN.md §5 C19",
    "require": {"quick": {"real_timer_cases": 150, "real_clock_lower_bounds_checked": 300, "real_clock_far_future_delays": 6, "runs_with_handles_shared_by_two_owners": 3000, "cancellations_while_pending": 20000, "task_kinds_covered": 5, "thread_schedules": 4000}, "thorough": {"real_timer_cases": 1500, "real_clock_lower_bounds_checked": 3000, "real_clock_far_future_delays": 6, "task_kinds_covered": 5}},
}

META["C14"] = {
    "title": "Conversions and completion status report the real outcome and never hang",
    "rule": "cases = (conversion in to_future / to_stream / complete_status over Subject or SubjectThreads, script of 0..n items (quick n=4, thorough n=6) then complete / error / neither, optionally followed by a post-terminal item, with 0-2 manual polls placed before, between and after the events, polled with a counting waker; optionally another subscriber of the same subject ahead of the conversion, already unsubscribed or still open; in a quarter of the cases the conversion is attached to subject.share() / share_threads() whose first subscriber, a take(1), has already been served by one item and finished - or, in half of these, a sibling subscriber that came and went before the first item; counter conversions_attached_through_a_share; in a sixth the conversion is attached to a cold synchronous `create` source that plays the whole script inside the conversion's own subscription, i.e. before the first poll - counter conversions_of_a_cold_synchronous_source). After a terminal the future/stream is polled at most twice more per element and must be ready; a poll that returned Pending before the terminal must have been woken by it; complete_status flags are compared after every step with what the probe saw and with the source calls that have returned and wait_for_end is called once the source has terminated. Plus the gate scenarios: a real waiter thread in wait_for_end is stopped at the hooked point of StatusFuture::poll while the producer thread runs complete()/error() (placements: terminal before the wait, inside the hooked window, after the waiter's first poll) x {complete, error}. Plus free-running two-thread races (quick 3000, thorough 300000): a real waiter thread blocks in block_on(to_future) / block_on(to_stream.collect) / a busy poll_next loop on to_stream / wait_for_end on a SubjectThreads while the producing thread emits 0-3 items and a terminal with seeded yields, sleeps and spins (and the hook-point jitter on half of them); the waiter must return (bounded progress: within 20 s of the producer's terminal call having returned) with exactly the modelled outcome. Half of the waiter threads hold a stale unpark token when they start to wait (as after an earlier block_on on the same thread; a park may also return spuriously), and one to_stream race in six is a long one (130 / 300 / 700 items sent back to back, so that hundreds of elements are ready at once). Every manual poll uses a waker of its own; the waker handed over by the most recent pending poll is the one that must be woken. A further battery (counter status_above_an_early_terminator_cases, 144 cases) puts complete_status() above take(0|1|2), with and without collect() above the status (an aggregating stage hands over its one item and its completion back to back), over a `create` source driven through its stashed Subscriber / SubscriberThreads (0-3 items then complete / error / nothing): the flags must follow the source's calls and wait_for_end must return once it terminated. Non-trivial: the source terminated while a poll had returned Pending, or terminated by error; distinct = hash(case).",
    "assumptions": COMMON_ASSUME + [
        "for 'items then error' to_future() may resolve to the error or to MultipleValues (the documentation fixes only the pure cases); it must resolve",
        "'never hang' is read as bounded progress: ready within two polls after termination (logical); in the gate scenarios the waiter gets 20 s, and only after the logical witness (waiter reached the hooked point, producer's terminal call returned) exists; no witness + timeout = inconclusive",
        "collect is covered by C03 (list semantics) and through to_future in random cases here",
    ],
    "technique": "runtime monitoring: manual polling of the real futures/streams with a counting waker against scripted Subject histories; gate orchestration on the status_window hook for the waiter/producer race",
    "level_text": "Exploration over sampled poll/event interleavings, plus 6 orchestrated two-thread placements repeated per run and thousands of free-running waiter/producer thread races.",
    "level_note": "Trusted: counting waker, the status_window hook placement (between waker registration and flag check of StatusFuture::poll).",
    "design_ref": "DESIGN.md §5 C14",
    "require": {"quick": {"conversions_covered": 3, "gate_scenarios": 12, "two_thread_races": 2000, "conversions_attached_through_a_share": 50000, "conversions_of_a_cold_synchronous_source": 30000}, "thorough": {"conversions_covered": 3, "gate_scenarios": 60, "two_thread_races": 100000}},
}

META["C11"] = {
    "title": "publish/connect and share subscribe the source once and multicast",
    "rule": "cases = (share | share_threads | publish::<Subject>()+fork()/connect(), source hot Subject behind a tap counter | deferred cold synchronous source behind a subscription counter | interval(5ms) on the virtual clock behind a tap counter, history of length <= 10 quick / <= 18 thorough over subscribe(k) / unsubscribe(k) / source-emit / source-complete / connect / one-period tick, k < 3, one subscription per slot). Checked in lock step against a multicast model: who was subscribed at each emission receives it once, in order; the source is not subscribed before connect(); it is subscribed at most once; after the last subscriber's unsubscribe() returned the tap counter no longer moves on later source events (hot) or one period later (interval); conversely, while a publish() is connected and its source has not ended, the periodic source must keep ticking whoever joins or leaves (source_retired_while_connected). Non-trivial: at least two subscribers overlapped and one left before the source ended; distinct = hash(case). Thread part (scenario share_threads[multi]): 2-3 probes subscribed to clones of one hot.share_threads(), 2-3 threads each running up to 4 of next / unsubscribe(k) / subscribe (never re-joining after the count reached zero) plus an occasional terminal, scheduled at the hooked lock points (random, PCT and preemption-bounded systematic schedules) and then free-running on OS threads with seeded jitter; oracle over call/return stamps: a subscriber whose subscribe() returned before next(v) was called and whose unsubscribe() was not called before it returned receives v exactly once, all subscribers agree on one order, nothing begins on a probe after its unsubscribe() returned, every call returns. Never-connected battery (counter publish_cases_never_connected, 4 cases): forks of a publish() and the connectable value itself (an Observable too; subscribing it consumes it, so connect() can never be called) are subscribed over a cold and over a hot source that then emits: no source subscription, no upstream item, no delivery. Join-in-callback battery (counter joins_from_inside_a_subscriber_callback, 48 cases): share / share_threads over a cold source that emits 1,2,3 at subscription (staying open, or completing) or over a hot subject; the first subscriber's callback for item i (or for the completion) subscribes 1-2 further probes to clones of the same share - the emission of a synchronous source happens inside the connecting subscription; expected: no panic, no self-deadlock, the first subscriber sees everything, a subscriber that joined during item i sees exactly the items after i, the source is subscribed once. Subscribers also join through take(1) (finishing by themselves after one item while keeping their handle) and through start_with([0]).first() (finished before the share itself is subscribed).",
    "assumptions": COMMON_ASSUME + [
        "whether a share re-connects when somebody joins after its subscriber count dropped to zero is unspecified; such re-joins are generated for hot sources only (counter histories_with_a_rejoin_after_everybody_left) and the re-joined subscriber is owed exactly the emissions the shared source is seen to make (upstream tap), nothing is demanded about terminals after a re-join; thread scenarios never re-join",
        "a cold synchronous source emits during the connecting subscription: only subscribers present at that moment receive those items",
    ],
    "technique": "runtime monitoring: recording probes, upstream tap counter and source-subscription counter on the real share/publish operators under random subscribe/unsubscribe/emit histories, compared with a multicast model; for share_threads additionally multi-threaded histories under a controlled scheduler at hooked lock points and free-running threads, judged by an interval (call/return) oracle",
    "level_text": "Exploration over sampled histories for three source kinds and three multicast spellings, plus sampled and preemption-bounded thread schedules of a multi-subscriber share_threads.",
    "level_note": "Trusted: multicast model in harness/src/props/c11.rs, virtual clock for the interval source.",
    "design_ref": "DESIGN.md §5 C11",
    "require": {"quick": {"modes_covered": 8, "joins_from_inside_a_subscriber_callback": 48, "publish_cases_never_connected": 4, "histories_where_the_last_subscriber_left": 5000, "thread_schedules": 8000, "free_parallel_runs": 1500, "histories_with_a_rejoin_after_everybody_left": 2000}, "thorough": {"modes_covered": 8, "joins_from_inside_a_subscriber_callback": 48, "thread_schedules": 300000, "free_parallel_runs": 100000, "histories_with_a_rejoin_after_everybody_left": 50000}},
}

META["C13"] = {
    "title": "Cold pipelines are lazy and every subscription is independent",
    "rule": "cases = (cold chain built with the CLONEABLE builder: source in from_iter / counting iterator / of / of_fn / start / defer(nested chain) / create(sync script) / repeat / empty / throw / of_result / of_option / interval.take(k) / scripted from_stream / from_future_result on the virtual clock; 0..n operators (quick n=3, thorough n=5) drawn from the stateful catalogue (scan, last, default_if_empty, distinct*, skip*, take*, pairwise, buffer*, collect, start_with, reduce, count, delay, debounce, throttle(_time) all edges, buffer_with_time, buffer_with_count_and_time, observe_on, delay_subscription, subscribe_on, two-input operators over cold sub-chains), optionally finalize last; 2-3 clones subscribed successively | overlapping (next clone joins while the previous still runs) | nested (next clone subscribed from inside the previous one's first item callback)). Checked: no log event, spawned task or timer before the first subscription; source closures called once per subscription; a scripted future that is the pipeline's own source polled at least once by every subscription (future_not_polled); every subscription's (virtual-time-relative) trace equals the first one's; finalize runs once per ended subscription. In a quarter of the cases every subscription is explicitly unsubscribed once it has run dry, before the next clone is subscribed (giving up one subscription must not reach into another clone's). The combine_latest combinator used by the builder is stateful (it numbers its own calls): after each successive subscription began its first call must carry number 1. Varying-input battery (counter subscriptions_fed_different_inputs): a cold source that reads the world when it is subscribed (the k-th subscription plays script k; 15 scripts: 5 item lists x {complete, error, open}) under every single-input operator of the catalogue, three successive subscriptions of clones fed scripts a, b, a for every ordered pair a != b: each subscription's output must be what the list-semantics reference model (C03's) gives for ITS script - state left behind by an earlier subscription, invisible while all subscriptions see the same input, shows up as subscription_depends_on_an_earlier_one. FIFO scheduler model (equal deadlines in creation order) so that identical subscriptions behave identically. Non-trivial: at least two subscriptions of a chain with at least one stateful operator; distinct = hash(case).",
    "assumptions": COMMON_ASSUME + [
        "timer, share and the flattening operators are not Clone-able (TimerObservable / MergeAllOp are not Clone; share is shared by design) and are not part of this check",
    ],
    "technique": "runtime monitoring: counters inside source closures / iterators / scripted futures, trace equality between subscriptions of clones of one real pipeline on a virtual clock",
    "level_text": "Exploration over sampled cold chains and three subscription patterns.",
    "level_note": "Trusted: cloneable builder (library's CloneableBoxOp), virtual clock, arena executor.",
    "design_ref": "DESIGN.md §5 C13",
    "require": {"quick": {"operators_covered": 60, "nested": 10000, "overlapping": 10000, "subscriptions_fed_different_inputs": 15000}, "thorough": {"operators_covered": 60}},
}

META["C17"] = {
    "title": "is_closed() is sound and composites tear down late additions",
    "rule": "two batteries. (a) composite histories: random histories of length <= 8 quick / <= 13 thorough over append / append-nested-composite / clone / unsubscribe / retain / sample on MultiSubscription and MultiSubscriptionThreads with tracked children: every child appended before unsubscribe() is unsubscribed exactly once, every remaining clone reports closed afterwards, a child appended afterwards has been unsubscribed by the time append returns. (b) random pipelines over the whole catalogue (so that unit, Subscriber, pair, composite, task-handle, ref-count, finalizer and boxed subscriptions all occur), is_closed() of the returned subscription sampled before every explorer step: once it returned true no notification may be delivered through that subscription and it may never return false again. (c) a direct battery on ZipSubscription (all four closed/open combinations of its halves), SubscriptionGuard, MutRc<Option<S>> handle clones and BoxSubscription with counting children. The battery also holds the handle of subscribe_on / delay_subscription whose subscribing task died half way (merge of a live subject with a `create` whose user closure panics; the scheduler keeps the payload in the handle): the subject branch keeps delivering (counter half_wired_handles_that_kept_delivering), so the handle may not report closed. (d) MultiSubscriptionThreads under the lock-point scheduler: unsubscribe() on one thread, 1-3 append() calls on a second, is_closed() samples on a third, over 0-2 children appended up front; afterwards the composite reports closed, so every child must have been unsubscribed exactly once, and is_closed() may not return to false once the composite holds an open child. (f) a thread asking is_closed() six times on the subscription of hot.observe_on_threads / delay_threads(0) / debounce / buffer_with_time while the source thread emits 0-2 items and completes or fails and a worker thread runs the scheduled tasks (counter is_closed_sampling_races): after a sample returned true nothing may begin on the probe and no later sample may be false. (g) is_closed() on a clone of a SubjectThreads from one thread while others emit, terminate, subscribe and unsubscribe: nothing is delivered to anybody after it returned true. (e) unsubscribe() racing the worker thread that runs the scheduled task of observe_on_threads / delay_threads / subscribe_on / debounce / throttle_time / buffer_with_time / buffer_with_count_and_time / sample(interval) (task handles): nothing may begin on the probe after unsubscribe() returned. Histories in (a) also append children to a nested composite that was itself appended earlier, possibly after is_closed() was asked on the outer one (counter histories_with_a_child_added_to_a_nested_composite), and contain children whose own unsubscribe() appends one more child to the composite (an append in the middle of the teardown, counter histories_with_an_append_during_teardown): it must not be left running. subscription_types_covered lists every subscription type that occurred. Non-trivial: (a) an append fell after the unsubscribe; (b) is_closed() was sampled both false and true in the run; distinct = hash(case).",
    "assumptions": COMMON_ASSUME + [
        "`false` is always acceptable (the property is one-directional)",
        "a live composite without children answers is_closed() == true (vacuously: nothing can be delivered through it) until its first child is appended; this is how delay/observe_on report closed after their last task, and it is not treated as 'returned true, later false'",
    ],
    "technique": "runtime monitoring: two-state monitor on is_closed() samples plus post-close delivery monitor on the probe; tracked child subscriptions on the real composite types",
    "level_text": "Exploration over sampled pipelines/schedules and composite histories.",
    "level_note": "Trusted: probe, tracked child subscription, explorer.",
    "design_ref": "DESIGN.md §5 C17",
    "require": {"quick": {"appends_after_unsubscribe": 3000, "runs_where_is_closed_returned_true": 20000, "subscription_types_covered": 13, "half_wired_handles_that_kept_delivering": 2, "histories_with_an_append_during_teardown": 5000, "histories_with_a_child_added_to_a_nested_composite": 5000, "composite_thread_races": 4000, "thread_schedules": 4000, "is_closed_sampling_races": 4000}, "thorough": {"subscription_types_covered": 13, "half_wired_handles_that_kept_delivering": 2, "composite_thread_races": 200000, "thread_schedules": 150000, "is_closed_sampling_races": 150000}},
}

META["C18"] = {
    "title": "Local and thread-safe variants are observationally equivalent",
    "rule": "cases = the C01 pipeline generator (whole catalogue, 1-3 hot inputs, stashed create handles, cold and timed sources, depth <= 3 quick / <= 5 thorough) with its timed scripts; every case is built twice - local builder and threads builder (every operator, subject, subscription and scheduler in its _threads / Threads form) - and driven from one thread with the same FIFO executor and the same explorer seed. The final subscriber's trace (notifications and virtual stamps; stamps dropped when the pipeline reads the real clock through an _at form) must be identical. A third of the pairs (counter pairs_unsubscribed_along_the_way) are unsubscribed before a seeded explorer step, in both forms alike, while the remaining events are still injected and everything pending still runs. Second battery (counter subject_histories_compared): random histories of length 3..11 quick / 3..17 thorough over subscribe(k) / unsubscribe(k) / arm-a-subscribe-from-inside-subscriber-k's-callback / next / complete / error / retain() run on Subject and on SubjectThreads from one thread: the global order of deliveries across all subscribers and the len()/is_empty() readings after every step must be identical (a history on which the local subject panics is skipped). Non-trivial: the pair delivered at least one notification and contains an operator with a hand-duplicated threads part; distinct = hash(pipeline, scripts).",
    "assumptions": COMMON_ASSUME + [
        "group_by terminates its groups in HashMap order: inside generated pipelines it is always flattened, which makes that order unobservable",
        "a panic in both forms at once counts as equivalent here (panics are C05/C10's business)",
    ],
    "technique": "runtime monitoring: differential execution of the local and the thread-safe build of the same generated pipeline under the same explorer schedule, trace equality on the recording probe",
    "level_text": "Exploration over sampled pipelines; pairwise trace equality.",
    "level_note": "Trusted: the two builder flavours come from one macro; explorer determinism.",
    "design_ref": "DESIGN.md §5 C18",
    "require": {"quick": {"dual_form_operators_covered": 15, "subject_histories_compared": 100000, "pairs_unsubscribed_along_the_way": 50000}, "thorough": {"dual_form_operators_covered": 15, "subject_histories_compared": 3000000}},
}

META["C10"] = {
    "title": "Thread-safe variants serialise delivery and cannot deadlock",
    "rule": "cases = (scenario family, 2-3 real OS threads each with a script of 1-4 of next / complete / error / subscribe / unsubscribe, baton schedule). Families: SubjectThreads, BehaviorSubject<_, SubjectThreads>, merge_threads, zip_threads, combine_latest_threads, with_latest_from_threads, take_until_threads, skip_until_threads, sample_threads, merge_all_threads (outer thread + hot inner threads, limit 1..k), finalize_threads, share_threads, observe_on_threads and delay_threads with 1-2 managed worker threads running the scheduled tasks, and a three-stage merge+finalize+take_until pipeline. The baton scheduler lets one managed thread run at a time; every MutArc lock acquisition (hook), every probe callback and every worker iteration is a scheduling point where a seeded uniform or PCT (d=1..3) strategy picks who continues. Two exploration modes: (i) SYSTEMATIC - for 2 (quick) / 8 (thorough) generated scenarios of every family (threads truncated to 3 operations) ALL schedules with at most 1 (quick) / 2 (thorough) preemptions are enumerated (the running thread continues unless it blocks or finishes; forced switches are free; capped at 4k / 60k schedules per scenario, caps are counted); (ii) RANDOM - seeded uniform and PCT(d=1..3) schedules of freshly generated scenarios; (iii) FREE-RUNNING - the same families on truly parallel OS threads with seeded yields/spins/micro-sleeps injected at every lock point (free_parallel_runs; distinct_free_run_event_orders counts the distinct orders of stamped events actually observed); a free-running thread that does not finish in 20 s is INCONCLUSIVE. (iv) CROSS-COUPLED pipelines (counters cross_coupled_schedules, distinct_cross_coupled_schedules; 6 variants): two thread-safe subjects a and b with a.flat_map_threads(->b) and b.flat_map_threads(->a) subscribed, thread 1 emitting into a while thread 2 emits into b; the same over two BehaviorSubjects; from_iter([a,b]).concat_all_threads() next to from_iter([b,a]).concat_all_threads() with a and b completing concurrently; from_iter([s,s]).concat_all_threads() with s completing (the hand-over subscribes s from inside s's own completion, on one thread); a.take_until_threads(b), b.take_until_threads(a) and a.merge_threads(b) together; a.observe_on_threads(pool) and b.observe_on_threads(pool) whose consumer stages (running inside the pool tasks, two managed worker threads) pass a few items on into the other subject - nobody re-enters his own pipeline from a callback, it is the operators that subscribe / feed subject B from inside a delivery of subject A; oracle: logical deadlock detector, single-thread self-deadlock probe, panic, every call returned. Additional oracles: the thread-safe two-input combinators must be LINEARIZABLE (some total order of the concurrent calls consistent with their call/return stamps makes the timeline model produce the observed output); merge_all_threads: conservation, per-inner order, live inners <= limit, completion neither lost nor early. Oracles: a probe never entered on two threads at once, grammar per probe, one common order of shared items among subscribers of one subject/share, no logical deadlock (every unfinished thread blocked on a cell probed as held), no panic, every scripted call returned. Non-trivial: the schedule had at least one context switch; distinct = hash(scenario, schedule trace).",
    "assumptions": COMMON_ASSUME + [
        "interleavings are sampled at lock-acquisition granularity (plus the explicit points); lock releases and code between two acquisitions are not separate scheduling points",
        "callers do not re-enter the same pipeline from inside a callback (excluded by the statement)",
        "a schedule that exceeds the step bound or the 30 s wall-clock watchdog is reported INCONCLUSIVE, never as a violation; a deadlock is only reported with its logical witness (thread -> cell it waits for)",
        "Miri many-seeds runs (thorough tier) add Miri's own preemptive scheduler as a second interleaving source and report deadlock / data race / UB exactly",
    ],
    "technique": "runtime monitoring: deterministic baton scheduling of real OS threads at every shared-cell lock acquisition (verif_hooks lock hook with try_lock probe), overlap/order/deadlock/panic monitors on the recording probes; Miri interpreter for the thorough tier",
    "level_text": "Exploration: preemption-bounded systematic enumeration (bound 1 quick, 2 thorough) on small scenarios of all 20 families plus sampled lock-level interleavings (uniform + PCT); logical deadlock detection is exact on every schedule run.",
    "level_note": "Trusted: baton scheduler (harness/src/conc.rs), the lock hook placement before MutArc::lock, probes.",
    "design_ref": "DESIGN.md §5 C10",
    "require": {"quick": {"thread_scenarios_covered": 25, "distinct_thread_schedules": 8000, "systematic_scenarios": 40, "cross_coupled_schedules": 5000, "cross_coupled_variants": 6}, "thorough": {"thread_scenarios_covered": 25, "systematic_scenarios": 160, "cross_coupled_schedules": 300000, "cross_coupled_variants": 6}},
    "watchdog_s": {"quick": 600, "thorough": 7200},
}

META["C12"] = {
    "title": "BehaviorSubject hands every new subscriber the current value first",
    "rule": "sequential part: random histories of length <= 10 quick / <= 24 thorough over next / next_by / clone / subscribe / unsubscribe / peek / complete / error on BehaviorSubject over Subject and over SubjectThreads, <= 3 subscribers, compared step by step with a model (subscribers are also created whose callback calls peek() while it is handed its FIRST item, i.e. from inside the replay that subscribing performs; next_by also with a function that itself subscribes a new subscriber before returning: the newcomer gets the value current at that moment, then f's result) (first item of a new subscriber = most recent value passed to any clone, peek() = that value, next_by(f) emits f(that value), every later item exactly once); non-trivial: a subscriber joined after at least one next. Thread part: 2-3 producer threads and late subscribers on BehaviorSubject<_, SubjectThreads> under the baton scheduler: at quiescence peek() must equal the last item of the order observed by the always-present subscriber, a late subscriber's sequence must be [v] followed by the suffix of that order that follows v, and the always-present subscriber must have received every item whose next() returned exactly once (no terminal or unsubscribe is scripted); every other item is emitted through next_by(|_| item); the same producers also run free on OS threads with seeded jitter at the lock points. distinct = hash(history) / hash(scenario, schedule).",
    "assumptions": COMMON_ASSUME + [
        "after a terminal, a new subscriber may receive the stored value alone or followed by nothing else; the stored value follows the statement (most recent value passed to any clone)",
    ],
    "technique": "runtime monitoring: recording probes and peek() samples on the real BehaviorSubject against a sequential model; baton-scheduled producer/late-subscriber races with a common-order oracle",
    "level_text": "Exploration over sampled histories and lock-level schedules.",
    "level_note": "Trusted: model in harness/src/props/c12.rs, baton scheduler.",
    "design_ref": "DESIGN.md §5 C12",
    "require": {"quick": {"subject_types_covered": 2, "thread_schedules": 4000, "free_parallel_runs": 1500}, "thorough": {"subject_types_covered": 2, "thread_schedules": 300000, "free_parallel_runs": 100000}},
}

META["C08"]["extra"] = rtimer_extra("C08")
META["C19"]["extra"] = rtimer_extra("C19")
META["C10"]["extra"] = miri_extra("C10", 24, 32)
META["C06"]["extra"] = miri_extra("C06", 6, 32)
META["C12"]["extra"] = miri_extra("C12", 6, 32)
META["C15"]["extra"] = miri_extra("C15", 6, 32)
META["C04"]["extra"] = miri_extra("C04", 7, 32)
META["C05"]["extra"] = miri_extra("C05", 6, 32)
META["C11"]["extra"] = miri_extra("C11", 6, 32)
for _p in ("C04", "C05", "C06", "C11", "C12", "C15"):
    if "Miri" not in META[_p]["technique"]:
        META[_p]["technique"] += "; thorough tier: tiny instances of the same thread scenarios free-running under the Miri interpreter (-Zmiri-many-seeds), judged by the same oracle, with Miri's own deadlock / data-race / UB detection"


# properties without a check yet are listed here with the reason; the list shrinks as checks land
ALL_IDS = ['C01', 'C02', 'C03', 'C04', 'C05', 'C06', 'C07', 'C08', 'C09', 'C10', 'C11', 'C12', 'C13', 'C14', 'C15', 'C16', 'C17', 'C18', 'C19', 'C20']
def _na():
    return [{"property_id": p, "reason": "check not implemented yet in this round (planned: see DESIGN.md section 5 %s)" % p} for p in ALL_IDS if p not in META]

class _NA(list):
    pass
NOT_APPLICABLE = _na()
