"""Per-property metadata shared by ./check and gen_manifest.py."""

COMMON_ASSUME = [
    "rxRust built from /repo's working tree with default-features=false, features=[futures-scheduler, verif_hooks]: the `timer` feature glue (futures_time sleep), tokio and wasm schedulers are not executed",
    "pipelines are assembled at run time through the library's own box_it(), so each operator is exercised over boxed upstream/downstream types (plus a small typed static battery)",
    "held on the executions sampled by this run only: deeper pipelines, longer scripts, other parameters and undrawn schedules are not covered",
]

META = {}

META["C03"] = {
    "title": "Sources and single-input operators compute their documented sequence",
    "rule": "cases = (operator chain AST, input script). Enumerated: every single-input operator x every parameter in 0..n+1 / predicate family x every script over {0,1,2} up to length n (quick 3, thorough 5) x terminal {none,complete,error} x sources {Subject, create (sync and stashed-handle), from_iter}; every basic source alone and under every operator; plus seeded random chains of depth 2..5 with post-terminal events. A case is non-trivial when the reference model's expected output contains an item, or terminates although the input did not, or ends with an error; distinct = distinct hash of (AST, script).",
    "assumptions": COMMON_ASSUME + [
        "reference list semantics are written from the doc comments in src/observable.rs; where they are silent (take(0) on an unterminated input) both behaviours are accepted",
        "buffer_with_count(0) and float `average` are exercised only in the typed static battery",
    ],
    "technique": "runtime monitoring: recording probe observer on real pipelines, checked against an executable list-semantics reference model; enumerated scripts + seeded random chains",
    "level_text": "Exploration: every enumerated (operator, parameter, script, source) case and every sampled random chain is executed against the real operators and compared item-by-item with a reference model; no claim beyond the cases counted in the evidence.",
    "level_note": "Trusted: the reference model (harness/src/model.rs), the recording probe, rustc. The model's relaxations are listed in DESIGN.md §5 C03.",
    "design_ref": "DESIGN.md §5 C03",
    "require": {"quick": {"operators_covered": 45}, "thorough": {"operators_covered": 45}},
}


# properties without a check yet are listed here with the reason; the list shrinks as checks land
ALL_IDS = ['C01', 'C02', 'C03', 'C04', 'C05', 'C06', 'C07', 'C08', 'C09', 'C10', 'C11', 'C12', 'C13', 'C14', 'C15', 'C16', 'C17', 'C18', 'C19', 'C20']
def _na():
    return [{"property_id": p, "reason": "check not implemented yet in this round (planned: see DESIGN.md section 5 %s)" % p} for p in ALL_IDS if p not in META]

class _NA(list):
    pass
NOT_APPLICABLE = _na()
