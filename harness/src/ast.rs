//! Pipeline AST: what the generators produce, the builders interpret, the
//! reference models evaluate and the shrinker reduces.
use crate::value::*;
use serde_json::{json, Value as J};

#[derive(Clone, Debug, PartialEq, Eq, Hash)]
pub enum Pred {
  Lt(i64),
  Eq(i64),
  Even,
  True,
  False,
}
impl Pred {
  pub fn eval(&self, v: &V) -> bool {
    let i = v.int();
    match self {
      Pred::Lt(k) => i < *k,
      Pred::Eq(k) => i == *k,
      Pred::Even => i.rem_euclid(2) == 0,
      Pred::True => true,
      Pred::False => false,
    }
  }
}

#[derive(Clone, Debug, PartialEq, Eq, Hash)]
pub enum KeyF {
  Ident,
  Mod(i64),
  Const,
}
impl KeyF {
  pub fn eval(&self, v: &V) -> i64 {
    match self {
      KeyF::Ident => v.int(),
      KeyF::Mod(k) => v.int().rem_euclid(*k),
      KeyF::Const => 0,
    }
  }
}

#[derive(Clone, Debug, PartialEq, Eq, Hash)]
pub enum MapF {
  Ident,
  Add(i64),
  Mul(i64),
  Mod(i64),
}
impl MapF {
  pub fn eval(&self, v: V) -> V {
    match self {
      MapF::Ident => v,
      MapF::Add(k) => V::I(v.int().wrapping_add(*k)),
      MapF::Mul(k) => V::I(v.int().wrapping_mul(*k)),
      MapF::Mod(k) => V::I(v.int().rem_euclid(*k)),
    }
  }
}

#[derive(Clone, Copy, Debug, PartialEq, Eq, Hash)]
pub enum Edge {
  Leading,
  Trailing,
  All,
}

/// scripted future / stream: each element is (polls that return Pending
/// before it, self_wake?) — `Ok(v)` item or `Err(e)`.
#[derive(Clone, Debug, PartialEq, Eq, Hash)]
pub struct Scripted {
  pub items: Vec<(u8, Result<V, E>)>,
  /// pending polls before the final `None` (streams only)
  pub end_pending: u8,
  /// endless: after the scripted items, keep yielding counters (C16)
  pub endless: bool,
  /// self-waking pendings (true) or woken by the explorer (false)
  pub self_wake: bool,
}

#[derive(Clone, Debug, PartialEq, Eq, Hash)]
pub enum Src {
  Hot(usize),
  /// `create` whose subscriber handle is stashed in slot k and driven later
  Create(usize),
  /// `create` that synchronously emits the script at subscription
  CreateSync(Vec<N>),
  /// a cold source that reads the world when it is subscribed: the k-th subscription (counted
  /// over all clones of the pipeline) synchronously emits script k (mod the number of scripts)
  Varying(Vec<Vec<N>>),
  Iter(Vec<V>),
  /// counting iterator 0.. capped at n pulls (pull counter logged under id)
  IterCount(u32, usize),
  Of(V),
  OfOpt(Option<V>),
  OfRes(Result<V, E>),
  OfFn(V),
  Start(V),
  Repeat(V, usize),
  Empty,
  Never,
  Throw(E),
  Defer(Box<Chain>),
  Interval(u64),
  /// as Interval, period in microseconds
  IntervalUs(u64),
  /// (delay from now in ms: negative = in the past, period ms)
  IntervalAt(i64, u64),
  /// as IntervalAt, period in microseconds
  IntervalAtUs(i64, u64),
  Timer(V, u64),
  /// as Timer, delay in microseconds
  TimerUs(V, u64),
  TimerAt(V, i64),
  Future(u32, Scripted),
  FutureRes(u32, Scripted),
  Stream(u32, Scripted),
  StreamRes(u32, Scripted),
}

#[derive(Clone, Debug, PartialEq, Eq, Hash)]
pub struct Chain {
  pub src: Src,
  pub ops: Vec<Op>,
}

#[derive(Clone, Debug, PartialEq, Eq, Hash)]
pub enum Op {
  Map(MapF),
  MapTo(V),
  Filter(Pred),
  FilterMap(Pred, MapF),
  Tap(u32),
  Take(usize),
  Skip(usize),
  TakeWhile(Pred),
  TakeWhileIncl(Pred),
  SkipWhile(Pred),
  TakeLast(usize),
  SkipLast(usize),
  First,
  FirstOr(V),
  Last,
  LastOr(V),
  ElementAt(usize),
  IgnoreElements,
  StartWith(Vec<V>),
  DefaultIfEmpty(V),
  Scan,
  ScanInitial(V),
  Reduce,
  ReduceInitial(V),
  Count,
  Sum,
  Min,
  Max,
  Distinct,
  DistinctKey(KeyF),
  DistinctUntilChanged,
  DistinctUntilKeyChanged(KeyF),
  Pairwise,
  BufferWithCount(usize),
  Contains(V),
  All(Pred),
  Collect,
  OnErrorMap(i32),
  // two inputs
  Merge(Box<Chain>),
  Zip(Box<Chain>),
  CombineLatest(Box<Chain>),
  WithLatestFrom(Box<Chain>),
  TakeUntil(Box<Chain>),
  SkipUntil(Box<Chain>),
  Sample(Box<Chain>),
  Buffer(Box<Chain>),
  // flattening: the outer item (an index) selects the inner chain
  MergeAll(usize, Vec<Chain>),
  ConcatAll(Vec<Chain>),
  FlatMap(Vec<Chain>),
  ConcatMap(Vec<Chain>),
  Flatten(Vec<Chain>),
  GroupByFlat(KeyF),
  // schedulers
  Delay(u64),
  /// delay in microseconds (sub-millisecond delays)
  DelayUs(u64),
  DelayAt(i64),
  DelaySubscription(u64),
  DelaySubscriptionAt(i64),
  ObserveOn,
  SubscribeOn,
  Debounce(u64),
  /// debounce with a window in microseconds (sub-millisecond windows)
  DebounceUs(u64),
  ThrottleTime(u64, Edge),
  /// duration = base + (item mod 3) ms
  Throttle(u64, Edge),
  BufferWithTime(u64),
  BufferWithCountAndTime(usize, u64),
  // misc
  Finalize(u32),
  Share,
  Spy(u32),
  /// harness-only: a transparent stage that swallows unsubscription (a source that cannot be
  /// cancelled): everything upstream keeps pushing after unsubscribe()
  Deaf,
  /// `complete_status()` used as a stage of the pipeline (its status handle is dropped)
  Status,
  BoxIt,
}

impl Op {
  pub fn name(&self) -> &'static str {
    match self {
      Op::Map(_) => "map",
      Op::MapTo(_) => "map_to",
      Op::Filter(_) => "filter",
      Op::FilterMap(..) => "filter_map",
      Op::Tap(_) => "tap",
      Op::Take(_) => "take",
      Op::Skip(_) => "skip",
      Op::TakeWhile(_) => "take_while",
      Op::TakeWhileIncl(_) => "take_while_inclusive",
      Op::SkipWhile(_) => "skip_while",
      Op::TakeLast(_) => "take_last",
      Op::SkipLast(_) => "skip_last",
      Op::First => "first",
      Op::FirstOr(_) => "first_or",
      Op::Last => "last",
      Op::LastOr(_) => "last_or",
      Op::ElementAt(_) => "element_at",
      Op::IgnoreElements => "ignore_elements",
      Op::StartWith(_) => "start_with",
      Op::DefaultIfEmpty(_) => "default_if_empty",
      Op::Scan => "scan",
      Op::ScanInitial(_) => "scan_initial",
      Op::Reduce => "reduce",
      Op::ReduceInitial(_) => "reduce_initial",
      Op::Count => "count",
      Op::Sum => "sum",
      Op::Min => "min",
      Op::Max => "max",
      Op::Distinct => "distinct",
      Op::DistinctKey(_) => "distinct_key",
      Op::DistinctUntilChanged => "distinct_until_changed",
      Op::DistinctUntilKeyChanged(_) => "distinct_until_key_changed",
      Op::Pairwise => "pairwise",
      Op::BufferWithCount(_) => "buffer_with_count",
      Op::Contains(_) => "contains",
      Op::All(_) => "all",
      Op::Collect => "collect",
      Op::OnErrorMap(_) => "on_error_map",
      Op::Merge(_) => "merge",
      Op::Zip(_) => "zip",
      Op::CombineLatest(_) => "combine_latest",
      Op::WithLatestFrom(_) => "with_latest_from",
      Op::TakeUntil(_) => "take_until",
      Op::SkipUntil(_) => "skip_until",
      Op::Sample(_) => "sample",
      Op::Buffer(_) => "buffer",
      Op::MergeAll(..) => "merge_all",
      Op::ConcatAll(_) => "concat_all",
      Op::FlatMap(_) => "flat_map",
      Op::ConcatMap(_) => "concat_map",
      Op::Flatten(_) => "flatten",
      Op::GroupByFlat(_) => "group_by",
      Op::Delay(_) | Op::DelayUs(_) => "delay",
      Op::DelayAt(_) => "delay_at",
      Op::DelaySubscription(_) => "delay_subscription",
      Op::DelaySubscriptionAt(_) => "delay_subscription_at",
      Op::ObserveOn => "observe_on",
      Op::SubscribeOn => "subscribe_on",
      Op::Debounce(_) | Op::DebounceUs(_) => "debounce",
      Op::ThrottleTime(..) => "throttle_time",
      Op::Throttle(..) => "throttle",
      Op::BufferWithTime(_) => "buffer_with_time",
      Op::BufferWithCountAndTime(..) => "buffer_with_count_and_time",
      Op::Finalize(_) => "finalize",
      Op::Share => "share",
      Op::Spy(_) => "spy",
      Op::Deaf => "deaf",
      Op::Status => "complete_status",
      Op::BoxIt => "box_it",
    }
  }
  pub fn sub_chains(&self) -> Vec<&Chain> {
    match self {
      Op::Merge(c)
      | Op::Zip(c)
      | Op::CombineLatest(c)
      | Op::WithLatestFrom(c)
      | Op::TakeUntil(c)
      | Op::SkipUntil(c)
      | Op::Sample(c)
      | Op::Buffer(c) => vec![c],
      Op::MergeAll(_, cs)
      | Op::ConcatAll(cs)
      | Op::FlatMap(cs)
      | Op::ConcatMap(cs)
      | Op::Flatten(cs) => cs.iter().collect(),
      _ => vec![],
    }
  }
  pub fn uses_scheduler(&self) -> bool {
    matches!(
      self,
      Op::Delay(_)
        | Op::DelayUs(_)
        | Op::DelayAt(_)
        | Op::DelaySubscription(_)
        | Op::DelaySubscriptionAt(_)
        | Op::ObserveOn
        | Op::SubscribeOn
        | Op::Debounce(_)
        | Op::DebounceUs(_)
        | Op::ThrottleTime(..)
        | Op::Throttle(..)
        | Op::BufferWithTime(_)
        | Op::BufferWithCountAndTime(..)
    )
  }
  /// not available in the cloneable builder (MergeAllOp is not Clone)
  pub fn flattening(&self) -> bool {
    matches!(
      self,
      Op::MergeAll(..)
        | Op::ConcatAll(_)
        | Op::FlatMap(_)
        | Op::ConcatMap(_)
        | Op::Flatten(_)
        | Op::GroupByFlat(_)
    )
  }
  pub fn early_terminating(&self) -> bool {
    matches!(
      self,
      Op::Take(_)
        | Op::TakeWhile(_)
        | Op::TakeWhileIncl(_)
        | Op::First
        | Op::FirstOr(_)
        | Op::ElementAt(_)
        | Op::Contains(_)
        | Op::All(_)
        | Op::TakeUntil(_)
    )
  }
}

impl Src {
  pub fn name(&self) -> &'static str {
    match self {
      Src::Hot(_) => "subject",
      Src::Create(_) | Src::CreateSync(_) | Src::Varying(_) => "create",
      Src::Iter(_) | Src::IterCount(..) => "from_iter",
      Src::Of(_) => "of",
      Src::OfOpt(_) => "of_option",
      Src::OfRes(_) => "of_result",
      Src::OfFn(_) => "of_fn",
      Src::Start(_) => "start",
      Src::Repeat(..) => "repeat",
      Src::Empty => "empty",
      Src::Never => "never",
      Src::Throw(_) => "throw",
      Src::Defer(_) => "defer",
      Src::Interval(_) | Src::IntervalUs(_) => "interval",
      Src::IntervalAt(..) | Src::IntervalAtUs(..) => "interval_at",
      Src::Timer(..) | Src::TimerUs(..) => "timer",
      Src::TimerAt(..) => "timer_at",
      Src::Future(..) => "from_future",
      Src::FutureRes(..) => "from_future_result",
      Src::Stream(..) => "from_stream",
      Src::StreamRes(..) => "from_stream_result",
    }
  }
}

impl Chain {
  pub fn new(src: Src, ops: Vec<Op>) -> Self {
    Chain { src, ops }
  }
  pub fn hot(k: usize) -> Self {
    Chain { src: Src::Hot(k), ops: vec![] }
  }
  /// names of every library API used, sorted and deduplicated (the "locus")
  pub fn api_names(&self) -> Vec<&'static str> {
    let mut v = vec![];
    self.collect_names(&mut v);
    v.sort();
    v.dedup();
    v
  }
  fn collect_names(&self, out: &mut Vec<&'static str>) {
    out.push(self.src.name());
    if let Src::Defer(c) = &self.src {
      c.collect_names(out)
    }
    for op in &self.ops {
      if !matches!(op, Op::Spy(_) | Op::BoxIt | Op::Deaf) {
        out.push(op.name());
      }
      for c in op.sub_chains() {
        c.collect_names(out)
      }
    }
  }
  pub fn any_op(&self, f: &dyn Fn(&Op) -> bool) -> bool {
    self.ops.iter().any(|op| f(op) || op.sub_chains().iter().any(|c| c.any_op(f)))
      || matches!(&self.src, Src::Defer(c) if c.any_op(f))
  }
  pub fn any_src(&self, f: &dyn Fn(&Src) -> bool) -> bool {
    f(&self.src)
      || matches!(&self.src, Src::Defer(c) if c.any_src(f))
      || self.ops.iter().any(|op| op.sub_chains().iter().any(|c| c.any_src(f)))
  }
  pub fn depth(&self) -> usize {
    self.ops.len()
      + self
        .ops
        .iter()
        .map(|op| op.sub_chains().iter().map(|c| c.depth()).max().unwrap_or(0))
        .sum::<usize>()
  }
  pub fn j(&self) -> J {
    json!(format!("{:?}", self))
  }
  /// compact human readable form
  pub fn show(&self) -> String {
    let mut s = format!("{:?}", self.src);
    for op in &self.ops {
      s.push_str(&format!(".{:?}", op));
    }
    s
  }
}
