//! Scripted futures / streams / iterators handed to the library's async and
//! iterator sources. All are `Send + Clone` so they fit every builder flavour.
use crate::ast::Scripted;
use crate::log::Log;
use crate::value::*;
use futures::Stream;
use std::future::Future;
use std::pin::Pin;
use std::sync::Mutex;
use std::task::{Context, Poll, Waker};

pub const SRC_CALL_ID: u32 = 9000;

static WAKERS: Mutex<Vec<(u32, Waker)>> = Mutex::new(Vec::new());

pub fn reset() {
  WAKERS.lock().unwrap_or_else(|e| e.into_inner()).clear();
}
/// ids of scripted sources currently parked on an external wake
pub fn parked() -> Vec<u32> {
  let mut v: Vec<u32> =
    WAKERS.lock().unwrap_or_else(|e| e.into_inner()).iter().map(|(i, _)| *i).collect();
  v.sort();
  v.dedup();
  v
}
pub fn wake(id: u32) -> bool {
  let ws: Vec<Waker> = {
    let mut g = WAKERS.lock().unwrap_or_else(|e| e.into_inner());
    let mut out = vec![];
    let mut i = 0;
    while i < g.len() {
      if g[i].0 == id {
        out.push(g.remove(i).1)
      } else {
        i += 1
      }
    }
    out
  };
  let any = !ws.is_empty();
  for w in ws {
    w.wake()
  }
  any
}

#[derive(Clone)]
pub struct SStream {
  pub id: u32,
  pub s: Scripted,
  pub log: Log,
  pos: usize,
  pend_left: Option<u8>,
  extra: i64,
  done: bool,
}

impl SStream {
  pub fn new(id: u32, s: Scripted, log: &Log) -> Self {
    SStream { id, s, log: log.clone(), pos: 0, pend_left: None, extra: 0, done: false }
  }
  fn park(&self, cx: &mut Context<'_>) {
    if self.s.self_wake {
      cx.waker().wake_by_ref()
    } else {
      WAKERS.lock().unwrap_or_else(|e| e.into_inner()).push((self.id, cx.waker().clone()))
    }
  }
  fn step(&mut self, cx: &mut Context<'_>) -> Poll<Option<Result<V, E>>> {
    self.log.mark(self.id, "poll", self.pos as i64);
    if self.done {
      // polling a finished stream again is the library's mistake; keep it visible
      self.log.mark(self.id, "poll_after_end", 0);
      return Poll::Ready(None);
    }
    let want = if self.pos < self.s.items.len() {
      self.s.items[self.pos].0
    } else if self.s.endless {
      // an endless async source yields to the executor between items
      1
    } else {
      self.s.end_pending
    };
    let left = self.pend_left.get_or_insert(want);
    if *left > 0 {
      *left -= 1;
      self.park(cx);
      return Poll::Pending;
    }
    self.pend_left = None;
    if self.pos < self.s.items.len() {
      let it = self.s.items[self.pos].1.clone();
      self.pos += 1;
      Poll::Ready(Some(it))
    } else if self.s.endless && self.extra < 1500 {
      self.extra += 1;
      self.pos += 1;
      Poll::Ready(Some(Ok(V::I(self.extra % 3))))
    } else {
      self.done = true;
      Poll::Ready(None)
    }
  }
}

/// stream of plain items (`from_stream`)
#[derive(Clone)]
pub struct ItemStream(pub SStream);
impl Stream for ItemStream {
  type Item = V;
  fn poll_next(mut self: Pin<&mut Self>, cx: &mut Context<'_>) -> Poll<Option<V>> {
    match self.0.step(cx) {
      Poll::Ready(Some(Ok(v))) => Poll::Ready(Some(v)),
      Poll::Ready(Some(Err(e))) => Poll::Ready(Some(V::I(-(e as i64)))),
      Poll::Ready(None) => Poll::Ready(None),
      Poll::Pending => Poll::Pending,
    }
  }
}

/// stream of results (`from_stream_result`)
#[derive(Clone)]
pub struct ResStream(pub SStream);
impl Stream for ResStream {
  type Item = Result<V, E>;
  fn poll_next(mut self: Pin<&mut Self>, cx: &mut Context<'_>) -> Poll<Option<Result<V, E>>> {
    self.0.step(cx)
  }
}

/// future of a plain item (`from_future`): first scripted element
#[derive(Clone)]
pub struct ItemFuture(pub SStream);
impl Future for ItemFuture {
  type Output = V;
  fn poll(mut self: Pin<&mut Self>, cx: &mut Context<'_>) -> Poll<V> {
    match self.0.step(cx) {
      Poll::Ready(Some(Ok(v))) => Poll::Ready(v),
      Poll::Ready(Some(Err(e))) => Poll::Ready(V::I(-(e as i64))),
      Poll::Ready(None) => Poll::Ready(V::U),
      Poll::Pending => Poll::Pending,
    }
  }
}

#[derive(Clone)]
pub struct ResFuture(pub SStream);
impl Future for ResFuture {
  type Output = Result<V, E>;
  fn poll(mut self: Pin<&mut Self>, cx: &mut Context<'_>) -> Poll<Result<V, E>> {
    match self.0.step(cx) {
      Poll::Ready(Some(r)) => Poll::Ready(r),
      Poll::Ready(None) => Poll::Ready(Ok(V::U)),
      Poll::Pending => Poll::Pending,
    }
  }
}

/// what `from_iter` is given: starting the iteration is itself logged, so a
/// pipeline that calls `into_iter()` while it is built (or once for several
/// subscriptions) is visible
#[derive(Clone)]
pub struct CountIterable {
  pub id: u32,
  pub cap: usize,
  pub log: Log,
}
impl IntoIterator for CountIterable {
  type Item = V;
  type IntoIter = CountIter;
  fn into_iter(self) -> CountIter {
    self.log.mark(self.id, "into_iter", 0);
    CountIter { id: self.id, cap: self.cap, i: 0, log: self.log }
  }
}

/// counting iterator 0,1,2.. capped at `cap` pulls; logs every pull
#[derive(Clone)]
pub struct CountIter {
  pub id: u32,
  pub cap: usize,
  pub i: usize,
  pub log: Log,
}
impl Iterator for CountIter {
  type Item = V;
  fn next(&mut self) -> Option<V> {
    if self.i >= self.cap {
      return None;
    }
    self.log.mark(self.id, "pull", self.i as i64);
    self.i += 1;
    Some(V::I(self.i as i64 - 1))
  }
  /// exact for even caps (what Vec / range iterators report), unknown for odd ones
  fn size_hint(&self) -> (usize, Option<usize>) {
    if self.cap % 2 == 0 {
      let n = self.cap.saturating_sub(self.i);
      (n, Some(n))
    } else {
      (0, None)
    }
  }
}
