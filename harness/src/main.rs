#![allow(dead_code)]
mod ast;
mod build;
mod conc;
mod exec;
mod gen;
mod log;
mod model;
mod props;
mod report;
mod scripts;
mod value;
mod vtime;
mod world;

use report::{Cfg, Report, Tier};

fn arg(args: &[String], name: &str) -> Option<String> {
  args.iter().position(|a| a == name).and_then(|i| args.get(i + 1).cloned())
}

fn main() {
  let args: Vec<String> = std::env::args().collect();
  if args.get(1).map(|s| s.as_str()) != Some("run") {
    eprintln!("usage: rxverif run --prop C03 --tier quick|thorough --seed N --shard i/n [--case ID] [--out file] [--mode m]");
    std::process::exit(2);
  }
  let shard = arg(&args, "--shard").unwrap_or("0/1".into());
  let (si, sn) = shard.split_once('/').unwrap();
  let cfg = Cfg {
    prop: arg(&args, "--prop").expect("--prop"),
    tier: if arg(&args, "--tier").as_deref() == Some("thorough") { Tier::Thorough } else { Tier::Quick },
    seed: arg(&args, "--seed").and_then(|s| s.parse().ok()).unwrap_or(1),
    shard: si.parse().unwrap(),
    nshards: sn.parse().unwrap(),
    only_case: arg(&args, "--case"),
    out: arg(&args, "--out"),
    mode: arg(&args, "--mode").unwrap_or_default(),
  };
  log::install_panic_hook();
  vtime::install();
  conc::install();
  if cfg.mode == "miri" {
    props::thr::miri_main(&cfg);
    return;
  }
  let t0 = std::time::Instant::now();
  let mut rep = Report::new();
  if !props::run(&cfg, &mut rep) {
    eprintln!("unknown property {}", cfg.prop);
    std::process::exit(2);
  }
  let j = rep.to_json(&cfg, t0.elapsed().as_secs_f64());
  match &cfg.out {
    Some(p) => {
      std::fs::write(p, serde_json::to_string(&j).unwrap()).unwrap();
      rep.write_hashes(&format!("{}.hashes", p));
    }
    None => println!("{}", serde_json::to_string_pretty(&j).unwrap()),
  }
}
