//! Virtual clock installed into rxRust's `NEW_TIMER_FN`. Time is an integer
//! count of nanoseconds; nothing sleeps. A timer's due time is fixed when it
//! is created; it completes only when the explorer *fires* it.
use std::collections::BTreeMap;
use std::future::Future;
use std::pin::Pin;
use std::sync::Mutex;
use std::task::{Context, Poll, Waker};
use std::time::Duration;

struct Timer {
  due: u64,
  fired: bool,
  waker: Option<Waker>,
}

struct Clock {
  now: u64,
  timers: BTreeMap<u64, Timer>,
  next_id: u64,
  gen: u64,
  created: u64,
}

static CLOCK: Mutex<Clock> = Mutex::new(Clock {
  now: 0,
  timers: BTreeMap::new(),
  next_id: 1,
  gen: 1,
  created: 0,
});

fn lock() -> std::sync::MutexGuard<'static, Clock> {
  CLOCK.lock().unwrap_or_else(|e| e.into_inner())
}

pub const MS: u64 = 1_000_000;

pub struct VTimer {
  id: u64,
  gen: u64,
}

impl Future for VTimer {
  type Output = ();
  fn poll(self: Pin<&mut Self>, cx: &mut Context<'_>) -> Poll<()> {
    let mut c = lock();
    if c.gen != self.gen {
      return Poll::Pending;
    }
    match c.timers.get_mut(&self.id) {
      Some(t) if t.fired => Poll::Ready(()),
      Some(t) => {
        // never drop a waker while holding the clock: it may own the last
        // reference to a task whose future contains another VTimer
        let old = std::mem::replace(&mut t.waker, Some(cx.waker().clone()));
        drop(c);
        drop(old);
        Poll::Pending
      }
      None => Poll::Ready(()),
    }
  }
}

impl Drop for VTimer {
  fn drop(&mut self) {
    let mut c = lock();
    let gone = if c.gen == self.gen { c.timers.remove(&self.id) } else { None };
    drop(c);
    drop(gone);
  }
}

fn new_vtimer(dur: Duration) -> rxrust::scheduler::BoxFuture<'static, ()> {
  let mut c = lock();
  let id = c.next_id;
  c.next_id += 1;
  c.created += 1;
  let due = c.now.saturating_add(dur.as_nanos() as u64);
  c.timers.insert(id, Timer { due, fired: false, waker: None });
  let gen = c.gen;
  drop(c);
  Box::pin(VTimer { id, gen })
}

pub fn install() {
  let _ = rxrust::scheduler::NEW_TIMER_FN.set(new_vtimer);
}

pub fn reset() {
  let mut c = lock();
  c.now = 0;
  c.gen += 1;
  let old = std::mem::take(&mut c.timers);
  c.created = 0;
  drop(c);
  drop(old); // wakers (and what they own) are dropped outside the clock lock
}

pub fn now() -> u64 {
  lock().now
}

pub fn created() -> u64 {
  lock().created
}

/// unfired timers as (id, due), earliest first (ties in creation order)
pub fn pending() -> Vec<(u64, u64)> {
  let c = lock();
  let mut v: Vec<(u64, u64)> =
    c.timers.iter().filter(|(_, t)| !t.fired).map(|(id, t)| (*id, t.due)).collect();
  v.sort_by_key(|(id, due)| (*due, *id));
  v
}

pub fn pending_count() -> usize {
  lock().timers.values().filter(|t| !t.fired).count()
}

/// timers still registered (not dropped), fired or not
pub fn live() -> usize {
  lock().timers.len()
}

pub fn next_due() -> Option<u64> {
  lock().timers.values().filter(|t| !t.fired).map(|t| t.due).min()
}

/// fire one timer: the clock moves to its due time if that is later than now
pub fn fire(id: u64) -> bool {
  let w = {
    let mut c = lock();
    let now = c.now;
    match c.timers.get_mut(&id) {
      Some(t) if !t.fired => {
        t.fired = true;
        let due = t.due;
        let w = t.waker.take();
        if due > now {
          c.now = due;
        }
        w
      }
      _ => return false,
    }
  };
  if let Some(w) = w {
    w.wake()
  }
  true
}

/// move the clock without firing anything (never backwards)
pub fn set_now(t: u64) {
  let mut c = lock();
  if t > c.now {
    c.now = t
  }
}

/// jump: move the clock to `t` and fire every timer due by then, in due order
pub fn advance_to(t: u64) -> usize {
  let ids: Vec<u64> =
    pending().into_iter().filter(|(_, due)| *due <= t).map(|(id, _)| id).collect();
  let n = ids.len();
  for id in ids {
    fire(id);
  }
  set_now(t);
  n
}
