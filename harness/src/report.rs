//! What a shard run reports back to the driver.
use serde_json::{json, Value as J};
use std::collections::{BTreeMap, BTreeSet, HashSet};

#[derive(Clone, Copy, Debug, PartialEq, Eq)]
pub enum Tier {
  Quick,
  Thorough,
}

#[derive(Clone, Debug)]
pub struct Cfg {
  pub prop: String,
  pub tier: Tier,
  pub seed: u64,
  pub shard: usize,
  pub nshards: usize,
  /// replay: run only this case id (as printed in a violation)
  pub only_case: Option<String>,
  pub out: Option<String>,
  /// free-form engine selector (e.g. "miri")
  pub mode: String,
}

impl Cfg {
  pub fn quick(&self) -> bool {
    self.tier == Tier::Quick
  }
  /// pick the budget for the tier
  pub fn n(&self, quick: usize, thorough: usize) -> usize {
    if self.quick() {
      quick
    } else {
      thorough
    }
  }
  pub fn mine(&self, idx: usize) -> bool {
    idx % self.nshards == self.shard
  }
  pub fn wants(&self, case_id: &str) -> bool {
    self.only_case.as_ref().map_or(true, |c| c == case_id)
  }
}

#[derive(Clone, Debug)]
pub struct Violation {
  pub kind: String,
  pub locus: String,
  pub case_id: String,
  pub detail: J,
}

#[derive(Default)]
pub struct Report {
  pub evaluations: u64,
  pub events: u64,
  pub nontrivial: HashSet<u64>,
  pub violations: Vec<Violation>,
  pub viol_counts: BTreeMap<String, u64>,
  pub samples: Vec<J>,
  pub counters: BTreeMap<String, u64>,
  pub sets: BTreeMap<String, BTreeSet<String>>,
  pub distinct: BTreeMap<String, HashSet<u64>>,
  pub inconclusive: Vec<String>,
}

impl Report {
  pub fn new() -> Self {
    Self::default()
  }
  pub fn count(&mut self, k: &str, n: u64) {
    *self.counters.entry(k.to_string()).or_insert(0) += n;
  }
  pub fn set(&mut self, k: &str, v: &str) {
    self.sets.entry(k.to_string()).or_default().insert(v.to_string());
  }
  pub fn distinct(&mut self, k: &str, h: u64) {
    self.distinct.entry(k.to_string()).or_default().insert(h);
  }
  pub fn sample(&mut self, j: J) {
    if self.samples.len() < 6 {
      self.samples.push(j)
    }
  }
  /// keep a sample with probability ~1/every (deterministic on the counter)
  pub fn sample_some(&mut self, every: u64, j: impl FnOnce() -> J) {
    if self.samples.len() < 6 && self.evaluations % every == 1 {
      self.samples.push(j())
    }
  }
  pub fn violation(&mut self, kind: &str, locus: &str, case_id: &str, detail: J) {
    let sig = format!("{}:{}", kind, locus);
    let c = self.viol_counts.entry(sig).or_insert(0);
    *c += 1;
    if *c <= 3 {
      self.violations.push(Violation {
        kind: kind.to_string(),
        locus: locus.to_string(),
        case_id: case_id.to_string(),
        detail,
      });
    }
  }
  pub fn to_json(&self, cfg: &Cfg, wall_s: f64) -> J {
    let mut distinct = serde_json::Map::new();
    for (k, v) in &self.distinct {
      distinct.insert(k.clone(), json!(v.len()));
    }
    json!({
      "prop": cfg.prop,
      "shard": cfg.shard,
      "nshards": cfg.nshards,
      "seed": cfg.seed,
      "evaluations": self.evaluations,
      "events": self.events,
      "distinct_nontrivial": self.nontrivial.len(),
      "violations": self.violations.iter().map(|v| json!({
        "kind": v.kind, "locus": v.locus, "case_id": v.case_id, "detail": v.detail
      })).collect::<Vec<_>>(),
      "violation_counts": self.viol_counts,
      "samples": self.samples,
      "counters": self.counters,
      "sets": self.sets,
      "distinct": distinct,
      "inconclusive": self.inconclusive,
      "wall_s": wall_s,
    })
  }
  /// 8-byte little-endian hashes: nontrivial set, then each named distinct set
  pub fn write_hashes(&self, path: &str) {
    use std::io::Write;
    let mut f = std::io::BufWriter::new(std::fs::File::create(path).unwrap());
    let mut put = |name: &str, set: &HashSet<u64>| {
      let nb = name.as_bytes();
      f.write_all(&(nb.len() as u32).to_le_bytes()).unwrap();
      f.write_all(nb).unwrap();
      f.write_all(&(set.len() as u64).to_le_bytes()).unwrap();
      for h in set {
        f.write_all(&h.to_le_bytes()).unwrap();
      }
    };
    put("nontrivial", &self.nontrivial);
    for (k, v) in &self.distinct {
      put(k, v);
    }
  }
}
