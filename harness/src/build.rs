//! AST -> real rxRust pipeline. One macro, three instantiations: local
//! (`BoxOp`), thread-safe (`BoxOpThreads`, every operator in its `_threads`
//! form where one exists) and cloneable (`CloneableBoxOp`). The library's own
//! `box_it()` erases the static type after every step.
use crate::ast::*;
use crate::log::*;
use crate::scripts::*;
use crate::value::*;
use rxrust::prelude::*;
use rxrust::observer::{BoxObserver, BoxObserverThreads};
use rxrust::ops::box_it::{BoxOp, BoxOpThreads, CloneableBoxOp};
use rxrust::ops::throttle::ThrottleEdge;
use std::convert::Infallible;
use std::time::{Duration, Instant};

fn inf(_: Infallible) -> E {
  unreachable!()
}
fn ms(n: u64) -> Duration {
  Duration::from_millis(n)
}
pub fn instant_at(base: Instant, off_ms: i64) -> Instant {
  if off_ms >= 0 {
    base + Duration::from_millis(off_ms as u64)
  } else {
    base.checked_sub(Duration::from_millis((-off_ms) as u64)).unwrap_or(base)
  }
}
fn edge(e: Edge) -> ThrottleEdge {
  match e {
    Edge::Leading => ThrottleEdge::leading(),
    Edge::Trailing => ThrottleEdge::tailing(),
    Edge::All => ThrottleEdge::all(),
  }
}
fn vmin_max(v: V) -> V {
  v
}
fn idx(v: &V, n: usize) -> usize {
  (v.int().rem_euclid(n.max(1) as i64)) as usize
}

macro_rules! flat_local {
  ($b:expr, $op:expr, $cx:expr, $build:ident, $B:ty) => {{
    let cx2 = $cx.clone();
    match $op {
      Op::MergeAll(n, inners) => {
        let inners = inners.clone();
        let r: $B = $b.map(move |v: V| $build(&inners[idx(&v, inners.len())], &cx2)).merge_all(*n).box_it();
        r
      }
      Op::ConcatAll(inners) => {
        let inners = inners.clone();
        let r: $B = $b.map(move |v: V| $build(&inners[idx(&v, inners.len())], &cx2)).concat_all().box_it();
        r
      }
      Op::Flatten(inners) => {
        let inners = inners.clone();
        let r: $B = $b.map(move |v: V| $build(&inners[idx(&v, inners.len())], &cx2)).flatten::<V, E>().box_it();
        r
      }
      Op::FlatMap(inners) => {
        let inners = inners.clone();
        let r: $B = $b.flat_map(move |v: V| $build(&inners[idx(&v, inners.len())], &cx2)).box_it();
        r
      }
      Op::ConcatMap(inners) => {
        let inners = inners.clone();
        let r: $B = $b.concat_map(move |v: V| $build(&inners[idx(&v, inners.len())], &cx2)).box_it();
        r
      }
      Op::GroupByFlat(k) => {
        let k = k.clone();
        let r: $B = $b
          .group_by::<_, i64, Subject<'static, V, E>>(move |v: &V| k.eval(v))
          .flat_map(|g| g)
          .box_it();
        r
      }
      _ => unreachable!(),
    }
  }};
}

macro_rules! flat_threads {
  ($b:expr, $op:expr, $cx:expr, $build:ident, $B:ty) => {{
    let cx2 = $cx.clone();
    match $op {
      Op::MergeAll(n, inners) => {
        let inners = inners.clone();
        let r: $B = $b.map(move |v: V| $build(&inners[idx(&v, inners.len())], &cx2)).merge_all_threads(*n).box_it();
        r
      }
      Op::ConcatAll(inners) => {
        let inners = inners.clone();
        let r: $B = $b.map(move |v: V| $build(&inners[idx(&v, inners.len())], &cx2)).concat_all_threads().box_it();
        r
      }
      Op::Flatten(inners) => {
        let inners = inners.clone();
        let r: $B = $b.map(move |v: V| $build(&inners[idx(&v, inners.len())], &cx2)).flatten_threads::<V, E>().box_it();
        r
      }
      Op::FlatMap(inners) => {
        let inners = inners.clone();
        let r: $B = $b.flat_map_threads(move |v: V| $build(&inners[idx(&v, inners.len())], &cx2)).box_it();
        r
      }
      Op::ConcatMap(inners) => {
        let inners = inners.clone();
        let r: $B = $b.concat_map_threads(move |v: V| $build(&inners[idx(&v, inners.len())], &cx2)).box_it();
        r
      }
      Op::GroupByFlat(k) => {
        let k = k.clone();
        let r: $B = $b
          .group_by::<_, i64, SubjectThreads<V, E>>(move |v: &V| k.eval(v))
          .flat_map_threads(|g| g)
          .box_it();
        r
      }
      _ => unreachable!(),
    }
  }};
}

macro_rules! flat_none {
  ($b:expr, $op:expr, $cx:expr, $build:ident, $B:ty) => {{
    let _ = &$cx;
    let _ = &$b;
    #[allow(unused_variables)]
    let r: $B = panic!("harness: {} is not available in the cloneable builder", $op.name());
    #[allow(unreachable_code)]
    r
  }};
}

macro_rules! timer_real {
  ($s:expr, $cx:expr, $B:ty) => {{
    let r: $B = match $s {
      Src::Timer(v, d) => timer(v.clone(), ms(*d), $cx.sched.clone()).on_error_map(inf).box_it(),
      Src::TimerUs(v, d) => timer(v.clone(), Duration::from_micros(*d), $cx.sched.clone()).on_error_map(inf).box_it(),
      Src::TimerAt(v, at) => {
        timer_at(v.clone(), instant_at($cx.base, *at), $cx.sched.clone()).on_error_map(inf).box_it()
      }
      _ => unreachable!(),
    };
    r
  }};
}
// TimerObservable is not Clone
macro_rules! timer_none {
  ($s:expr, $cx:expr, $B:ty) => {{
    let r: $B = panic!("harness: {} is not available in the cloneable builder", $s.name());
    #[allow(unreachable_code)]
    r
  }};
}

macro_rules! status_real {
  ($b:expr, $op:expr, $B:ty) => {{
    let (o, _status) = $b.complete_status();
    let r: $B = o.box_it();
    r
  }};
}
// StatusOp is not Clone
macro_rules! status_none {
  ($b:expr, $op:expr, $B:ty) => {{
    let _ = $b;
    let r: $B = panic!("harness: {} is not available in the cloneable builder", $op.name());
    #[allow(unreachable_code)]
    r
  }};
}

macro_rules! throttle_time_real {
  ($b:expr, $d:expr, $e:expr, $s:expr) => {
    $b.throttle_time(ms($d), edge($e), $s)
  };
}
macro_rules! throttle_time_closure {
  ($b:expr, $d:expr, $e:expr, $s:expr) => {{
    let d = $d;
    $b.throttle(move |_: &V| ms(d), edge($e), $s)
  }};
}

/// log id under which the stateful combine_latest combinator numbers its calls
pub const COMBINE_CALL_ID: u32 = 46;

macro_rules! gen_builder {
  (
    $modname:ident, $B:ty, $Subj:ty, $Subscriber:ident, $BoxObs:ty, $Sched:ty,
    merge=$merge:ident, zip=$zip:ident, combine=$combine:ident, wlf=$wlf:ident,
    take_until=$take_until:ident, skip_until=$skip_until:ident, sample=$sample:ident,
    delay=$delay:ident, delay_at=$delay_at:ident, observe_on=$observe_on:ident,
    finalize=$finalize:ident, share=$share:ident, flat=$flat:ident, tt=$tt:ident, timer=$timer:ident, status=$status:ident,
    stash=$Stash:ty
  ) => {
    pub mod $modname {
      use super::*;

      #[derive(Clone)]
      pub struct Ctx {
        pub hot: Vec<$Subj>,
        pub stash: $Stash,
        pub sched: $Sched,
        pub log: Log,
        pub base: Instant,
      }

      pub fn build(c: &Chain, cx: &Ctx) -> $B {
        let mut b = build_src(&c.src, cx);
        for op in &c.ops {
          b = apply(b, op, cx);
        }
        b
      }

      pub fn build_src(s: &Src, cx: &Ctx) -> $B {
        let log = cx.log.clone();
        match s {
          Src::Hot(k) => cx.hot[*k].clone().box_it(),
          Src::Create(k) => {
            let stash = cx.stash.clone();
            let k = *k;
            let r: $B = create(move |s: $Subscriber<$BoxObs>| {
              log.mark(SRC_CALL_ID, "call", 0);
              stash_put(&stash, k, s)
            })
            .box_it();
            r
          }
          Src::CreateSync(script) => {
            let script = script.clone();
            let r: $B = create(move |mut s: $Subscriber<$BoxObs>| {
              log.mark(SRC_CALL_ID, "call", 0);
              for n in script {
                match n {
                  N::Next(v) => s.next(v),
                  N::Err(e) => s.clone().error(e),
                  N::Complete => s.clone().complete(),
                }
              }
            })
            .box_it();
            r
          }
          Src::Varying(scripts) => {
            let scripts = scripts.clone();
            let n = std::sync::Arc::new(std::sync::atomic::AtomicUsize::new(0));
            let r: $B = defer(move || {
              let k = n.fetch_add(1, std::sync::atomic::Ordering::SeqCst);
              let script = scripts[k % scripts.len()].clone();
              create(move |mut s: $Subscriber<$BoxObs>| {
                for n in script {
                  match n {
                    N::Next(v) => s.next(v),
                    N::Err(e) => s.clone().error(e),
                    N::Complete => s.clone().complete(),
                  }
                }
              })
            })
            .box_it();
            r
          }
          Src::Iter(items) => from_iter(items.clone()).on_error_map(inf).box_it(),
          Src::IterCount(id, cap) => {
            from_iter(CountIterable { id: *id, cap: *cap, log }).on_error_map(inf).box_it()
          }
          Src::Of(v) => of(v.clone()).on_error_map(inf).box_it(),
          Src::OfOpt(v) => of_option(v.clone()).on_error_map(inf).box_it(),
          Src::OfRes(r) => of_result(r.clone()).box_it(),
          Src::OfFn(v) => {
            let v = v.clone();
            of_fn(move || {
              log.mark(SRC_CALL_ID, "call", 0);
              v
            })
            .on_error_map(inf)
            .box_it()
          }
          Src::Start(v) => {
            let v = v.clone();
            start(move || {
              log.mark(SRC_CALL_ID, "call", 0);
              v
            })
            .on_error_map(inf)
            .box_it()
          }
          Src::Repeat(v, n) => repeat(v.clone(), *n).on_error_map(inf).box_it(),
          Src::Empty => {
            let r: $B = ObservableExt::<V, Infallible>::on_error_map(empty(), inf).box_it();
            r
          }
          Src::Never => never().map(|_: ()| V::U).on_error_map(inf).box_it(),
          Src::Throw(e) => throw(*e).map(|_: ()| V::U).box_it(),
          Src::Defer(c) => {
            let c = c.clone();
            let cx2 = cx.clone();
            defer(move || {
              log.mark(SRC_CALL_ID, "call", 0);
              build(&c, &cx2)
            })
            .box_it()
          }
          Src::Interval(p) => interval(ms(*p), cx.sched.clone())
            .map(|i: usize| V::I(i as i64))
            .on_error_map(inf)
            .box_it(),
          Src::IntervalUs(p) => interval(Duration::from_micros(*p), cx.sched.clone())
            .map(|i: usize| V::I(i as i64))
            .on_error_map(inf)
            .box_it(),
          Src::IntervalAt(at, p) => {
            interval_at(instant_at(cx.base, *at), ms(*p), cx.sched.clone())
              .map(|i: usize| V::I(i as i64))
              .on_error_map(inf)
              .box_it()
          }
          Src::IntervalAtUs(at, p) => {
            interval_at(instant_at(cx.base, *at), Duration::from_micros(*p), cx.sched.clone())
              .map(|i: usize| V::I(i as i64))
              .on_error_map(inf)
              .box_it()
          }
          Src::Timer(..) | Src::TimerUs(..) | Src::TimerAt(..) => $timer!(s, cx, $B),
          Src::Future(id, s) => {
            from_future(ItemFuture(SStream::new(*id, s.clone(), &log)), cx.sched.clone())
              .on_error_map(inf)
              .box_it()
          }
          Src::FutureRes(id, s) => {
            from_future_result(ResFuture(SStream::new(*id, s.clone(), &log)), cx.sched.clone()).box_it()
          }
          Src::Stream(id, s) => {
            from_stream(ItemStream(SStream::new(*id, s.clone(), &log)), cx.sched.clone())
              .on_error_map(inf)
              .box_it()
          }
          Src::StreamRes(id, s) => {
            from_stream_result(ResStream(SStream::new(*id, s.clone(), &log)), cx.sched.clone()).box_it()
          }
        }
      }

      pub fn apply(b: $B, op: &Op, cx: &Ctx) -> $B {
        let log = cx.log.clone();
        match op {
          Op::Map(f) => {
            let f = f.clone();
            b.map(move |v: V| f.eval(v)).box_it()
          }
          Op::MapTo(v) => b.map_to(v.clone()).box_it(),
          Op::Filter(p) => {
            let p = p.clone();
            b.filter(move |v: &V| p.eval(v)).box_it()
          }
          Op::FilterMap(p, f) => {
            let (p, f) = (p.clone(), f.clone());
            b.filter_map(move |v: V| if p.eval(&v) { Some(f.eval(v)) } else { None }).box_it()
          }
          Op::Tap(id) => {
            let id = *id;
            b.tap(move |v: &V| {
              log.mark(id, "tap", v.int());
            })
            .box_it()
          }
          Op::Take(n) => b.take(*n).box_it(),
          Op::Skip(n) => b.skip(*n).box_it(),
          Op::TakeWhile(p) => {
            let p = p.clone();
            b.take_while(move |v: &V| p.eval(v)).box_it()
          }
          Op::TakeWhileIncl(p) => {
            let p = p.clone();
            b.take_while_inclusive(move |v: &V| p.eval(v)).box_it()
          }
          Op::SkipWhile(p) => {
            let p = p.clone();
            b.skip_while(move |v: &V| p.eval(v)).box_it()
          }
          Op::TakeLast(n) => b.take_last(*n).box_it(),
          Op::SkipLast(n) => b.skip_last(*n).box_it(),
          Op::First => b.first().box_it(),
          Op::FirstOr(v) => b.first_or(v.clone()).box_it(),
          Op::Last => b.last().box_it(),
          Op::LastOr(v) => b.last_or(v.clone()).box_it(),
          Op::ElementAt(n) => b.element_at(*n).box_it(),
          Op::IgnoreElements => b.ignore_elements().box_it(),
          Op::StartWith(vs) => b.start_with(vs.clone()).box_it(),
          Op::DefaultIfEmpty(v) => b.default_if_empty(v.clone()).box_it(),
          Op::Scan => b.scan(|acc: V, v: V| acc + v).box_it(),
          Op::ScanInitial(i) => b.scan_initial(i.clone(), |acc: V, v: V| acc + v).box_it(),
          Op::Reduce => b.reduce(|acc: V, v: V| acc + v).box_it(),
          Op::ReduceInitial(i) => b.reduce_initial(i.clone(), |acc: V, v: V| acc + v).box_it(),
          Op::Count => b.count().map(|n: usize| V::I(n as i64)).box_it(),
          Op::Sum => b.sum().box_it(),
          Op::Min => b.min().map(vmin_max).box_it(),
          Op::Max => b.max().map(vmin_max).box_it(),
          Op::Distinct => b.distinct().box_it(),
          Op::DistinctKey(k) => {
            let k = k.clone();
            b.distinct_key(move |v: &V| k.eval(v)).box_it()
          }
          Op::DistinctUntilChanged => b.distinct_until_changed().box_it(),
          Op::DistinctUntilKeyChanged(k) => {
            let k = k.clone();
            b.distinct_until_key_changed(move |v: &V| k.eval(v)).box_it()
          }
          Op::Pairwise => b.pairwise().map(|(a, c): (V, V)| V::p(a, c)).box_it(),
          Op::BufferWithCount(n) => b.buffer_with_count(*n).map(V::L).box_it(),
          Op::Contains(v) => b.contains(v.clone()).map(V::B).box_it(),
          Op::All(p) => {
            let p = p.clone();
            b.all(move |v: V| p.eval(&v)).map(V::B).box_it()
          }
          Op::Collect => b.collect::<Vec<V>>().map(V::L).box_it(),
          Op::OnErrorMap(k) => {
            let k = *k;
            b.on_error_map(move |e: E| e.wrapping_mul(10).wrapping_add(k)).box_it()
          }
          Op::Merge(c) => b.$merge(build(c, cx)).box_it(),
          Op::Zip(c) => b.$zip(build(c, cx)).map(|(a, c): (V, V)| V::p(a, c)).box_it(),
          Op::CombineLatest(c) => b
            .$combine(build(c, cx), {
              // a stateful combinator (it is an FnMut): it numbers its own calls
              let (l2, mut calls) = (log.clone(), 0i64);
              move |a: V, c: V| {
                calls += 1;
                l2.mark(crate::build::COMBINE_CALL_ID, "combine_call", calls);
                (a, c)
              }
            })
            .map(|(a, c): (V, V)| V::p(a, c))
            .box_it(),
          Op::WithLatestFrom(c) => {
            b.$wlf(build(c, cx)).map(|(a, c): (V, V)| V::p(a, c)).box_it()
          }
          Op::TakeUntil(c) => b.$take_until::<_, V, E>(build(c, cx)).box_it(),
          Op::SkipUntil(c) => b.$skip_until::<V, E, _>(build(c, cx)).box_it(),
          Op::Sample(c) => b.$sample::<_, V, E>(build(c, cx)).box_it(),
          Op::Buffer(c) => b.buffer(build(c, cx).map(|_: V| ())).map(V::L).box_it(),
          Op::MergeAll(..)
          | Op::ConcatAll(_)
          | Op::Flatten(_)
          | Op::FlatMap(_)
          | Op::ConcatMap(_)
          | Op::GroupByFlat(_) => $flat!(b, op, cx, build, $B),
          Op::Delay(d) => b.$delay(ms(*d), cx.sched.clone()).box_it(),
          Op::DelayUs(d) => b.$delay(Duration::from_micros(*d), cx.sched.clone()).box_it(),
          Op::DelayAt(at) => b.$delay_at(instant_at(cx.base, *at), cx.sched.clone()).box_it(),
          Op::DelaySubscription(d) => b.delay_subscription(ms(*d), cx.sched.clone()).box_it(),
          Op::DelaySubscriptionAt(at) => {
            b.delay_subscription_at(instant_at(cx.base, *at), cx.sched.clone()).box_it()
          }
          Op::ObserveOn => b.$observe_on(cx.sched.clone()).box_it(),
          Op::SubscribeOn => b.subscribe_on(cx.sched.clone()).box_it(),
          Op::Debounce(d) => b.debounce(ms(*d), cx.sched.clone()).box_it(),
          Op::DebounceUs(d) => b.debounce(Duration::from_micros(*d), cx.sched.clone()).box_it(),
          Op::ThrottleTime(d, e) => $tt!(b, *d, *e, cx.sched.clone()).box_it(),
          Op::Throttle(base, e) => {
            let base = *base;
            b.throttle(
              move |v: &V| ms(base + v.int().rem_euclid(3) as u64),
              edge(*e),
              cx.sched.clone(),
            )
            .box_it()
          }
          Op::BufferWithTime(d) => b.buffer_with_time(ms(*d), cx.sched.clone()).map(V::L).box_it(),
          Op::BufferWithCountAndTime(n, d) => {
            b.buffer_with_count_and_time(*n, ms(*d), cx.sched.clone()).map(V::L).box_it()
          }
          Op::Finalize(id) => {
            let id = *id;
            b.$finalize(move || {
              log.mark(id, "finalize", 0);
              // a harness hook: a check may let finalize callbacks act (see C02)
              crate::log::fire_local_pub(id, &N::Complete);
            })
            .box_it()
          }
          Op::Share => b.$share().box_it(),
          Op::Spy(id) => Spy { src: b, id: *id, log }.box_it(),
          Op::Deaf => Deaf { src: b }.box_it(),
          Op::Status => $status!(b, op, $B),
          Op::BoxIt => b.box_it(),
        }
      }
    }
  };
}

pub type StashL = std::rc::Rc<std::cell::RefCell<Vec<Option<Subscriber<BoxObserver<'static, V, E>>>>>>;
pub type StashT = std::sync::Arc<std::sync::Mutex<Vec<Option<SubscriberThreads<BoxObserverThreads<V, E>>>>>>;

pub trait StashPut<S> {
  fn put(&self, k: usize, s: S);
}
impl StashPut<Subscriber<BoxObserver<'static, V, E>>> for StashL {
  fn put(&self, k: usize, s: Subscriber<BoxObserver<'static, V, E>>) {
    let mut v = self.borrow_mut();
    while v.len() <= k {
      v.push(None)
    }
    v[k] = Some(s);
  }
}
impl StashPut<SubscriberThreads<BoxObserverThreads<V, E>>> for StashT {
  fn put(&self, k: usize, s: SubscriberThreads<BoxObserverThreads<V, E>>) {
    let mut v = self.lock().unwrap_or_else(|e| e.into_inner());
    while v.len() <= k {
      v.push(None)
    }
    v[k] = Some(s);
  }
}
fn stash_put<T: StashPut<S>, S>(t: &T, k: usize, s: S) {
  t.put(k, s)
}

gen_builder!(
  local, BoxOp<'static, V, E>, Subject<'static, V, E>, Subscriber, BoxObserver<'static, V, E>,
  rxrust::verif_hooks::VerifScheduler,
  merge=merge, zip=zip, combine=combine_latest, wlf=with_latest_from,
  take_until=take_until, skip_until=skip_until, sample=sample,
  delay=delay, delay_at=delay_at, observe_on=observe_on,
  finalize=finalize, share=share, flat=flat_local, tt=throttle_time_real, timer=timer_real, status=status_real,
  stash=StashL
);

gen_builder!(
  threads, BoxOpThreads<V, E>, SubjectThreads<V, E>, SubscriberThreads, BoxObserverThreads<V, E>,
  rxrust::verif_hooks::VerifSchedulerThreads,
  merge=merge_threads, zip=zip_threads, combine=combine_latest_threads, wlf=with_latest_from_threads,
  take_until=take_until_threads, skip_until=skip_until_threads, sample=sample_threads,
  delay=delay_threads, delay_at=delay_at_threads, observe_on=observe_on_threads,
  finalize=finalize_threads, share=share_threads, flat=flat_threads, tt=throttle_time_real, timer=timer_real, status=status_real,
  stash=StashT
);

gen_builder!(
  cloneable, CloneableBoxOp<'static, V, E>, Subject<'static, V, E>, Subscriber, BoxObserver<'static, V, E>,
  rxrust::verif_hooks::VerifScheduler,
  merge=merge, zip=zip, combine=combine_latest, wlf=with_latest_from,
  take_until=take_until, skip_until=skip_until, sample=sample,
  delay=delay, delay_at=delay_at, observe_on=observe_on,
  finalize=finalize, share=share, flat=flat_none, tt=throttle_time_closure, timer=timer_none, status=status_none,
  stash=StashL
);

// the library's own `impl Scheduler for futures::executor::LocalSpawner` (real LocalPool)
gen_builder!(
  localpool, BoxOp<'static, V, E>, Subject<'static, V, E>, Subscriber, BoxObserver<'static, V, E>,
  futures::executor::LocalSpawner,
  merge=merge, zip=zip, combine=combine_latest, wlf=with_latest_from,
  take_until=take_until, skip_until=skip_until, sample=sample,
  delay=delay, delay_at=delay_at, observe_on=observe_on,
  finalize=finalize, share=share, flat=flat_local, tt=throttle_time_real, timer=timer_real, status=status_real,
  stash=StashL
);
