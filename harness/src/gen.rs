//! Generators: scripts, operator parameter sweeps, random chains; and the
//! deterministic shrinker used to compute a violation's locus.
use crate::ast::*;
use crate::value::*;

pub const ERR: E = 7;

pub fn preds() -> Vec<Pred> {
  vec![Pred::Lt(1), Pred::Lt(2), Pred::Eq(1), Pred::Even, Pred::True, Pred::False]
}

/// every script over `alphabet` up to length `max_len` x terminal {none, complete, error}
pub fn all_scripts(alphabet: &[i64], max_len: usize) -> Vec<Vec<N>> {
  let mut bodies: Vec<Vec<N>> = vec![vec![]];
  let mut frontier: Vec<Vec<N>> = vec![vec![]];
  for _ in 0..max_len {
    let mut next = vec![];
    for b in &frontier {
      for a in alphabet {
        let mut nb = b.clone();
        nb.push(N::Next(V::I(*a)));
        next.push(nb);
      }
    }
    bodies.extend(next.iter().cloned());
    frontier = next;
  }
  let mut out = vec![];
  for b in bodies {
    out.push(b.clone());
    let mut c = b.clone();
    c.push(N::Complete);
    out.push(c);
    let mut e = b;
    e.push(N::Err(ERR));
    out.push(e);
  }
  out
}

pub fn random_script(rng: &mut Rng, max_len: usize, alphabet: i64, post_terminal: bool) -> Vec<N> {
  let len = rng.below(max_len + 1);
  let mut s: Vec<N> = (0..len).map(|_| N::Next(V::I(rng.range(0, alphabet - 1)))).collect();
  match rng.below(4) {
    0 => {}
    1 | 2 => s.push(N::Complete),
    _ => s.push(N::Err(ERR)),
  }
  if post_terminal && s.last().map_or(false, |n| n.is_terminal()) {
    for _ in 0..rng.below(3) {
      s.push(match rng.below(4) {
        0 => N::Complete,
        1 => N::Err(ERR + 1),
        _ => N::Next(V::I(rng.range(0, alphabet - 1))),
      });
    }
  }
  s
}

/// every single-input operator with every parameter in the small ranges
pub fn single_op_variants(n: usize) -> Vec<Op> {
  let mut v = vec![
    Op::Map(MapF::Add(1)),
    Op::Map(MapF::Mod(2)),
    Op::MapTo(V::I(9)),
    Op::Tap(50),
    Op::First,
    Op::FirstOr(V::I(9)),
    Op::Last,
    Op::LastOr(V::I(9)),
    Op::IgnoreElements,
    Op::StartWith(vec![]),
    Op::StartWith(vec![V::I(8), V::I(9)]),
    Op::DefaultIfEmpty(V::I(9)),
    Op::Scan,
    Op::ScanInitial(V::I(10)),
    Op::Reduce,
    Op::ReduceInitial(V::I(10)),
    Op::Count,
    Op::Sum,
    Op::Min,
    Op::Max,
    Op::Distinct,
    Op::DistinctKey(KeyF::Mod(2)),
    Op::DistinctKey(KeyF::Const),
    Op::DistinctUntilChanged,
    Op::DistinctUntilKeyChanged(KeyF::Mod(2)),
    Op::DistinctUntilKeyChanged(KeyF::Const),
    Op::Pairwise,
    Op::Collect,
    Op::OnErrorMap(3),
    Op::BoxIt,
  ];
  for p in preds() {
    v.push(Op::Filter(p.clone()));
    v.push(Op::FilterMap(p.clone(), MapF::Add(10)));
    v.push(Op::TakeWhile(p.clone()));
    v.push(Op::TakeWhileIncl(p.clone()));
    v.push(Op::SkipWhile(p.clone()));
    v.push(Op::All(p));
  }
  for k in 0..=n + 1 {
    v.push(Op::Take(k));
    v.push(Op::Skip(k));
    v.push(Op::TakeLast(k));
    v.push(Op::SkipLast(k));
    v.push(Op::ElementAt(k));
    if k >= 1 {
      v.push(Op::BufferWithCount(k));
    }
  }
  for t in 0..3 {
    v.push(Op::Contains(V::I(t)));
  }
  v
}

pub fn random_pred(rng: &mut Rng) -> Pred {
  match rng.below(6) {
    0 => Pred::Lt(rng.range(0, 3)),
    1 => Pred::Eq(rng.range(0, 2)),
    2 => Pred::Even,
    3 => Pred::True,
    4 => Pred::False,
    _ => Pred::Lt(2),
  }
}

/// a random single-input operator (outputs stay in a small integer range
/// where possible so that later predicates still discriminate)
pub fn random_single_op(rng: &mut Rng, n: usize) -> Op {
  let k = rng.below(n + 2);
  match rng.below(40) {
    0 => Op::Map(MapF::Add(rng.range(0, 2))),
    1 => Op::Map(MapF::Mod(rng.range(2, 3))),
    2 => Op::MapTo(V::I(rng.range(0, 2))),
    3 => Op::Filter(random_pred(rng)),
    4 => Op::FilterMap(random_pred(rng), MapF::Add(1)),
    5 => Op::Tap(50 + rng.below(4) as u32),
    6 => Op::Take(k),
    7 => Op::Skip(k),
    8 => Op::TakeWhile(random_pred(rng)),
    9 => Op::TakeWhileIncl(random_pred(rng)),
    10 => Op::SkipWhile(random_pred(rng)),
    11 => Op::TakeLast(k),
    12 => Op::SkipLast(k),
    13 => Op::First,
    14 => Op::FirstOr(V::I(1)),
    15 => Op::Last,
    16 => Op::LastOr(V::I(1)),
    17 => Op::ElementAt(k),
    18 => Op::IgnoreElements,
    19 => Op::StartWith((0..rng.below(3)).map(|i| V::I(i as i64)).collect()),
    20 => Op::DefaultIfEmpty(V::I(2)),
    21 => Op::Scan,
    22 => Op::ScanInitial(V::I(1)),
    23 => Op::Reduce,
    24 => Op::ReduceInitial(V::I(1)),
    25 => Op::Count,
    26 => Op::Sum,
    27 => Op::Min,
    28 => Op::Max,
    29 => Op::Distinct,
    30 => Op::DistinctKey(if rng.chance(1, 2) { KeyF::Mod(2) } else { KeyF::Ident }),
    31 => Op::DistinctUntilChanged,
    32 => Op::DistinctUntilKeyChanged(KeyF::Mod(2)),
    33 => Op::Pairwise,
    34 => Op::BufferWithCount(k.max(1)),
    35 => Op::Contains(V::I(rng.range(0, 2))),
    36 => Op::All(random_pred(rng)),
    37 => Op::Collect,
    38 => Op::OnErrorMap(rng.range(0, 3) as i32),
    _ => Op::BoxIt,
  }
}

/// Deterministic delta-debugging of a chain: drop operators, collapse
/// sub-chains, as long as `still` keeps reporting the violation.
pub fn shrink_chain(c: &Chain, still: &mut dyn FnMut(&Chain) -> bool) -> Chain {
  let mut cur = c.clone();
  let mut progress = true;
  let mut rounds = 0;
  while progress && rounds < 20 {
    progress = false;
    rounds += 1;
    // drop one top-level operator
    let mut i = 0;
    while i < cur.ops.len() {
      let mut cand = cur.clone();
      cand.ops.remove(i);
      if still(&cand) {
        cur = cand;
        progress = true;
      } else {
        i += 1;
      }
    }
    // shrink sub-chains
    for i in 0..cur.ops.len() {
      let subs: Vec<Chain> = cur.ops[i].sub_chains().into_iter().cloned().collect();
      for (j, sc) in subs.iter().enumerate() {
        let mut k = 0;
        let mut scur = sc.clone();
        while k < scur.ops.len() {
          let mut scand = scur.clone();
          scand.ops.remove(k);
          let mut cand = cur.clone();
          replace_sub(&mut cand.ops[i], j, scand.clone());
          if still(&cand) {
            scur = scand;
            cur = cand;
            progress = true;
          } else {
            k += 1;
          }
        }
      }
    }
  }
  cur
}

pub fn replace_sub(op: &mut Op, j: usize, new: Chain) {
  match op {
    Op::Merge(c)
    | Op::Zip(c)
    | Op::CombineLatest(c)
    | Op::WithLatestFrom(c)
    | Op::TakeUntil(c)
    | Op::SkipUntil(c)
    | Op::Sample(c)
    | Op::Buffer(c) => **c = new,
    Op::MergeAll(_, cs) | Op::ConcatAll(cs) | Op::FlatMap(cs) | Op::ConcatMap(cs) | Op::Flatten(cs) => {
      cs[j] = new
    }
    _ => {}
  }
}

/// shorten a script while the violation persists
pub fn shrink_script(s: &[N], still: &mut dyn FnMut(&[N]) -> bool) -> Vec<N> {
  let mut cur = s.to_vec();
  let mut i = 0;
  while i < cur.len() {
    let mut cand = cur.clone();
    cand.remove(i);
    if still(&cand) {
      cur = cand;
    } else {
      i += 1;
    }
  }
  cur
}

pub fn locus_of(c: &Chain) -> String {
  let names: Vec<&str> = c
    .api_names()
    .into_iter()
    .filter(|n| !matches!(*n, "subject" | "create" | "from_iter" | "box_it"))
    .collect();
  if names.is_empty() {
    c.src.name().to_string()
  } else {
    names.join("+")
  }
}
