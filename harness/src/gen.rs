//! Generators: scripts, operator parameter sweeps, random chains; and the
//! deterministic shrinker used to compute a violation's locus.
use crate::ast::*;
use crate::value::*;

pub const ERR: E = 7;

pub fn preds() -> Vec<Pred> {
  vec![Pred::Lt(1), Pred::Lt(2), Pred::Eq(1), Pred::Even, Pred::True, Pred::False]
}

/// every script over `alphabet` up to length `max_len` x terminal {none, complete, error}
pub fn all_scripts(alphabet: &[i64], max_len: usize) -> Vec<Vec<N>> {
  let mut bodies: Vec<Vec<N>> = vec![vec![]];
  let mut frontier: Vec<Vec<N>> = vec![vec![]];
  for _ in 0..max_len {
    let mut next = vec![];
    for b in &frontier {
      for a in alphabet {
        let mut nb = b.clone();
        nb.push(N::Next(V::I(*a)));
        next.push(nb);
      }
    }
    bodies.extend(next.iter().cloned());
    frontier = next;
  }
  let mut out = vec![];
  for b in bodies {
    out.push(b.clone());
    let mut c = b.clone();
    c.push(N::Complete);
    out.push(c);
    let mut e = b;
    e.push(N::Err(ERR));
    out.push(e);
  }
  out
}

pub fn random_script(rng: &mut Rng, max_len: usize, alphabet: i64, post_terminal: bool) -> Vec<N> {
  let len = rng.below(max_len + 1);
  let mut s: Vec<N> = (0..len).map(|_| N::Next(V::I(rng.range(0, alphabet - 1)))).collect();
  match rng.below(4) {
    0 => {}
    1 | 2 => s.push(N::Complete),
    _ => s.push(N::Err(ERR)),
  }
  if post_terminal && s.last().map_or(false, |n| n.is_terminal()) {
    for _ in 0..rng.below(3) {
      s.push(match rng.below(4) {
        0 => N::Complete,
        1 => N::Err(ERR + 1),
        _ => N::Next(V::I(rng.range(0, alphabet - 1))),
      });
    }
  }
  s
}

/// every single-input operator with every parameter in the small ranges
pub fn single_op_variants(n: usize) -> Vec<Op> {
  let mut v = vec![
    Op::Map(MapF::Add(1)),
    Op::Map(MapF::Mod(2)),
    Op::MapTo(V::I(9)),
    Op::Tap(50),
    Op::First,
    Op::FirstOr(V::I(9)),
    Op::Last,
    Op::LastOr(V::I(9)),
    Op::IgnoreElements,
    Op::StartWith(vec![]),
    Op::StartWith(vec![V::I(8), V::I(9)]),
    Op::DefaultIfEmpty(V::I(9)),
    Op::Scan,
    Op::ScanInitial(V::I(10)),
    Op::Reduce,
    Op::ReduceInitial(V::I(10)),
    Op::Count,
    Op::Sum,
    Op::Min,
    Op::Max,
    Op::Distinct,
    Op::DistinctKey(KeyF::Mod(2)),
    Op::DistinctKey(KeyF::Const),
    Op::DistinctUntilChanged,
    Op::DistinctUntilKeyChanged(KeyF::Mod(2)),
    Op::DistinctUntilKeyChanged(KeyF::Const),
    Op::Pairwise,
    Op::Collect,
    Op::OnErrorMap(3),
    Op::BoxIt,
  ];
  for p in preds() {
    v.push(Op::Filter(p.clone()));
    v.push(Op::FilterMap(p.clone(), MapF::Add(10)));
    v.push(Op::TakeWhile(p.clone()));
    v.push(Op::TakeWhileIncl(p.clone()));
    v.push(Op::SkipWhile(p.clone()));
    v.push(Op::All(p));
  }
  for k in 0..=n + 1 {
    v.push(Op::Take(k));
    v.push(Op::Skip(k));
    v.push(Op::TakeLast(k));
    v.push(Op::SkipLast(k));
    v.push(Op::ElementAt(k));
    if k >= 1 {
      v.push(Op::BufferWithCount(k));
    }
  }
  for t in 0..3 {
    v.push(Op::Contains(V::I(t)));
  }
  v
}

pub fn random_pred(rng: &mut Rng) -> Pred {
  match rng.below(6) {
    0 => Pred::Lt(rng.range(0, 3)),
    1 => Pred::Eq(rng.range(0, 2)),
    2 => Pred::Even,
    3 => Pred::True,
    4 => Pred::False,
    _ => Pred::Lt(2),
  }
}

/// a random single-input operator (outputs stay in a small integer range
/// where possible so that later predicates still discriminate)
pub fn random_single_op(rng: &mut Rng, n: usize) -> Op {
  let k = rng.below(n + 2);
  match rng.below(40) {
    0 => Op::Map(MapF::Add(rng.range(0, 2))),
    1 => Op::Map(MapF::Mod(rng.range(2, 3))),
    2 => Op::MapTo(V::I(rng.range(0, 2))),
    3 => Op::Filter(random_pred(rng)),
    4 => Op::FilterMap(random_pred(rng), MapF::Add(1)),
    5 => Op::Tap(50 + rng.below(4) as u32),
    6 => Op::Take(k),
    7 => Op::Skip(k),
    8 => Op::TakeWhile(random_pred(rng)),
    9 => Op::TakeWhileIncl(random_pred(rng)),
    10 => Op::SkipWhile(random_pred(rng)),
    11 => Op::TakeLast(k),
    12 => Op::SkipLast(k),
    13 => Op::First,
    14 => Op::FirstOr(V::I(1)),
    15 => Op::Last,
    16 => Op::LastOr(V::I(1)),
    17 => Op::ElementAt(k),
    18 => Op::IgnoreElements,
    19 => Op::StartWith((0..rng.below(3)).map(|i| V::I(i as i64)).collect()),
    20 => Op::DefaultIfEmpty(V::I(2)),
    21 => Op::Scan,
    22 => Op::ScanInitial(V::I(1)),
    23 => Op::Reduce,
    24 => Op::ReduceInitial(V::I(1)),
    25 => Op::Count,
    26 => Op::Sum,
    27 => Op::Min,
    28 => Op::Max,
    29 => Op::Distinct,
    30 => Op::DistinctKey(if rng.chance(1, 2) { KeyF::Mod(2) } else { KeyF::Ident }),
    31 => Op::DistinctUntilChanged,
    32 => Op::DistinctUntilKeyChanged(KeyF::Mod(2)),
    33 => Op::Pairwise,
    34 => Op::BufferWithCount(k.max(1)),
    35 => Op::Contains(V::I(rng.range(0, 2))),
    36 => Op::All(random_pred(rng)),
    37 => Op::Collect,
    38 => Op::OnErrorMap(rng.range(0, 3) as i32),
    _ => Op::BoxIt,
  }
}

/// Deterministic delta-debugging of a chain: drop operators, collapse
/// sub-chains, as long as `still` keeps reporting the violation.
pub fn shrink_chain(c: &Chain, still: &mut dyn FnMut(&Chain) -> bool) -> Chain {
  let mut cur = c.clone();
  let mut progress = true;
  let mut rounds = 0;
  while progress && rounds < 20 {
    progress = false;
    rounds += 1;
    // a plain hot input instead of whatever the source is
    if !matches!(cur.src, Src::Hot(_)) {
      for k in 0..3 {
        let mut cand = cur.clone();
        cand.src = Src::Hot(k);
        if still(&cand) {
          cur = cand;
          progress = true;
          break;
        }
      }
    }
    // drop one top-level operator
    let mut i = 0;
    while i < cur.ops.len() {
      let mut cand = cur.clone();
      cand.ops.remove(i);
      if still(&cand) {
        cur = cand;
        progress = true;
      } else {
        i += 1;
      }
    }
    // shrink sub-chains
    for i in 0..cur.ops.len() {
      let subs: Vec<Chain> = cur.ops[i].sub_chains().into_iter().cloned().collect();
      for (j, sc) in subs.iter().enumerate() {
        let mut k = 0;
        let mut scur = sc.clone();
        while k < scur.ops.len() {
          let mut scand = scur.clone();
          scand.ops.remove(k);
          let mut cand = cur.clone();
          replace_sub(&mut cand.ops[i], j, scand.clone());
          if still(&cand) {
            scur = scand;
            cur = cand;
            progress = true;
          } else {
            k += 1;
          }
        }
      }
    }
  }
  cur
}

pub fn replace_sub(op: &mut Op, j: usize, new: Chain) {
  match op {
    Op::Merge(c)
    | Op::Zip(c)
    | Op::CombineLatest(c)
    | Op::WithLatestFrom(c)
    | Op::TakeUntil(c)
    | Op::SkipUntil(c)
    | Op::Sample(c)
    | Op::Buffer(c) => **c = new,
    Op::MergeAll(_, cs) | Op::ConcatAll(cs) | Op::FlatMap(cs) | Op::ConcatMap(cs) | Op::Flatten(cs) => {
      cs[j] = new
    }
    _ => {}
  }
}

/// shorten a script while the violation persists
pub fn shrink_script(s: &[N], still: &mut dyn FnMut(&[N]) -> bool) -> Vec<N> {
  let mut cur = s.to_vec();
  let mut i = 0;
  while i < cur.len() {
    let mut cand = cur.clone();
    cand.remove(i);
    if still(&cand) {
      cur = cand;
    } else {
      i += 1;
    }
  }
  cur
}

pub fn locus_of(c: &Chain) -> String {
  let names: Vec<&str> = c
    .api_names()
    .into_iter()
    .filter(|n| !matches!(*n, "subject" | "create" | "from_iter" | "box_it"))
    .collect();
  if names.is_empty() {
    c.src.name().to_string()
  } else {
    names.join("+")
  }
}

// ---------------------------------------------------------------------------
// General random pipelines over the whole catalogue (C01, C02, C17, C18)
// ---------------------------------------------------------------------------
use crate::vtime::MS;
use crate::world::{Act, TAct};

#[derive(Clone, Debug)]
pub struct GenCfg {
  pub max_depth: usize,
  pub max_events: usize,
  pub sched_ops: bool,
  pub flat_ops: bool,
  pub two_input_ops: bool,
  pub timed_sources: bool,
  /// percentage of pipelines that get an early-terminating operator appended
  pub early_pct: usize,
  /// percentage of positions that get a scheduler-using operator
  pub sched_pct: usize,
  pub spies: bool,
  pub share: bool,
}

impl GenCfg {
  pub fn full(depth: usize, events: usize) -> Self {
    GenCfg {
      max_depth: depth,
      max_events: events,
      sched_ops: true,
      flat_ops: true,
      two_input_ops: true,
      timed_sources: true,
      early_pct: 50,
      sched_pct: 20,
      spies: true,
      share: true,
    }
  }
}

#[derive(Clone, Debug, PartialEq, Eq, Hash)]
pub struct Pipe {
  pub chain: Chain,
  pub n_hot: usize,
  pub acts: Vec<TAct>,
  pub horizon: u64,
}

struct PG<'a> {
  rng: &'a mut Rng,
  cfg: &'a GenCfg,
  n_hot: usize,
  next_spy: u32,
  next_id: u32,
  uses_create: Vec<usize>,
  endless: bool,
}

impl<'a> PG<'a> {
  fn spy(&mut self) -> Op {
    self.next_spy += 1;
    Op::Spy(self.next_spy)
  }
  fn id(&mut self) -> u32 {
    self.next_id += 1;
    self.next_id
  }
  fn scripted(&mut self, allow_err: bool) -> Scripted {
    let n = self.rng.below(4);
    let mut items: Vec<(u8, Result<V, E>)> =
      (0..n).map(|i| (self.rng.below(3) as u8, Ok(V::I(i as i64)))).collect();
    if allow_err && self.rng.chance(1, 3) {
      let pos = self.rng.below(items.len() + 1);
      items.insert(pos, (self.rng.below(2) as u8, Err(ERR + 2)));
    }
    Scripted { items, end_pending: self.rng.below(3) as u8, endless: false, self_wake: self.rng.chance(2, 3) }
  }
  fn source(&mut self, depth_left: usize, allow_hot: bool) -> Src {
    let timed = self.cfg.timed_sources && self.cfg.sched_ops;
    loop {
      let r = self.rng.below(if timed { 24 } else { 14 });
      return match r {
        0..=5 if allow_hot => Src::Hot(self.rng.below(self.n_hot)),
        6 if allow_hot => {
          let k = self.uses_create.len();
          if k >= 2 {
            continue;
          }
          self.uses_create.push(k);
          Src::Create(k)
        }
        7 => Src::Iter((0..self.rng.below(4)).map(|i| V::I(i as i64)).collect()),
        8 => Src::Of(V::I(self.rng.range(0, 2))),
        9 => Src::CreateSync(random_script(self.rng, 3, 3, true)),
        10 => match self.rng.below(6) {
          0 => Src::OfOpt(None),
          1 => Src::OfRes(Err(ERR + 1)),
          2 => Src::OfFn(V::I(1)),
          3 => Src::Repeat(V::I(2), self.rng.below(3)),
          4 => Src::Start(V::I(0)),
          _ => Src::OfRes(Ok(V::I(1))),
        },
        11 => match self.rng.below(3) {
          0 => Src::Empty,
          1 => Src::Never,
          _ => Src::Throw(ERR + 1),
        },
        12 if depth_left > 0 => {
          let inner = self.chain(depth_left - 1, allow_hot);
          Src::Defer(Box::new(inner))
        }
        14 | 15 => {
          self.endless = true;
          Src::Interval([1, 3, 5, 7][self.rng.below(4)])
        }
        16 => {
          self.endless = true;
          Src::IntervalAt(*self.rng.pick(&[-5i64, 0]), [2, 5][self.rng.below(2)])
        }
        17 | 18 => Src::Timer(V::I(self.rng.range(0, 2)), [0, 1, 4, 10][self.rng.below(4)]),
        19 => Src::TimerAt(V::I(1), *self.rng.pick(&[-5i64, 0])),
        20 => Src::Future(self.id() + 300, self.scripted(false)),
        21 => Src::FutureRes(self.id() + 300, self.scripted(true)),
        22 => Src::Stream(self.id() + 300, self.scripted(false)),
        23 => Src::StreamRes(self.id() + 300, self.scripted(true)),
        _ => continue,
      };
    }
  }
  fn sched_op(&mut self) -> Op {
    let d = [0u64, 1, 2, 5, 10][self.rng.below(5)];
    let e = [Edge::Leading, Edge::Trailing, Edge::All][self.rng.below(3)];
    match self.rng.below(12) {
      0 | 1 => Op::Delay(d),
      2 => Op::DelaySubscription(d),
      3 | 4 => Op::ObserveOn,
      5 => Op::SubscribeOn,
      6 => Op::Debounce(d.max(1)),
      7 => Op::ThrottleTime(d.max(1), e),
      8 => Op::Throttle(d.max(1), e),
      9 => Op::BufferWithTime(d.max(1)),
      10 => Op::BufferWithCountAndTime(1 + self.rng.below(3), d.max(1)),
      _ => Op::Delay(d),
    }
  }
  fn early_op(&mut self) -> Op {
    match self.rng.below(9) {
      0 | 1 => Op::Take(1 + self.rng.below(3)),
      2 => Op::TakeWhile(random_pred(self.rng)),
      3 => Op::TakeWhileIncl(random_pred(self.rng)),
      4 => Op::First,
      5 => Op::ElementAt(self.rng.below(3)),
      6 => Op::Contains(V::I(self.rng.range(0, 2))),
      7 => Op::All(random_pred(self.rng)),
      _ => {
        let c = self.sub_chain(0);
        Op::TakeUntil(Box::new(c))
      }
    }
  }
  fn sub_chain(&mut self, depth_left: usize) -> Chain {
    let mut c = Chain::new(self.source(depth_left, true), vec![]);
    for _ in 0..self.rng.below(2) {
      c.ops.push(random_single_op(self.rng, 2));
    }
    if self.endless_src(&c.src) && self.rng.chance(2, 3) {
      c.ops.push(Op::Take(1 + self.rng.below(3)));
    }
    if self.cfg.spies && self.rng.chance(1, 3) {
      c.ops.push(self.spy());
    }
    c
  }
  fn endless_src(&self, s: &Src) -> bool {
    matches!(s, Src::Interval(_) | Src::IntervalUs(_) | Src::IntervalAt(..) | Src::IntervalAtUs(..))
  }
  fn inner_table(&mut self, depth_left: usize) -> Vec<Chain> {
    let n = 1 + self.rng.below(3);
    (0..n)
      .map(|_| {
        let mut c = self.sub_chain(depth_left);
        if self.endless_src(&c.src) && !c.ops.iter().any(|o| matches!(o, Op::Take(_))) {
          c.ops.push(Op::Take(2));
        }
        c
      })
      .collect()
  }
  fn op(&mut self, depth_left: usize) -> Op {
    let r = self.rng.below(100);
    if self.cfg.sched_ops && r < self.cfg.sched_pct {
      return self.sched_op();
    }
    let r = self.rng.below(100);
    if self.cfg.two_input_ops && r < 18 {
      let c = Box::new(self.sub_chain(depth_left.saturating_sub(1)));
      return match self.rng.below(8) {
        0 => Op::Merge(c),
        1 => Op::Zip(c),
        2 => Op::CombineLatest(c),
        3 => Op::WithLatestFrom(c),
        4 => Op::TakeUntil(c),
        5 => Op::SkipUntil(c),
        6 => Op::Sample(c),
        _ => Op::Buffer(c),
      };
    }
    if self.cfg.flat_ops && r < 30 {
      let t = self.inner_table(depth_left.saturating_sub(1));
      return match self.rng.below(7) {
        0 => Op::MergeAll(1 + self.rng.below(3), t),
        1 => Op::ConcatAll(t),
        2 => Op::FlatMap(t),
        3 => Op::ConcatMap(t),
        4 => Op::Flatten(t),
        5 => Op::MergeAll(usize::MAX, t),
        _ => Op::GroupByFlat(KeyF::Mod(2)),
      };
    }
    if r < 34 {
      return Op::Finalize(self.id() + 600);
    }
    if self.cfg.share && r < 37 {
      return Op::Share;
    }
    if r < 47 {
      return self.early_op();
    }
    random_single_op(self.rng, 3)
  }
  fn chain(&mut self, depth: usize, allow_hot: bool) -> Chain {
    let mut c = Chain::new(self.source(depth, allow_hot), vec![]);
    let n = self.rng.below(depth + 1);
    for _ in 0..n {
      let op = self.op(depth.saturating_sub(1));
      let wrap = self.cfg.spies
        && (op.early_terminating() || !op.sub_chains().is_empty())
        && self.rng.chance(1, 2);
      if wrap {
        let s = self.spy();
        c.ops.push(s);
      }
      c.ops.push(op);
      if wrap && self.rng.chance(1, 2) {
        let s = self.spy();
        c.ops.push(s);
      }
    }
    c
  }
}

fn renumber_taps(c: &mut Chain, next: &mut u32) {
  if let Src::Defer(inner) = &mut c.src {
    renumber_taps(inner, next)
  }
  for op in c.ops.iter_mut() {
    match op {
      Op::Tap(id) => {
        *next += 1;
        *id = 50 + *next;
      }
      Op::Merge(s)
      | Op::Zip(s)
      | Op::CombineLatest(s)
      | Op::WithLatestFrom(s)
      | Op::TakeUntil(s)
      | Op::SkipUntil(s)
      | Op::Sample(s)
      | Op::Buffer(s) => renumber_taps(s, next),
      Op::MergeAll(_, cs) | Op::ConcatAll(cs) | Op::FlatMap(cs) | Op::ConcatMap(cs) | Op::Flatten(cs) => {
        cs.iter_mut().for_each(|s| renumber_taps(s, next))
      }
      _ => {}
    }
  }
}

fn collect_script_ids(c: &Chain, out: &mut Vec<u32>) {
  match &c.src {
    Src::Future(id, s) | Src::FutureRes(id, s) | Src::Stream(id, s) | Src::StreamRes(id, s) => {
      if !s.self_wake {
        out.push(*id)
      }
    }
    Src::Defer(i) => collect_script_ids(i, out),
    _ => {}
  }
  for op in &c.ops {
    for s in op.sub_chains() {
      collect_script_ids(s, out)
    }
  }
}

pub fn random_pipe(rng: &mut Rng, cfg: &GenCfg) -> Pipe {
  let n_hot = 1 + rng.below(3);
  let mut g = PG { rng, cfg, n_hot, next_spy: 10, next_id: 0, uses_create: vec![], endless: false };
  let depth = 1 + g.rng.below(cfg.max_depth);
  let mut chain = g.chain(depth, true);
  if g.rng.below(100) < cfg.early_pct {
    if cfg.spies && g.rng.chance(1, 2) {
      let s = g.spy();
      chain.ops.push(s);
    }
    let e = g.early_op();
    // somewhere in the lower half of the chain, so hot inputs outlive it
    let pos = chain.ops.len() - g.rng.below(chain.ops.len() / 2 + 1);
    chain.ops.insert(pos, e);
  }
  let mut nt = 0;
  renumber_taps(&mut chain, &mut nt);
  let n_create = g.uses_create.len();
  // timed scripts for every hot input and stashed create handle
  let mut acts: Vec<TAct> = vec![];
  let gaps = [0u64, 0, 1, 1, 2, 3, 5, 10];
  for k in 0..n_hot + n_create {
    let s = random_script(g.rng, cfg.max_events, 3, true);
    let mut t = 0u64;
    for (i, n) in s.into_iter().enumerate() {
      t += gaps[g.rng.below(gaps.len())] * MS;
      // unique-ish ids for hot items: input*100 + index keeps small values for predicates out;
      // keep the small alphabet so predicates / distinct still discriminate
      let _ = i;
      let act = if k < n_hot { Act::In(k, n) } else { Act::Cr(k - n_hot, n) };
      acts.push(TAct { t, act });
    }
  }
  let mut wake_ids = vec![];
  collect_script_ids(&chain, &mut wake_ids);
  for id in wake_ids {
    let mut t = 0;
    for _ in 0..8 {
      t += gaps[g.rng.below(gaps.len())] * MS + MS;
      acts.push(TAct { t, act: Act::Wake(id) });
    }
  }
  acts.sort_by_key(|a| a.t);
  let last = acts.last().map_or(0, |a| a.t);
  Pipe { chain, n_hot, acts, horizon: last + 60 * MS }
}
