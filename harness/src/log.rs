//! Monitor state: logical clock, event log, recording probe, spy operator,
//! tracked subscription. The log mutex is never held across a library call.
use crate::value::*;
use rxrust::prelude::*;
use std::cell::RefCell;
use std::collections::HashMap;
use std::rc::Rc;
use std::sync::atomic::{AtomicBool, AtomicU32, AtomicU64, Ordering};
use std::sync::{Arc, Mutex};

static CLOCK: AtomicU64 = AtomicU64::new(1);
pub fn stamp() -> u64 {
  CLOCK.fetch_add(1, Ordering::SeqCst)
}

thread_local! {
  static THREAD_ID: std::cell::Cell<u32> = const { std::cell::Cell::new(0) };
  static LOCAL_CBS: RefCell<HashMap<u32, Rc<dyn Fn(&N)>>> = RefCell::new(HashMap::new());
}
pub fn set_thread_id(id: u32) {
  THREAD_ID.with(|t| t.set(id))
}
pub fn thread_id() -> u32 {
  THREAD_ID.with(|t| t.get())
}
pub fn set_local_cb(probe: u32, f: Rc<dyn Fn(&N)>) {
  LOCAL_CBS.with(|m| m.borrow_mut().insert(probe, f));
}
pub fn clear_local_cbs() {
  LOCAL_CBS.with(|m| m.borrow_mut().clear());
}
pub fn fire_local_pub(probe: u32, n: &N) {
  fire_local(probe, n)
}
fn fire_local(probe: u32, n: &N) {
  let f = LOCAL_CBS.with(|m| m.borrow().get(&probe).cloned());
  if let Some(f) = f {
    f(n)
  }
}

/// when set, every probe callback contains a scheduling point (threads engine)
pub static YIELD_IN_PROBE: AtomicBool = AtomicBool::new(false);

#[derive(Clone, Debug, PartialEq)]
pub enum K {
  N(N),
  Subscribed,
  UnsubCall,
  UnsubRet,
  Mark(&'static str, i64),
}

#[derive(Clone, Debug)]
pub struct Ev {
  pub seq: u64,
  pub id: u32,
  pub k: K,
  pub vt: u64,
  pub thread: u32,
}

#[derive(Default)]
pub struct LogInner {
  pub evs: Vec<Ev>,
  /// subscriptions seen so far per spy id (each gets its own observer id)
  pub spy_instances: HashMap<u32, u32>,
  /// (probe, thread inside, thread entering)
  pub overlaps: Vec<(u32, u32, u32)>,
}

#[derive(Clone, Default)]
pub struct Log(pub Arc<Mutex<LogInner>>);

impl Log {
  pub fn new() -> Self {
    Self::default()
  }
  pub fn push(&self, id: u32, k: K) -> u64 {
    let seq = stamp();
    let ev = Ev { seq, id, k, vt: crate::vtime::now(), thread: thread_id() };
    self.0.lock().unwrap_or_else(|e| e.into_inner()).evs.push(ev);
    seq
  }
  /// observer id of the next subscription through spy `id`: id*1000 + n
  pub fn spy_instance(&self, id: u32) -> u32 {
    let mut g = self.0.lock().unwrap_or_else(|e| e.into_inner());
    let n = g.spy_instances.entry(id).or_insert(0);
    *n += 1;
    id * 1000 + (*n - 1)
  }
  pub fn mark(&self, id: u32, what: &'static str, v: i64) -> u64 {
    self.push(id, K::Mark(what, v))
  }
  pub fn evs(&self) -> Vec<Ev> {
    self.0.lock().unwrap_or_else(|e| e.into_inner()).evs.clone()
  }
  /// drop the recorded events (scenario objects that keep a handle to this log may be leaked on purpose)
  pub fn clear(&self) {
    let mut g = self.0.lock().unwrap_or_else(|e| e.into_inner());
    g.evs = Vec::new();
    g.overlaps = Vec::new();
  }
  pub fn len(&self) -> usize {
    self.0.lock().unwrap_or_else(|e| e.into_inner()).evs.len()
  }
  pub fn overlaps(&self) -> Vec<(u32, u32, u32)> {
    self.0.lock().unwrap_or_else(|e| e.into_inner()).overlaps.clone()
  }
  /// notifications delivered to one probe / spy
  pub fn notes(&self, id: u32) -> Vec<N> {
    self
      .0
      .lock()
      .unwrap_or_else(|e| e.into_inner())
      .evs
      .iter()
      .filter(|e| e.id == id)
      .filter_map(|e| if let K::N(n) = &e.k { Some(n.clone()) } else { None })
      .collect()
  }
  /// notifications with virtual time stamps
  pub fn timed(&self, id: u32) -> Vec<(u64, N)> {
    self
      .0
      .lock()
      .unwrap_or_else(|e| e.into_inner())
      .evs
      .iter()
      .filter(|e| e.id == id)
      .filter_map(|e| if let K::N(n) = &e.k { Some((e.vt, n.clone())) } else { None })
      .collect()
  }
  pub fn marks(&self, id: u32, what: &str) -> Vec<(u64, i64)> {
    self
      .0
      .lock()
      .unwrap_or_else(|e| e.into_inner())
      .evs
      .iter()
      .filter(|e| e.id == id)
      .filter_map(|e| match &e.k {
        K::Mark(w, v) if *w == what => Some((e.seq, *v)),
        _ => None,
      })
      .collect()
  }
  pub fn count_notes(&self) -> usize {
    self
      .0
      .lock()
      .unwrap_or_else(|e| e.into_inner())
      .evs
      .iter()
      .filter(|e| matches!(e.k, K::N(_)))
      .count()
  }
  pub fn ids(&self) -> Vec<u32> {
    let mut v: Vec<u32> = self
      .0
      .lock()
      .unwrap_or_else(|e| e.into_inner())
      .evs
      .iter()
      .map(|e| e.id)
      .collect();
    v.sort();
    v.dedup();
    v
  }
}

/// C01 grammar monitor over one id's notification list: `next* (error|complete)?`
pub fn grammar_violation(ns: &[N]) -> Option<String> {
  let mut term: Option<usize> = None;
  for (i, n) in ns.iter().enumerate() {
    if let Some(t) = term {
      return Some(format!(
        "notification #{} {:?} delivered after terminal #{} {:?}",
        i, n, t, ns[t]
      ));
    }
    if n.is_terminal() {
      term = Some(i);
    }
  }
  None
}

/// The recording observer at the end of a pipeline.
pub struct Probe {
  pub id: u32,
  pub log: Log,
  inside: Arc<AtomicU32>,
}

impl Probe {
  pub fn new(id: u32, log: &Log) -> Self {
    Probe { id, log: log.clone(), inside: Arc::new(AtomicU32::new(0)) }
  }
  fn enter(&self) {
    let me = thread_id() + 1;
    if let Err(other) =
      self.inside.compare_exchange(0, me, Ordering::SeqCst, Ordering::SeqCst)
    {
      if other != me {
        self
          .log
          .0
          .lock()
          .unwrap_or_else(|e| e.into_inner())
          .overlaps
          .push((self.id, other - 1, me - 1));
      }
    }
  }
  fn leave(&self) {
    let me = thread_id() + 1;
    let _ = self.inside.compare_exchange(me, 0, Ordering::SeqCst, Ordering::SeqCst);
  }
  fn deliver(&self, n: N) {
    self.enter();
    self.log.push(self.id, K::N(n.clone()));
    if YIELD_IN_PROBE.load(Ordering::Relaxed) {
      crate::conc::yield_now();
    }
    fire_local(self.id, &n);
    self.leave();
  }
}

impl Observer<V, E> for Probe {
  fn next(&mut self, value: V) {
    self.deliver(N::Next(value))
  }
  fn error(self, err: E) {
    self.deliver(N::Err(err))
  }
  fn complete(self) {
    self.deliver(N::Complete)
  }
  fn is_finished(&self) -> bool {
    false
  }
}

/// A semantically transparent operator that records what its upstream part
/// delivers, and wraps the returned subscription in a `TrackedSub`.
#[derive(Clone)]
pub struct Spy<S> {
  pub src: S,
  pub id: u32,
  pub log: Log,
}

pub struct SpyObserver<O> {
  o: O,
  id: u32,
  log: Log,
}

impl<O: Observer<V, E>> Observer<V, E> for SpyObserver<O> {
  fn next(&mut self, value: V) {
    self.log.push(self.id, K::N(N::Next(value.clone())));
    self.o.next(value)
  }
  fn error(self, err: E) {
    self.log.push(self.id, K::N(N::Err(err)));
    self.o.error(err)
  }
  fn complete(self) {
    self.log.push(self.id, K::N(N::Complete));
    self.o.complete()
  }
  fn is_finished(&self) -> bool {
    self.o.is_finished()
  }
}

impl<S, O> Observable<V, E, O> for Spy<S>
where
  O: Observer<V, E>,
  S: Observable<V, E, SpyObserver<O>>,
{
  type Unsub = TrackedSub<S::Unsub>;
  fn actual_subscribe(self, observer: O) -> Self::Unsub {
    let Spy { src, id, log } = self;
    // every subscription is its own observer (an inner chain of a flattening
    // operator is subscribed once per outer item)
    let id = log.spy_instance(id);
    log.push(id, K::Subscribed);
    let u = src.actual_subscribe(SpyObserver { o: observer, id, log: log.clone() });
    log.mark(id, "sub_done", 0);
    TrackedSub { u, id, log }
  }
}
impl<S> ObservableExt<V, E> for Spy<S> {}

/// A transparent stage that swallows unsubscription: the upstream subscription is forgotten and
/// a unit subscription is handed out, so the upstream keeps pushing after unsubscribe() (a
/// source that cannot be cancelled).
#[derive(Clone)]
pub struct Deaf<S> {
  pub src: S,
}
impl<S, O> Observable<V, E, O> for Deaf<S>
where
  O: Observer<V, E>,
  S: Observable<V, E, O>,
{
  type Unsub = ();
  fn actual_subscribe(self, observer: O) -> Self::Unsub {
    std::mem::forget(self.src.actual_subscribe(observer));
  }
}
impl<S> ObservableExt<V, E> for Deaf<S> {}

pub struct TrackedSub<U> {
  pub u: U,
  pub id: u32,
  pub log: Log,
}

impl<U: Subscription> Subscription for TrackedSub<U> {
  fn unsubscribe(self) {
    self.log.push(self.id, K::UnsubCall);
    self.u.unsubscribe();
    self.log.push(self.id, K::UnsubRet);
  }
  fn is_closed(&self) -> bool {
    self.u.is_closed()
  }
}

/// panic monitor: run `f`, return the panic message if it panicked
pub fn catch<R>(f: impl FnOnce() -> R) -> Result<R, String> {
  match std::panic::catch_unwind(std::panic::AssertUnwindSafe(f)) {
    Ok(r) => Ok(r),
    Err(p) => {
      let msg = if let Some(s) = p.downcast_ref::<&str>() {
        s.to_string()
      } else if let Some(s) = p.downcast_ref::<String>() {
        s.clone()
      } else {
        "non-string panic".to_string()
      };
      let loc = LAST_PANIC_LOC.lock().unwrap_or_else(|e| e.into_inner()).clone();
      Err(format!("{} @ {}", msg, loc))
    }
  }
}

pub static LAST_PANIC_LOC: Mutex<String> = Mutex::new(String::new());
pub static QUIET_PANICS: AtomicBool = AtomicBool::new(true);

pub fn install_panic_hook() {
  std::panic::set_hook(Box::new(|info| {
    let loc = info
      .location()
      .map(|l| {
        let f = l.file();
        let f = f.rsplit("/src/").next().unwrap_or(f);
        format!("{}:{}", f, l.line())
      })
      .unwrap_or_default();
    *LAST_PANIC_LOC.lock().unwrap_or_else(|e| e.into_inner()) = loc.clone();
    if !QUIET_PANICS.load(Ordering::Relaxed) {
      eprintln!("panic: {} at {}", info, loc);
    }
  }));
}
