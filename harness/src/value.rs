//! The dynamic item type that flows through every generated pipeline.
use serde_json::{json, Value as J};
use std::ops::Add;

pub type E = i32;

#[derive(Clone, Debug, PartialEq, Eq, PartialOrd, Ord, Default)]
pub enum V {
  #[default]
  U,
  I(i64),
  B(bool),
  P(Box<V>, Box<V>),
  L(Vec<V>),
}

/// `Hash` is deliberately coarser than `Eq` (legal: equal values hash equally): a pair hashes
/// only its first component, a list only its length and first element. Library code that
/// compares hashes where it should compare values is thereby observable.
impl std::hash::Hash for V {
  fn hash<H: std::hash::Hasher>(&self, h: &mut H) {
    match self {
      V::U => 0u8.hash(h),
      V::I(i) => {
        1u8.hash(h);
        i.hash(h)
      }
      V::B(b) => {
        2u8.hash(h);
        b.hash(h)
      }
      V::P(a, _) => {
        3u8.hash(h);
        a.hash(h)
      }
      V::L(l) => {
        4u8.hash(h);
        l.len().hash(h);
        if let Some(x) = l.first() {
          x.hash(h)
        }
      }
    }
  }
}

impl V {
  pub fn p(a: V, b: V) -> V {
    V::P(Box::new(a), Box::new(b))
  }
  pub fn int(&self) -> i64 {
    match self {
      V::I(i) => *i,
      V::B(b) => *b as i64,
      V::U => 0,
      V::P(a, b) => a.int().wrapping_mul(31).wrapping_add(b.int()),
      V::L(l) => l
        .iter()
        .fold(7i64, |acc, v| acc.wrapping_mul(31).wrapping_add(v.int())),
    }
  }
  /// all `I` leaves in left-to-right order (unique ids survive pairing/buffering)
  pub fn leaves(&self, out: &mut Vec<i64>) {
    match self {
      V::I(i) => out.push(*i),
      V::P(a, b) => {
        a.leaves(out);
        b.leaves(out)
      }
      V::L(l) => l.iter().for_each(|v| v.leaves(out)),
      _ => {}
    }
  }
  pub fn j(&self) -> J {
    match self {
      V::U => json!("()"),
      V::I(i) => json!(i),
      V::B(b) => json!(b),
      V::P(a, b) => json!({"pair": [a.j(), b.j()]}),
      V::L(l) => J::Array(l.iter().map(|v| v.j()).collect()),
    }
  }
}

impl Add for V {
  type Output = V;
  fn add(self, o: V) -> V {
    V::I(self.int().wrapping_add(o.int()))
  }
}

/// A notification, as delivered to an observer or injected into a hot input.
#[derive(Clone, Debug, PartialEq, Eq, Hash, PartialOrd, Ord)]
pub enum N {
  Next(V),
  Err(E),
  Complete,
}

impl N {
  pub fn is_terminal(&self) -> bool {
    !matches!(self, N::Next(_))
  }
  pub fn j(&self) -> J {
    match self {
      N::Next(v) => json!({"n": v.j()}),
      N::Err(e) => json!({"e": e}),
      N::Complete => json!("c"),
    }
  }
}

pub fn jn(ns: &[N]) -> J {
  J::Array(ns.iter().map(|n| n.j()).collect())
}

/// xorshift64* — the only PRNG in the harness; every choice derives from it.
#[derive(Clone)]
pub struct Rng(pub u64);

impl Rng {
  pub fn new(seed: u64) -> Self {
    let mut r = Rng(seed.wrapping_mul(0x9E3779B97F4A7C15) ^ 0xD1B54A32D192ED03);
    if r.0 == 0 {
      r.0 = 0x1234567;
    }
    r.next();
    r.next();
    r
  }
  pub fn next(&mut self) -> u64 {
    let mut x = self.0;
    x ^= x >> 12;
    x ^= x << 25;
    x ^= x >> 27;
    self.0 = x;
    x.wrapping_mul(0x2545F4914F6CDD1D)
  }
  pub fn below(&mut self, n: usize) -> usize {
    if n == 0 {
      0
    } else {
      (self.next() % n as u64) as usize
    }
  }
  pub fn range(&mut self, lo: i64, hi: i64) -> i64 {
    lo + self.below((hi - lo + 1) as usize) as i64
  }
  pub fn chance(&mut self, num: usize, den: usize) -> bool {
    self.below(den) < num
  }
  pub fn pick<'a, T>(&mut self, xs: &'a [T]) -> &'a T {
    &xs[self.below(xs.len())]
  }
  pub fn fork(&mut self) -> Rng {
    Rng::new(self.next())
  }
}

pub fn hash64<T: std::hash::Hash>(t: &T) -> u64 {
  use std::hash::Hasher;
  // fixed-key hasher: identical across processes
  let mut h = std::collections::hash_map::DefaultHasher::new();
  t.hash(&mut h);
  h.finish()
}
