//! One single-threaded execution context: hot inputs, virtual clock, arena
//! executor, event log, live subscriptions — and the step explorer that
//! drives them. Every choice the explorer makes is drawn from the case PRNG
//! and appended to `choices` (the schedule).
use crate::ast::*;
use crate::build::{self, local, localpool, threads, StashL, StashT};
use crate::exec::Arena;
use crate::log::*;
use crate::value::*;
use crate::vtime;
use rxrust::prelude::*;
use std::time::Instant;

#[derive(Clone, Copy, Debug, PartialEq, Eq, Hash)]
pub enum Flavor {
  Local,
  Threads,
  /// local operators on the real `futures::executor::LocalPool` (the library's own LocalSpawner scheduler impl)
  LocalPool,
}

#[derive(Clone, Copy, Debug, PartialEq, Eq, Hash)]
pub enum Policy {
  Fifo,
  Any,
}

pub enum Sub {
  L(BoxSubscription<'static>),
  T(BoxSubscriptionThreads),
  LGuard(SubscriptionGuard<BoxSubscription<'static>>),
  TGuard(SubscriptionGuard<BoxSubscriptionThreads>),
  Gone,
}

pub struct World {
  pub flavor: Flavor,
  pub log: Log,
  pub arena: Arena,
  pub l: local::Ctx,
  pub t: threads::Ctx,
  pub lp: localpool::Ctx,
  pub pool: futures::executor::LocalPool,
  pub pool_maybe_ready: bool,
  pub subs: Vec<Sub>,
  pub choices: Vec<u32>,
  pub max_ready: usize,
  pub steps: usize,
  pub started: Instant,
  pub timer_ties_fifo: bool,
}

#[derive(Clone, Debug, PartialEq, Eq, Hash)]
pub enum Act {
  /// notification into hot input k
  In(usize, N),
  /// notification through the stashed `create` subscriber k
  Cr(usize, N),
  /// wake the externally-woken scripted future/stream with this id
  Wake(u32),
  /// hot input k goes away without a terminal (the subject is unsubscribed and drops its
  /// observers) after the program has let its subscription handles go out of scope
  Gone(usize),
}

#[derive(Clone, Debug, PartialEq, Eq, Hash)]
pub struct TAct {
  pub t: u64,
  pub act: Act,
}

impl World {
  pub fn new(flavor: Flavor, n_hot: usize) -> World {
    vtime::reset();
    crate::scripts::reset();
    clear_local_cbs();
    let log = Log::new();
    let arena = Arena::new();
    let base = Instant::now();
    let l = local::Ctx {
      hot: (0..n_hot).map(|_| Subject::default()).collect(),
      stash: StashL::default(),
      sched: arena.scheduler(),
      log: log.clone(),
      base,
    };
    let t = threads::Ctx {
      hot: (0..n_hot).map(|_| SubjectThreads::default()).collect(),
      stash: StashT::default(),
      sched: arena.scheduler_threads(),
      log: log.clone(),
      base,
    };
    let pool = futures::executor::LocalPool::new();
    let lp = localpool::Ctx { hot: l.hot.clone(), stash: l.stash.clone(), sched: pool.spawner(), log: log.clone(), base };
    World {
      flavor,
      log,
      arena,
      l,
      t,
      lp,
      pool,
      pool_maybe_ready: true,
      subs: vec![],
      choices: vec![],
      max_ready: 0,
      steps: 0,
      started: base,
      timer_ties_fifo: false,
    }
  }

  /// build the chain with the real library and subscribe a recording probe
  pub fn subscribe(&mut self, chain: &Chain, probe: u32) -> usize {
    let p = Probe::new(probe, &self.log);
    let s = match self.flavor {
      Flavor::Local => {
        let o = local::build(chain, &self.l);
        Sub::L(BoxSubscription::new(o.actual_subscribe(p)))
      }
      Flavor::Threads => {
        let o = threads::build(chain, &self.t);
        Sub::T(BoxSubscriptionThreads::new(o.actual_subscribe(p)))
      }
      Flavor::LocalPool => {
        let o = localpool::build(chain, &self.lp);
        self.pool_maybe_ready = true;
        Sub::L(BoxSubscription::new(o.actual_subscribe(p)))
      }
    };
    self.subs.push(s);
    self.subs.len() - 1
  }

  pub fn inject(&mut self, k: usize, n: N) {
    self.pool_maybe_ready = true;
    match self.flavor {
      Flavor::Local | Flavor::LocalPool => {
        let mut s = self.l.hot[k].clone();
        match n {
          N::Next(v) => s.next(v),
          N::Err(e) => s.error(e),
          N::Complete => s.complete(),
        }
      }
      Flavor::Threads => {
        let mut s = self.t.hot[k].clone();
        match n {
          N::Next(v) => s.next(v),
          N::Err(e) => s.error(e),
          N::Complete => s.complete(),
        }
      }
    }
  }

  pub fn inject_create(&mut self, k: usize, n: N) -> bool {
    self.pool_maybe_ready = true;
    match self.flavor {
      Flavor::Local | Flavor::LocalPool => {
        let s = self.l.stash.borrow().get(k).and_then(|s| s.clone());
        let Some(mut s) = s else { return false };
        match n {
          N::Next(v) => s.next(v),
          N::Err(e) => s.error(e),
          N::Complete => s.complete(),
        }
      }
      Flavor::Threads => {
        let s = self.t.stash.lock().unwrap().get(k).and_then(|s| s.clone());
        let Some(mut s) = s else { return false };
        match n {
          N::Next(v) => s.next(v),
          N::Err(e) => s.error(e),
          N::Complete => s.complete(),
        }
      }
    }
    true
  }

  pub fn act(&mut self, a: &Act) {
    self.pool_maybe_ready = true;
    match a {
      Act::In(k, n) => self.inject(*k, n.clone()),
      Act::Cr(k, n) => {
        self.inject_create(*k, n.clone());
      }
      Act::Wake(id) => {
        crate::scripts::wake(*id);
      }
      Act::Gone(k) => {
        // the program keeps nothing: its subscription handles go out of scope (dropping a
        // handle is not an unsubscribe), then the source drops its observers
        for s in self.subs.iter_mut() {
          drop(std::mem::replace(s, Sub::Gone));
        }
        match self.flavor {
          Flavor::Threads => self.t.hot[*k].clone().unsubscribe(),
          _ => self.l.hot[*k].clone().unsubscribe(),
        }
      }
    }
  }

  pub fn unsubscribe(&mut self, i: usize) -> bool {
    match std::mem::replace(&mut self.subs[i], Sub::Gone) {
      Sub::L(s) => s.unsubscribe(),
      Sub::T(s) => s.unsubscribe(),
      Sub::LGuard(g) => drop(g),
      Sub::TGuard(g) => drop(g),
      Sub::Gone => return false,
    }
    true
  }

  /// subscription i is a guard: its scope is left by a panic that is caught further up, i.e.
  /// the guard is dropped by the unwinder
  pub fn drop_guard_by_unwinding(&mut self, i: usize) -> bool {
    let s = std::mem::replace(&mut self.subs[i], Sub::Gone);
    match s {
      Sub::LGuard(g) => {
        let _ = std::panic::catch_unwind(std::panic::AssertUnwindSafe(move || {
          let _scope = g;
          panic!("harness: the guard's scope is left by a panic");
        }));
        true
      }
      Sub::TGuard(g) => {
        let _ = std::panic::catch_unwind(std::panic::AssertUnwindSafe(move || {
          let _scope = g;
          panic!("harness: the guard's scope is left by a panic");
        }));
        true
      }
      o => {
        self.subs[i] = o;
        self.unsubscribe(i)
      }
    }
  }

  /// turn subscription i into an `unsubscribe_when_dropped` guard
  pub fn guard(&mut self, i: usize) {
    let s = std::mem::replace(&mut self.subs[i], Sub::Gone);
    self.subs[i] = match s {
      Sub::L(s) => Sub::LGuard(s.unsubscribe_when_dropped()),
      Sub::T(s) => Sub::TGuard(s.unsubscribe_when_dropped()),
      o => o,
    };
  }

  pub fn is_closed(&self, i: usize) -> Option<bool> {
    match &self.subs[i] {
      Sub::L(s) => Some(s.is_closed()),
      Sub::T(s) => Some(s.is_closed()),
      _ => None,
    }
  }

  fn choose(&mut self, rng: &mut Rng, n: usize) -> usize {
    let c = if n <= 1 { 0 } else { rng.below(n) };
    if n > 1 {
      self.choices.push(c as u32);
    }
    c
  }

  /// run ready tasks until none is ready (policy decides which goes next)
  pub fn quiesce(&mut self, policy: Policy, rng: &mut Rng) -> usize {
    if self.flavor == Flavor::LocalPool {
      // the real executor: FIFO by construction
      self.pool.run_until_stalled();
      self.pool_maybe_ready = false;
      return 0;
    }
    let mut n = 0;
    loop {
      let r = self.arena.ready();
      if r.is_empty() || n > 100_000 {
        break;
      }
      self.max_ready = self.max_ready.max(r.len());
      let i = match policy {
        Policy::Fifo => 0,
        Policy::Any => self.choose(rng, r.len()),
      };
      self.arena.run(r[i]);
      n += 1;
    }
    n
  }

  /// fire the earliest due timer (ties: explorer's choice); false if none
  pub fn fire_next_timer(&mut self, rng: &mut Rng) -> bool {
    let p = vtime::pending();
    let Some(&(_, due)) = p.first() else { return false };
    let same: Vec<u64> = p.iter().filter(|(_, d)| *d == due).map(|(id, _)| *id).collect();
    // a FIFO scheduler model also wakes equal deadlines in creation order;
    // the any-order model may wake them in any order
    let i = if self.timer_ties_fifo { 0 } else { self.choose(rng, same.len()) };
    self.pool_maybe_ready = true;
    vtime::fire(same[i])
  }

  /// Prompt schedule: tasks run to quiescence after every action; the clock
  /// moves only to the next due timer or next scripted event. `on_step` is
  /// called before every action with the index of the step about to happen
  /// and may itself act on the world (cut, sample, subscribe).
  pub fn drive_prompt(
    &mut self,
    acts: &[TAct],
    policy: Policy,
    horizon: u64,
    rng: &mut Rng,
    on_step: &mut dyn FnMut(&mut World, usize, &mut Rng),
  ) {
    let mut i = 0;
    self.timer_ties_fifo = policy == Policy::Fifo;
    self.quiesce(policy, rng);
    loop {
      on_step(self, self.steps, rng);
      self.steps += 1;
      let ev_t = acts.get(i).map(|a| a.t);
      let tm_t = vtime::next_due().filter(|d| *d <= horizon);
      let take_event = match (ev_t, tm_t) {
        (None, None) => break,
        (Some(_), None) => true,
        (None, Some(_)) => false,
        (Some(e), Some(t)) => {
          if e < t {
            true
          } else if t < e {
            false
          } else {
            // same instant: the order is the explorer's choice
            self.choose(rng, 2) == 0
          }
        }
      };
      if take_event {
        vtime::set_now(acts[i].t);
        let a = acts[i].act.clone();
        self.log.mark(0, "act", i as i64);
        self.act(&a);
        i += 1;
      } else {
        self.fire_next_timer(rng);
      }
      self.quiesce(policy, rng);
      if self.steps > 20_000 {
        break;
      }
    }
    on_step(self, self.steps, rng);
  }

  /// Late schedule: after an action the ready tasks may be left waiting,
  /// the clock may jump over several due timers before anything runs.
  pub fn drive_late(
    &mut self,
    acts: &[TAct],
    policy: Policy,
    horizon: u64,
    rng: &mut Rng,
    on_step: &mut dyn FnMut(&mut World, usize, &mut Rng),
  ) {
    let mut i = 0;
    self.timer_ties_fifo = policy == Policy::Fifo;
    loop {
      on_step(self, self.steps, rng);
      self.steps += 1;
      let ready: Vec<usize> = if self.flavor == Flavor::LocalPool {
        if self.pool_maybe_ready { vec![0] } else { vec![] }
      } else {
        self.arena.ready()
      };
      self.max_ready = self.max_ready.max(ready.len());
      let ev = acts.get(i).is_some();
      let tm = vtime::next_due().filter(|d| *d <= horizon).is_some();
      if !ev && !tm && ready.is_empty() {
        break;
      }
      // weights: run a task 3, event 2, timer 2, jump 1
      let mut opts: Vec<u8> = vec![];
      if !ready.is_empty() {
        opts.extend([0, 0, 0]);
      }
      if ev {
        opts.extend([1, 1]);
      }
      if tm {
        opts.extend([2, 2, 3]);
      }
      let c = opts[self.choose(rng, opts.len())];
      match c {
        0 => {
          if self.flavor == Flavor::LocalPool {
            // one task of the real pool, in the pool's own order
            if !self.pool.try_run_one() {
              self.pool_maybe_ready = false;
            }
          } else {
            let k = match policy {
              Policy::Fifo => 0,
              Policy::Any => self.choose(rng, ready.len()),
            };
            self.arena.run(ready[k]);
          }
        }
        1 => {
          // events never travel back in time: if the clock already passed
          // the scripted instant the event simply happens now
          vtime::set_now(acts[i].t);
          let a = acts[i].act.clone();
          self.log.mark(0, "act", i as i64);
          self.act(&a);
          i += 1;
        }
        2 => {
          // a timer may only fire before a scripted event that precedes it
          // if that event has been injected; keep time monotone
          let due = vtime::next_due().unwrap();
          if let Some(a) = acts.get(i) {
            if a.t < due {
              vtime::set_now(a.t);
              let a = a.act.clone();
              self.log.mark(0, "act", i as i64);
              self.act(&a);
              i += 1;
              continue;
            }
          }
          self.fire_next_timer(rng);
        }
        _ => {
          let due = vtime::next_due().unwrap();
          if let Some(a) = acts.get(i) {
            if a.t < due {
              // the clock may not pass a scripted event that is still to come
              vtime::set_now(a.t);
              let a = a.act.clone();
              self.log.mark(0, "act", i as i64);
              self.act(&a);
              i += 1;
              continue;
            }
          }
          let span = [1u64, 5, 20, 120][self.choose(rng, 4)] * vtime::MS;
          let mut target = (due + span).min(horizon);
          if let Some(a) = acts.get(i) {
            target = target.min(a.t);
          }
          vtime::advance_to(target);
          self.pool_maybe_ready = true;
        }
      }
      if self.steps > 20_000 {
        break;
      }
    }
    on_step(self, self.steps, rng);
  }

  /// after scripts are exhausted: fire every remaining timer (up to the
  /// horizon) and run every task, so that anything still scheduled shows up
  pub fn drain(&mut self, policy: Policy, horizon: u64, rng: &mut Rng) {
    let mut guard = 0;
    loop {
      self.quiesce(policy, rng);
      // externally woken scripted futures/streams get their wake-ups
      let parked = crate::scripts::parked();
      if !parked.is_empty() && guard < 10_000 {
        for id in parked {
          crate::scripts::wake(id);
        }
        guard += 1;
        continue;
      }
      match vtime::next_due() {
        Some(d) if d <= horizon && guard < 10_000 => {
          self.fire_next_timer(rng);
          guard += 1;
        }
        _ => break,
      }
    }
  }

  pub fn choice_hash(&self) -> u64 {
    hash64(&self.choices)
  }

  /// drop everything a case left behind
  pub fn teardown(mut self) {
    // guards are forgotten, not dropped: tearing a case down is not an unsubscription
    for s in self.subs.drain(..) {
      match s {
        Sub::LGuard(g) => std::mem::forget(g),
        Sub::TGuard(g) => std::mem::forget(g),
        _ => {}
      }
    }
    self.arena.clear();
    clear_local_cbs();
    let _ = build::instant_at;
  }
}

impl Drop for World {
  fn drop(&mut self) {
    // while unwinding from a library panic (or a detected self-deadlock) the
    // library's cells may be poisoned / still locked: never run unsubscribe
    // logic from here, leak instead
    if std::thread::panicking() {
      for s in self.subs.drain(..) {
        std::mem::forget(s);
      }
    }
  }
}
