//! C18 — local and thread-safe variants are observationally equivalent.
use super::common::*;
use crate::ast::*;
use crate::gen::*;
use crate::log::K;
use crate::report::{Cfg, Report};
use crate::value::*;
use crate::world::*;
use serde_json::json;

fn dual(op: &Op) -> bool {
  matches!(
    op,
    Op::Merge(_)
      | Op::Zip(_)
      | Op::CombineLatest(_)
      | Op::WithLatestFrom(_)
      | Op::TakeUntil(_)
      | Op::SkipUntil(_)
      | Op::Sample(_)
      | Op::MergeAll(..)
      | Op::ConcatAll(_)
      | Op::FlatMap(_)
      | Op::ConcatMap(_)
      | Op::Flatten(_)
      | Op::GroupByFlat(_)
      | Op::Delay(_)
      | Op::ObserveOn
      | Op::Finalize(_)
      | Op::Share
  )
}

fn real_time(c: &Chain) -> bool {
  c.any_src(&|s| matches!(s, Src::IntervalAt(..) | Src::TimerAt(..))) || c.any_op(&|o| matches!(o, Op::DelayAt(_) | Op::DelaySubscriptionAt(_)))
}

/// what the final subscriber saw: (virtual time unless the pipe reads the real clock, notification)
fn trace(run: &RunOut, with_time: bool) -> Vec<(u64, N)> {
  run
    .evs
    .iter()
    .filter(|e| e.id == 1)
    .filter_map(|e| if let K::N(n) = &e.k { Some((if with_time { e.vt } else { 0 }, n.clone())) } else { None })
    .collect()
}

pub fn compare(pipe: &Pipe, late: bool, seed: u64) -> (Option<(String, serde_json::Value)>, usize, bool) {
  let a = run_pipe(Flavor::Local, pipe, Policy::Fifo, late, seed, &mut |_, _, _| {});
  let b = run_pipe(Flavor::Threads, pipe, Policy::Fifo, late, seed, &mut |_, _, _| {});
  let with_time = !real_time(&pipe.chain);
  match (&a, &b) {
    (Ok(ra), Ok(rb)) => {
      let (ta, tb) = (trace(ra, with_time), trace(rb, with_time));
      let n = ta.len() + tb.len();
      if ta != tb {
        let same_vals = ta.iter().map(|x| &x.1).eq(tb.iter().map(|x| &x.1));
        let kind = if same_vals { "variants_differ_in_timing" } else { "variants_differ" };
        let f = |t: &Vec<(u64, N)>| t.iter().map(|(t, n)| json!([t, n.j()])).collect::<Vec<_>>();
        (Some((kind.into(), json!({"local": f(&ta), "threads": f(&tb)}))), n, true)
      } else {
        (None, n, !ta.is_empty())
      }
    }
    (Err(pa), Err(pb)) => {
      // both forms panic in the same place: equivalent (the panic itself is C05/C10's business)
      let _ = (pa, pb);
      (None, 0, false)
    }
    (Err(p), Ok(_)) => (Some(("only_local_panics".into(), json!({"panic": p}))), 0, true),
    (Ok(_), Err(p)) => (Some(("only_threads_panics".into(), json!({"panic": p}))), 0, true),
  }
}

pub fn run(cfg: &Cfg, rep: &mut Report) {
  let total = cfg.n(250_000, 12_000_000);
  let mut gcfg = GenCfg::full(cfg.n(3, 5), cfg.n(8, 14));
  gcfg.sched_pct = 25;
  let mut rng = Rng::new(cfg.seed ^ 0xC18);
  for i in 0..total {
    let mut r = rng.fork();
    if !cfg.mine(i) {
      continue;
    }
    let id = format!("pair:{}", i);
    if !cfg.wants(&id) {
      continue;
    }
    let pipe = random_pipe(&mut r, &gcfg);
    let late = r.chance(1, 3);
    let seed = r.next();
    rep.evaluations += 1;
    let (res, events, delivered) = compare(&pipe, late, seed);
    rep.events += events as u64;
    let has_dual = pipe.chain.any_op(&dual);
    if delivered && has_dual {
      rep.nontrivial.insert(hash64(&pipe));
    }
    for op in &pipe.chain.ops {
      if dual(op) {
        rep.set("dual_form_operators_covered", op.name());
      }
    }
    if let Some((kind, detail)) = res {
      let k2 = kind.clone();
      let mut still = |c: &Chain| {
        let mut p2 = pipe.clone();
        p2.chain = c.clone();
        compare(&p2, late, seed).0.map_or(false, |(k, _)| k == k2)
      };
      let small = shrink_chain(&pipe.chain, &mut still);
      rep.violation(&kind, &locus_of(&small), &id, json!({"chain": pipe.chain.show(), "shrunk_chain": small.show(), "acts": format!("{:?}", pipe.acts), "late": late, "result": detail}));
    } else {
      rep.sample_some(7019, || json!({"case": id, "chain": pipe.chain.show(), "acts": pipe.acts.len(), "late_schedule": late, "notifications_compared": events / 2}));
    }
  }
}
