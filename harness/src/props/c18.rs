//! C18 — local and thread-safe variants are observationally equivalent.
use super::common::*;
use crate::ast::*;
use crate::gen::*;
use crate::log::{catch, Log, Probe, K};
use crate::report::{Cfg, Report};
use crate::value::*;
use crate::world::*;
use serde_json::json;

fn dual(op: &Op) -> bool {
  matches!(
    op,
    Op::Merge(_)
      | Op::Zip(_)
      | Op::CombineLatest(_)
      | Op::WithLatestFrom(_)
      | Op::TakeUntil(_)
      | Op::SkipUntil(_)
      | Op::Sample(_)
      | Op::MergeAll(..)
      | Op::ConcatAll(_)
      | Op::FlatMap(_)
      | Op::ConcatMap(_)
      | Op::Flatten(_)
      | Op::GroupByFlat(_)
      | Op::Delay(_)
      | Op::ObserveOn
      | Op::Finalize(_)
      | Op::Share
  )
}

fn real_time(c: &Chain) -> bool {
  c.any_src(&|s| matches!(s, Src::IntervalAt(..) | Src::TimerAt(..))) || c.any_op(&|o| matches!(o, Op::DelayAt(_) | Op::DelaySubscriptionAt(_)))
}

/// what the final subscriber saw: (virtual time unless the pipe reads the real clock, notification),
/// interleaved with the runs of the pipeline's finalize callbacks (user code too: recorded as the
/// pseudo-item -(callback id)), so that their number and their order relative to the deliveries
/// and to each other are compared as well
fn trace(run: &RunOut, with_time: bool) -> Vec<(u64, N)> {
  run
    .evs
    .iter()
    .filter_map(|e| match &e.k {
      K::N(n) if e.id == 1 => Some((if with_time { e.vt } else { 0 }, n.clone())),
      K::Mark("finalize", _) => Some((if with_time { e.vt } else { 0 }, N::Next(V::I(-(e.id as i64))))),
      _ => None,
    })
    .collect()
}

pub fn compare(pipe: &Pipe, late: bool, seed: u64) -> (Option<(String, serde_json::Value)>, usize, bool) {
  compare_unsub(pipe, late, seed, None)
}

/// `unsub_at`: the subscription is unsubscribed before explorer step n (in both forms); the
/// remaining events are still injected and everything still pending is still run
pub fn compare_unsub(pipe: &Pipe, late: bool, seed: u64, unsub_at: Option<usize>) -> (Option<(String, serde_json::Value)>, usize, bool) {
  let mut cut = |w: &mut World, step: usize, _: &mut Rng| {
    if Some(step) == unsub_at {
      w.unsubscribe(0);
    }
  };
  let a = run_pipe(Flavor::Local, pipe, Policy::Fifo, late, seed, &mut cut);
  let b = run_pipe(Flavor::Threads, pipe, Policy::Fifo, late, seed, &mut cut);
  let with_time = !real_time(&pipe.chain);
  match (&a, &b) {
    (Ok(ra), Ok(rb)) => {
      let (ta, tb) = (trace(ra, with_time), trace(rb, with_time));
      let n = ta.len() + tb.len();
      if ta != tb {
        let same_vals = ta.iter().map(|x| &x.1).eq(tb.iter().map(|x| &x.1));
        let kind = if same_vals { "variants_differ_in_timing" } else { "variants_differ" };
        let f = |t: &Vec<(u64, N)>| t.iter().map(|(t, n)| json!([t, n.j()])).collect::<Vec<_>>();
        (Some((kind.into(), json!({"local": f(&ta), "threads": f(&tb)}))), n, true)
      } else {
        (None, n, !ta.is_empty())
      }
    }
    (Err(pa), Err(pb)) => {
      // both forms panic in the same place: equivalent (the panic itself is C05/C10's business)
      let _ = (pa, pb);
      (None, 0, false)
    }
    (Err(p), Ok(_)) => (Some(("only_local_panics".into(), json!({"panic": p}))), 0, true),
    (Ok(_), Err(p)) => (Some(("only_threads_panics".into(), json!({"panic": p}))), 0, true),
  }
}

/// teardown of several live branches: three hot branches under flat_map / merge_all(2), each with
/// a finalize callback, plus one on the outer stream; the stream is unsubscribed while all are
/// alive. The order in which the callbacks run must be the same in both forms.
fn branch_teardown_battery(rep: &mut Report) {
  use rxrust::prelude::*;
  use std::sync::{Arc, Mutex};
  for limit in [usize::MAX, 2usize, 0usize] {
    rep.evaluations += 1;
    rep.count("branch_teardown_orders_compared", 1);
    let run = |threads: bool| -> Vec<String> {
      let order: Arc<Mutex<Vec<String>>> = Default::default();
      if threads {
        let mut outer = SubjectThreads::<usize, E>::default();
        let inners: Vec<SubjectThreads<V, E>> = (0..3).map(|_| Default::default()).collect();
        let (i2, o2, o3) = (inners.clone(), order.clone(), order.clone());
        let h = outer
          .clone()
          .finalize_threads(move || o3.lock().unwrap().push("outer".into()))
          .map(move |k: usize| {
            let o = o2.clone();
            i2[k].clone().finalize_threads(move || o.lock().unwrap().push(format!("branch {}", k)))
          })
          .merge_all_threads(limit)
          .actual_subscribe(Probe::new(1, &Log::new()));
        for k in 0..3 {
          outer.next(k);
        }
        inners[0].clone().next(V::I(1));
        h.unsubscribe();
      } else {
        let mut outer = Subject::<'static, usize, E>::default();
        let inners: Vec<Subject<'static, V, E>> = (0..3).map(|_| Default::default()).collect();
        let (i2, o2, o3) = (inners.clone(), order.clone(), order.clone());
        let h = outer
          .clone()
          .finalize(move || o3.lock().unwrap().push("outer".into()))
          .map(move |k: usize| {
            let o = o2.clone();
            i2[k].clone().finalize(move || o.lock().unwrap().push(format!("branch {}", k)))
          })
          .merge_all(limit)
          .actual_subscribe(Probe::new(1, &Log::new()));
        for k in 0..3 {
          outer.next(k);
        }
        inners[0].clone().next(V::I(1));
        h.unsubscribe();
      }
      let v = order.lock().unwrap().clone();
      v
    };
    let (l, t) = (catch(|| run(false)), catch(|| run(true)));
    rep.events += 8;
    match (l, t) {
      (Ok(l), Ok(t)) => {
        if l != t {
          rep.violation("variants_differ", "merge_all+finalize[teardown of live branches]", &format!("teardown:{}", limit), json!({"limit": if limit == usize::MAX { json!("unbounded") } else { json!(limit) }, "local": l, "threads": t}));
        } else {
          rep.nontrivial.insert(hash64(&("teardown", limit)));
        }
      }
      (l, t) => rep.violation("only_one_form_panics", "merge_all+finalize[teardown of live branches]", &format!("teardown:{}", limit), json!({"local": format!("{:?}", l), "threads": format!("{:?}", t)})),
    }
  }
}

pub fn run(cfg: &Cfg, rep: &mut Report) {
  if cfg.shard == 0 && cfg.only_case.as_deref().map_or(true, |c| c.starts_with("teardown:")) {
    branch_teardown_battery(rep);
  }
  let total = cfg.n(250_000, 12_000_000);
  let mut gcfg = GenCfg::full(cfg.n(3, 5), cfg.n(8, 14));
  gcfg.sched_pct = 25;
  let mut rng = Rng::new(cfg.seed ^ 0xC18);
  for i in 0..total {
    let mut r = rng.fork();
    if !cfg.mine(i) {
      continue;
    }
    let id = format!("pair:{}", i);
    if !cfg.wants(&id) {
      continue;
    }
    let pipe = random_pipe(&mut r, &gcfg);
    let late = r.chance(1, 3);
    let seed = r.next();
    // a third of the pairs are unsubscribed somewhere along the way
    let unsub_at = if r.chance(1, 3) { Some(r.below(10)) } else { None };
    if unsub_at.is_some() {
      rep.count("pairs_unsubscribed_along_the_way", 1);
    }
    rep.evaluations += 1;
    let (res, events, delivered) = compare_unsub(&pipe, late, seed, unsub_at);
    rep.events += events as u64;
    let has_dual = pipe.chain.any_op(&dual);
    if delivered && has_dual {
      rep.nontrivial.insert(hash64(&pipe));
    }
    for op in &pipe.chain.ops {
      if dual(op) {
        rep.set("dual_form_operators_covered", op.name());
      }
    }
    if let Some((kind, detail)) = res {
      let k2 = kind.clone();
      let mut still = |c: &Chain| {
        let mut p2 = pipe.clone();
        p2.chain = c.clone();
        compare_unsub(&p2, late, seed, unsub_at).0.map_or(false, |(k, _)| k == k2)
      };
      let small = shrink_chain(&pipe.chain, &mut still);
      rep.violation(&kind, &locus_of(&small), &id, json!({"chain": pipe.chain.show(), "shrunk_chain": small.show(), "acts": format!("{:?}", pipe.acts), "late": late, "unsubscribed_before_step": unsub_at, "result": detail}));
    } else {
      rep.sample_some(7019, || json!({"case": id, "chain": pipe.chain.show(), "acts": pipe.acts.len(), "late_schedule": late, "notifications_compared": events / 2}));
    }
  }

  // the two subjects themselves: one history (incl. subscriptions made from inside a
  // subscriber's callback, retain() and len()) on Subject and on SubjectThreads, single-threaded:
  // the global order of deliveries and every size reading must be identical
  let n = cfg.n(150_000, 6_000_000);
  let mut rng = Rng::new(cfg.seed ^ 0xC18B);
  for i in 0..n {
    let mut r = rng.fork();
    if !cfg.mine(i) {
      continue;
    }
    let id = format!("subj:{}", i);
    if !cfg.wants(&id) {
      continue;
    }
    let len = 3 + r.below(cfg.n(8, 14));
    let h: Vec<SHop> = (0..len)
      .map(|_| match r.below(12) {
        0 | 1 => SHop::Sub(r.below(3)),
        2 => SHop::Unsub(r.below(3)),
        3 | 4 => SHop::ArmNested(r.below(3)),
        5 => SHop::Retain,
        6 => SHop::Complete,
        7 if r.chance(1, 2) => SHop::Error,
        _ => SHop::Next,
      })
      .collect();
    rep.evaluations += 1;
    rep.count("subject_histories_compared", 1);
    let a = subject_trace(false, &h);
    let b = subject_trace(true, &h);
    match (&a, &b) {
      (Ok(ta), Ok(tb)) => {
        rep.events += (ta.len() + tb.len()) as u64;
        if ta.iter().any(|l| l.starts_with("5")) {
          rep.nontrivial.insert(hash64(&("subj", &h)));
        }
        if ta != tb {
          let at = ta.iter().zip(tb.iter()).position(|(x, y)| x != y).unwrap_or(ta.len().min(tb.len()));
          rep.violation("variants_differ", "Subject vs SubjectThreads", &id, json!({"history": format!("{:?}", h), "first_difference_at": at, "local": ta, "threads": tb}));
        }
      }
      // a history on which the local subject panics (re-entrant borrow) has no reference behaviour
      (Err(_), _) => {
        rep.count("subject_histories_skipped_local_panics", 1);
      }
      (Ok(_), Err(p)) => rep.violation("panic", "SubjectThreads only", &id, json!({"history": format!("{:?}", h), "panic": p})),
    }
  }
}

#[derive(Clone, Copy, Debug, PartialEq, Eq, Hash)]
pub enum SHop {
  Sub(usize),
  Unsub(usize),
  /// the next item subscriber k receives makes it subscribe one more probe to the subject
  ArmNested(usize),
  Next,
  Complete,
  Error,
  Retain,
}

macro_rules! subject_history {
  ($subj:ty, $h:expr) => {{
    use rxrust::prelude::*;
    use rxrust::subject::SubjectSize;
    use std::cell::Cell;
    use std::rc::Rc;
    let log = crate::log::Log::new();
    let mut subj = <$subj>::default();
    let mut subs: Vec<Option<_>> = vec![None, None, None];
    let nested = Rc::new(Cell::new(50u32));
    let mut item = 100i64;
    let mut trace: Vec<String> = vec![];
    let mut seen = 0usize;
    for hop in $h {
      match hop {
        SHop::Sub(k) => {
          if subs[*k].is_none() {
            subs[*k] = Some(subj.clone().actual_subscribe(crate::log::Probe::new(1 + *k as u32, &log)));
          }
        }
        SHop::Unsub(k) => {
          if let Some(u) = subs[*k].take() {
            u.unsubscribe();
          }
        }
        SHop::ArmNested(k) => {
          let (s2, l2, nn) = (subj.clone(), log.clone(), nested.clone());
          let armed = Rc::new(Cell::new(true));
          crate::log::set_local_cb(
            1 + *k as u32,
            Rc::new(move |n: &N| {
              if armed.get() && matches!(n, N::Next(_)) {
                armed.set(false);
                let id = nn.get();
                nn.set(id + 1);
                std::mem::forget(s2.clone().actual_subscribe(crate::log::Probe::new(id, &l2)));
              }
            }),
          );
        }
        SHop::Next => {
          item += 1;
          subj.next(V::I(item));
        }
        SHop::Complete => subj.clone().complete(),
        SHop::Error => subj.clone().error(7),
        SHop::Retain => subj.retain(),
      }
      // everything delivered during this step, in global order, then the size readings
      let evs = log.evs();
      for e in &evs[seen..] {
        if let crate::log::K::N(n) = &e.k {
          trace.push(format!("{}:{:?}", e.id, n));
        }
      }
      seen = evs.len();
      trace.push(format!("len={} empty={}", subj.len(), subj.is_empty()));
    }
    crate::log::clear_local_cbs();
    std::mem::forget(subs);
    trace
  }};
}

pub fn subject_trace(threads: bool, h: &[SHop]) -> Result<Vec<String>, String> {
  let r = crate::log::catch(|| if threads { subject_history!(rxrust::subject::SubjectThreads<V, E>, h) } else { subject_history!(rxrust::subject::Subject<'static, V, E>, h) });
  crate::log::clear_local_cbs();
  r
}
