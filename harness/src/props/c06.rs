//! C06 — subjects deliver each item once, in order, to exactly the current
//! subscribers (sequential histories; the thread part lives in c10.rs).
use crate::log::*;
use crate::report::{Cfg, Report};
use crate::value::*;
use rxrust::prelude::*;
use serde_json::json;
use std::rc::Rc;

#[derive(Clone, Debug, PartialEq, Eq, Hash)]
pub enum Hop {
  Sub,
  /// the next delivery of an item to subscriber k subscribes a new one from inside the callback
  ArmNested(usize),
  /// as ArmNested, but the callback subscribes TWO new subscribers and unsubscribes the first of
  /// them again before it returns (join, join, leave within one delivery)
  ArmNestedPair(usize),
  Unsub(usize),
  Next,
  Err,
  Complete,
  /// continue through a fresh clone of the subject handle
  Clone,
  Retain,
  UnsubSubject,
  Flags,
}

#[derive(Clone, Copy, Debug, PartialEq, Eq, Hash)]
pub enum Kind {
  Local,
  Threads,
  MutItem,
  MutErr,
  MutItemErr,
}

/// probe for the `&mut` variants: records what it sees, then mutates it
pub struct MutProbe {
  id: u32,
  log: Log,
}
impl MutProbe {
  fn see(&self, n: N) {
    self.log.push(self.id, K::N(n.clone()));
    crate::log::fire_local_pub(self.id, &n);
  }
}
impl<'r> Observer<&'r mut i64, E> for MutProbe {
  fn next(&mut self, v: &'r mut i64) {
    self.see(N::Next(V::I(*v)));
    *v += 1;
  }
  fn error(self, e: E) {
    self.see(N::Err(e))
  }
  fn complete(self) {
    self.see(N::Complete)
  }
  fn is_finished(&self) -> bool {
    false
  }
}
impl<'r> Observer<V, &'r mut E> for MutProbe {
  fn next(&mut self, v: V) {
    self.see(N::Next(v))
  }
  fn error(self, e: &'r mut E) {
    self.see(N::Err(*e));
    *e += 1;
  }
  fn complete(self) {
    self.see(N::Complete)
  }
  fn is_finished(&self) -> bool {
    false
  }
}
impl<'i, 'e> Observer<&'i mut i64, &'e mut E> for MutProbe {
  fn next(&mut self, v: &'i mut i64) {
    self.see(N::Next(V::I(*v)));
    *v += 1;
  }
  fn error(self, e: &'e mut E) {
    self.see(N::Err(*e));
    *e += 1;
  }
  fn complete(self) {
    self.see(N::Complete)
  }
  fn is_finished(&self) -> bool {
    false
  }
}

type Unsub = Box<dyn FnOnce()>;
type Closed = Box<dyn Fn() -> bool>;

/// uniform handle over the five subject types
pub trait Subj: Clone + 'static {
  fn fresh() -> Self;
  fn emit(&mut self, v: i64) -> i64;
  fn fail(self, e: E) -> E;
  fn done(self);
  fn sub(&self, id: u32, log: &Log) -> (Unsub, Closed);
  fn retain_(&mut self);
  fn unsub_all(self);
  fn flags(&self) -> (bool, bool, bool, usize);
  const MUT_ITEM: bool;
  const MUT_ERR: bool;
}

macro_rules! subj_common {
  () => {
    fn retain_(&mut self) {
      self.retain()
    }
    fn unsub_all(self) {
      self.unsubscribe()
    }
    fn flags(&self) -> (bool, bool, bool, usize) {
      (self.is_finished_(), self.is_closed(), self.is_empty(), self.len())
    }
  };
}

trait Fin {
  fn is_finished_(&self) -> bool;
}
impl Fin for Subject<'static, V, E> {
  fn is_finished_(&self) -> bool {
    Observer::<V, E>::is_finished(self)
  }
}
impl Fin for SubjectThreads<V, E> {
  fn is_finished_(&self) -> bool {
    Observer::<V, E>::is_finished(self)
  }
}
impl Fin for MutRefItemSubject<'static, i64, E> {
  fn is_finished_(&self) -> bool {
    Observer::<&mut i64, E>::is_finished(self)
  }
}
impl Fin for MutRefErrSubject<'static, V, E> {
  fn is_finished_(&self) -> bool {
    Observer::<V, &mut E>::is_finished(self)
  }
}
impl Fin for MutRefItemErrSubject<'static, i64, E> {
  fn is_finished_(&self) -> bool {
    Observer::<&mut i64, &mut E>::is_finished(self)
  }
}

impl Subj for Subject<'static, V, E> {
  const MUT_ITEM: bool = false;
  const MUT_ERR: bool = false;
  fn fresh() -> Self {
    Self::default()
  }
  fn emit(&mut self, v: i64) -> i64 {
    self.next(V::I(v));
    v
  }
  fn fail(self, e: E) -> E {
    self.error(e);
    e
  }
  fn done(self) {
    self.complete()
  }
  fn sub(&self, id: u32, log: &Log) -> (Unsub, Closed) {
    let s = self.clone().actual_subscribe(Probe::new(id, log));
    let s2 = s.clone();
    (Box::new(move || s.unsubscribe()), Box::new(move || s2.is_closed()))
  }
  subj_common!();
}
impl Subj for SubjectThreads<V, E> {
  const MUT_ITEM: bool = false;
  const MUT_ERR: bool = false;
  fn fresh() -> Self {
    Self::default()
  }
  fn emit(&mut self, v: i64) -> i64 {
    self.next(V::I(v));
    v
  }
  fn fail(self, e: E) -> E {
    self.error(e);
    e
  }
  fn done(self) {
    self.complete()
  }
  fn sub(&self, id: u32, log: &Log) -> (Unsub, Closed) {
    let s = self.clone().actual_subscribe(Probe::new(id, log));
    let s2 = s.clone();
    (Box::new(move || s.unsubscribe()), Box::new(move || s2.is_closed()))
  }
  subj_common!();
}
impl Subj for MutRefItemSubject<'static, i64, E> {
  const MUT_ITEM: bool = true;
  const MUT_ERR: bool = false;
  fn fresh() -> Self {
    Self::default()
  }
  fn emit(&mut self, v: i64) -> i64 {
    let mut x = v;
    self.next(&mut x);
    x
  }
  fn fail(self, e: E) -> E {
    self.error(e);
    e
  }
  fn done(self) {
    Observer::<&mut i64, E>::complete(self)
  }
  fn sub(&self, id: u32, log: &Log) -> (Unsub, Closed) {
    let s = self.clone().actual_subscribe(MutProbe { id, log: log.clone() });
    let s2 = s.clone();
    (Box::new(move || s.unsubscribe()), Box::new(move || s2.is_closed()))
  }
  subj_common!();
}
impl Subj for MutRefErrSubject<'static, V, E> {
  const MUT_ITEM: bool = false;
  const MUT_ERR: bool = true;
  fn fresh() -> Self {
    Self::default()
  }
  fn emit(&mut self, v: i64) -> i64 {
    self.next(V::I(v));
    v
  }
  fn fail(self, e: E) -> E {
    let mut x = e;
    self.error(&mut x);
    x
  }
  fn done(self) {
    Observer::<V, &mut E>::complete(self)
  }
  fn sub(&self, id: u32, log: &Log) -> (Unsub, Closed) {
    let s = self.clone().actual_subscribe(MutProbe { id, log: log.clone() });
    let s2 = s.clone();
    (Box::new(move || s.unsubscribe()), Box::new(move || s2.is_closed()))
  }
  subj_common!();
}
impl Subj for MutRefItemErrSubject<'static, i64, E> {
  const MUT_ITEM: bool = true;
  const MUT_ERR: bool = true;
  fn fresh() -> Self {
    Self::default()
  }
  fn emit(&mut self, v: i64) -> i64 {
    let mut x = v;
    self.next(&mut x);
    x
  }
  fn fail(self, e: E) -> E {
    let mut x = e;
    self.error(&mut x);
    x
  }
  fn done(self) {
    Observer::<&mut i64, &mut E>::complete(self)
  }
  fn sub(&self, id: u32, log: &Log) -> (Unsub, Closed) {
    let s = self.clone().actual_subscribe(MutProbe { id, log: log.clone() });
    let s2 = s.clone();
    (Box::new(move || s.unsubscribe()), Box::new(move || s2.is_closed()))
  }
  subj_common!();
}

pub struct Outcome {
  /// per subscriber id: what it saw
  pub seen: Vec<Vec<N>>,
  pub expected: Vec<Vec<N>>,
  pub flag_errors: Vec<String>,
  pub events: usize,
  pub joins_or_leaves_between_emissions: bool,
  pub nested_used: bool,
  pub joined_during_terminal: bool,
}

/// run a history against the real subject and, in lock step, against the
/// sequential multicast model
pub fn exec<S: Subj>(h: &[Hop]) -> Result<Outcome, String> {
  catch(|| {
    clear_local_cbs();
    let log = Log::new();
    let mut subj = S::fresh();
    let mut unsubs: Vec<Option<Unsub>> = vec![];
    let mut closed_fns: Vec<Closed> = vec![];
    // model
    // model slots: 0..50 regular subscribers, 50..100 the subscriber nested under k
    let mut active: Vec<bool> = vec![false; 100];
    let mut expected: Vec<Vec<N>> = vec![vec![]; 100];
    let mut ever_armed: Vec<usize> = vec![];
    // slots in subscription order (delivery order of the subject)
    let mut order: Vec<usize> = vec![];
    let mut finished = false;
    let mut flag_errors = vec![];
    let mut item = 100i64;
    let mut emissions = 0;
    let mut change_after_emission = false;
    let mut nested_used = false;
    let mut joined_during_terminal = false;
    // nested subscriptions requested: (armed on k, new id)
    let armed: Rc<std::cell::RefCell<Vec<usize>>> = Rc::new(Default::default());
    let armed_pair: Rc<std::cell::RefCell<Vec<usize>>> = Rc::new(Default::default());
    let nested_done: Rc<std::cell::RefCell<Vec<(u32, Unsub, Closed)>>> = Rc::new(Default::default());
    for op in h {
      match op {
        Hop::Sub => {
          let id = 1 + unsubs.len() as u32;
          let (u, c) = subj.sub(id, &log);
          unsubs.push(Some(u));
          closed_fns.push(c);
          active[id as usize - 1] = !finished;
          order.push(id as usize - 1);
          if emissions > 0 {
            change_after_emission = true
          }
        }
        Hop::ArmNested(k) | Hop::ArmNestedPair(k) => {
          if *k < unsubs.len() && !ever_armed.contains(k) {
            ever_armed.push(*k);
            armed.borrow_mut().push(*k);
            let pair = matches!(op, Hop::ArmNestedPair(_));
            if pair {
              armed_pair.borrow_mut().push(*k);
            }
            let id = 1 + *k as u32;
            let s2 = subj.clone();
            let log2 = log.clone();
            let armed2 = armed.clone();
            let nd = nested_done.clone();
            let kk = *k;
            // ids of nested subscribers: 50 + k
            set_local_cb(
              id,
              Rc::new(move |n: &N| {
                // an armed subscriber that has not received an item yet when the terminal reaches it
                // subscribes from inside its terminal callback (the newcomer is owed nothing)
                if armed2.borrow().contains(&kk) {
                  let _ = n;
                  armed2.borrow_mut().retain(|x| *x != kk);
                  let (u, c) = s2.sub(100 + kk as u32, &log2);
                  if pair {
                    // a second newcomer joins, then the first one leaves again, all within this delivery
                    let (u2, c2) = s2.sub(125 + kk as u32, &log2);
                    nd.borrow_mut().push((125 + kk as u32, u2, c2));
                    u();
                  } else {
                    nd.borrow_mut().push((100 + kk as u32, u, c));
                  }
                }
              }),
            );
          }
        }
        Hop::Unsub(k) => {
          if let Some(Some(u)) = unsubs.get_mut(*k).map(|u| u.take()) {
            u();
            if active[*k] && emissions > 0 {
              change_after_emission = true
            }
            active[*k] = false;
            if !closed_fns[*k]() {
              flag_errors.push(format!("subscriber {} reports open after its unsubscribe()", k));
            }
          }
        }
        Hop::Next => {
          item += 10;
          // model: the subscribers active when the emission begins receive it, in subscription order
          let receivers: Vec<usize> = order.iter().cloned().filter(|i| active[*i]).collect();
          let mut cur = item;
          // nested subscriptions happen in delivery order of the in-flight item
          let will_nest: Vec<usize> = receivers.iter().cloned().filter(|k| armed.borrow().contains(k)).collect();
          for r in &receivers {
            expected[*r].push(N::Next(V::I(cur)));
            if S::MUT_ITEM {
              cur += 1
            }
          }
          let back = subj.emit(item);
          if !finished && S::MUT_ITEM && back != cur {
            flag_errors.push(format!("mutation chain: emitter got back {} expected {}", back, cur));
          }
          if !finished {
            emissions += 1;
          }
          // nested subscribers join after the in-flight item
          for k in will_nest {
            if !finished {
              // with a pair the first newcomer (index 50+k) left again at once; the second stays
              let idx = if armed_pair.borrow().contains(&k) { 75 + k } else { 50 + k };
              active[idx] = true;
              order.push(idx);
              nested_used = true;
            }
          }
        }
        Hop::Err => {
          if order.iter().any(|i| active[*i] && armed.borrow().contains(i)) {
            joined_during_terminal = true;
          }
          let mut cur = 7;
          for r in order.iter().cloned().filter(|i| active[*i]).collect::<Vec<_>>() {
            expected[r].push(N::Err(cur));
            if S::MUT_ERR {
              cur += 1
            }
            active[r] = false;
          }
          subj.clone().fail(7);
          finished = true;
        }
        Hop::Complete => {
          if order.iter().any(|i| active[*i] && armed.borrow().contains(i)) {
            joined_during_terminal = true;
          }
          for r in (0..active.len()).filter(|i| active[*i]).collect::<Vec<_>>() {
            expected[r].push(N::Complete);
            active[r] = false;
          }
          subj.clone().done();
          finished = true;
        }
        Hop::Clone => subj = subj.clone(),
        Hop::Retain => subj.retain_(),
        Hop::UnsubSubject => {
          subj.clone().unsub_all();
          for a in active.iter_mut() {
            *a = false
          }
          finished = true;
        }
        Hop::Flags => {}
      }
      // the statement: after a terminal or unsubscribe() the subject reports itself finished and empty
      if finished {
        let (fin, closed, empty, len) = subj.flags();
        if !fin || !closed || !empty || len != 0 {
          flag_errors.push(format!(
            "after terminal/unsubscribe: is_finished={} is_closed={} is_empty={} len={}",
            fin, closed, empty, len
          ));
        }
      } else {
        let (fin, closed, _, _) = subj.flags();
        if fin || closed {
          flag_errors.push(format!("live subject reports is_finished={} is_closed={}", fin, closed));
        }
      }
    }
    let n = 100;
    // model index k < 50: subscriber k, probe id 1+k ; index 50+k: subscriber nested under k, probe id 100+k
    let mut seen2 = vec![vec![]; n];
    for k in 0..50.min(n) {
      seen2[k] = log.notes(1 + k as u32);
    }
    for k in 50..n {
      seen2[k] = log.notes(100 + (k as u32 - 50));
    }
    let events = log.len();
    clear_local_cbs();
    drop(nested_done);
    Outcome {
      seen: seen2,
      expected,
      flag_errors,
      events,
      joins_or_leaves_between_emissions: change_after_emission,
      nested_used,
      joined_during_terminal,
    }
  })
}

pub fn random_history(r: &mut Rng, max_len: usize) -> Vec<Hop> {
  let len = 2 + r.below(max_len - 1);
  let mut h = vec![];
  let mut subs = 0usize;
  for _ in 0..len {
    let op = match r.below(20) {
      0..=3 if subs < 3 => {
        subs += 1;
        Hop::Sub
      }
      4 | 5 if subs > 0 => Hop::Unsub(r.below(subs)),
      6 if subs > 0 => if r.chance(1, 3) { Hop::ArmNestedPair(r.below(subs)) } else { Hop::ArmNested(r.below(subs)) },
      7..=13 => Hop::Next,
      14 => Hop::Err,
      15 => Hop::Complete,
      16 => Hop::Clone,
      17 => Hop::Retain,
      18 => {
        if r.chance(1, 3) {
          Hop::UnsubSubject
        } else {
          Hop::Next
        }
      }
      _ => {
        if subs < 3 {
          subs += 1;
          Hop::Sub
        } else {
          Hop::Next
        }
      }
    };
    h.push(op);
  }
  h
}

fn judge(o: &Result<Outcome, String>) -> Option<(String, serde_json::Value)> {
  match o {
    Err(p) => Some(("panic".into(), json!({"panic": p}))),
    Ok(o) => {
      for (k, (s, e)) in o.seen.iter().zip(o.expected.iter()).enumerate() {
        if s != e {
          let kind = if grammar_violation(s).is_some() {
            "delivery_after_terminal"
          } else if s.len() < e.len() {
            "missed_notification"
          } else if s.len() > e.len() {
            "extra_notification"
          } else {
            "wrong_notification"
          };
          return Some((kind.into(), json!({"subscriber": k, "saw": jn(s), "expected": jn(e)})));
        }
      }
      if let Some(f) = o.flag_errors.first() {
        return Some(("wrong_flags".into(), json!({"flags": f})));
      }
      None
    }
  }
}

fn run_kind(kind: Kind, h: &[Hop]) -> Result<Outcome, String> {
  match kind {
    Kind::Local => exec::<Subject<'static, V, E>>(h),
    Kind::Threads => exec::<SubjectThreads<V, E>>(h),
    Kind::MutItem => exec::<MutRefItemSubject<'static, i64, E>>(h),
    Kind::MutErr => exec::<MutRefErrSubject<'static, V, E>>(h),
    Kind::MutItemErr => exec::<MutRefItemErrSubject<'static, i64, E>>(h),
  }
}

pub fn run(cfg: &Cfg, rep: &mut Report) {
  let total = cfg.n(800_000, 24_000_000);
  let max_len = cfg.n(12, 30);
  let kinds = [Kind::Local, Kind::Threads, Kind::MutItem, Kind::MutErr, Kind::MutItemErr];
  let mut rng = Rng::new(cfg.seed ^ 0xC06);
  for i in 0..total {
    let mut r = rng.fork();
    if !cfg.mine(i) {
      continue;
    }
    let id = format!("hist:{}", i);
    if !cfg.wants(&id) {
      continue;
    }
    let kind = kinds[r.below(kinds.len())];
    let h = random_history(&mut r, max_len);
    rep.evaluations += 1;
    let o = run_kind(kind, &h);
    rep.set("subject_types_covered", &format!("{:?}", kind));
    if let Ok(out) = &o {
      rep.events += out.events as u64;
      let nsubs = h.iter().filter(|x| matches!(x, Hop::Sub)).count();
      if nsubs >= 2 && out.joins_or_leaves_between_emissions {
        rep.nontrivial.insert(hash64(&(kind, &h)));
      }
      if out.nested_used {
        rep.count("histories_with_subscribe_inside_callback", 1);
      }
      if out.joined_during_terminal {
        rep.count("histories_with_subscribe_inside_a_terminal_callback", 1);
      }
    }
    if let Some((k, detail)) = judge(&o) {
      let mut cur = h.clone();
      let mut j = 0;
      while j < cur.len() {
        let mut cand = cur.clone();
        cand.remove(j);
        if judge(&run_kind(kind, &cand)).map_or(false, |(k2, _)| k2 == k) {
          cur = cand
        } else {
          j += 1
        }
      }
      rep.violation(
        &k,
        &format!("{:?}", kind),
        &id,
        json!({"subject": format!("{:?}", kind), "history": format!("{:?}", h), "shrunk_history": format!("{:?}", cur), "result": detail}),
      );
    } else if let Ok(out) = &o {
      rep.sample_some(8009, || {
        json!({"case": id, "subject": format!("{:?}", kind), "history": format!("{:?}", h),
               "subscribers_saw": out.seen.iter().filter(|s| !s.is_empty()).map(|s| jn(s)).collect::<Vec<_>>()})
      });
    }
  }

  // thread part: 2-3 threads each running a history on clones of one SubjectThreads (baton scheduler)
  let n = cfg.n(12_000, 600_000);
  super::thr::systematic_families(cfg, rep, 0xC06A, &[0, 0, 0], &|_, _| {}, &|o, _| super::thr::must_receive(o).or_else(|| super::thr::common_order(o)).or_else(|| super::thr::terminal_consistency(o)));
  super::thr::campaign(cfg, rep, "thr", n, 0xC06F, &mut |r: &mut Rng| super::thr::random_scen(r, 0), &|o, _| {
    super::thr::must_receive(o).or_else(|| super::thr::common_order(o)).or_else(|| super::thr::terminal_consistency(o))
  });
}
