//! C02 — after unsubscribe() returns the subscriber is never called again.
use super::common::*;
use crate::gen::*;
use crate::log::*;
use crate::report::{Cfg, Report};
use crate::value::*;
use crate::world::*;
use serde_json::json;
use std::cell::Cell;

#[derive(Clone, Copy, Debug)]
pub struct CutInfo {
  pub ret_seq: u64,
  pub pending_timers: usize,
  pub ready_tasks: usize,
  pub step: usize,
  pub after_terminal: bool,
}

pub fn run_cut(
  flavor: Flavor,
  pipe: &Pipe,
  policy: Policy,
  late: bool,
  seed: u64,
  cut_step: usize,
  use_guard: bool,
) -> (Result<RunOut, String>, Option<CutInfo>) {
  run_cut_x(flavor, pipe, policy, late, seed, cut_step, use_guard, false)
}

/// `emit_in_teardown`: every finalize callback that runs while unsubscribe() is in progress
/// pushes one more item into hot input 0 (user code acting during the teardown)
#[allow(clippy::too_many_arguments)]
pub fn run_cut_x(
  flavor: Flavor,
  pipe: &Pipe,
  policy: Policy,
  late: bool,
  seed: u64,
  cut_step: usize,
  use_guard: bool,
  emit_in_teardown: bool,
) -> (Result<RunOut, String>, Option<CutInfo>) {
  let info: Cell<Option<CutInfo>> = Cell::new(None);
  let in_cut = std::rc::Rc::new(Cell::new(false));
  let out = run_pipe(flavor, pipe, policy, late, seed, &mut |w, step, _| {
    if step == cut_step && info.get().is_none() {
      let pending_timers = crate::vtime::pending_count();
      let ready_tasks = w.arena.ready().len();
      let after_terminal = w.log.notes(1).iter().any(|n| n.is_terminal());
      if emit_in_teardown && pipe.n_hot > 0 {
        let dbg = format!("{:?}", pipe.chain);
        let mut ids: Vec<u32> = vec![];
        for part in dbg.split("Finalize(").skip(1) {
          if let Ok(id) = part.chars().take_while(|c| c.is_ascii_digit()).collect::<String>().parse::<u32>() {
            ids.push(id);
          }
        }
        for id in ids {
          let (hl, ht, flag, fl) = (w.l.hot[0].clone(), w.t.hot[0].clone(), in_cut.clone(), flavor);
          set_local_cb(
            id,
            std::rc::Rc::new(move |_n: &N| {
              if flag.get() {
                use rxrust::observer::Observer;
                if fl == Flavor::Threads {
                  ht.clone().next(V::I(777));
                } else {
                  hl.clone().next(V::I(777));
                }
              }
            }),
          );
        }
      }
      if use_guard {
        w.guard(0);
      }
      w.log.mark(0, "unsub_call", step as i64);
      in_cut.set(true);
      if use_guard && seed % 2 == 0 {
        // the guard's scope is left by a panic (caught further up): dropped by the unwinder
        w.drop_guard_by_unwinding(0);
      } else {
        w.unsubscribe(0);
      }
      in_cut.set(false);
      let ret_seq = w.log.mark(0, "unsub_ret", step as i64);
      info.set(Some(CutInfo { ret_seq, pending_timers, ready_tasks, step, after_terminal }));
    }
  });
  clear_local_cbs();
  (out, info.get())
}

fn late_delivery(out: &Result<RunOut, String>, info: &Option<CutInfo>) -> Option<Ev> {
  let (Ok(run), Some(ci)) = (out, info) else { return None };
  run.evs.iter().find(|e| e.id == 1 && e.seq > ci.ret_seq && matches!(e.k, K::N(_))).cloned()
}

pub fn gen_cfg(cfg: &Cfg) -> GenCfg {
  let mut g = GenCfg::full(cfg.n(3, 5), cfg.n(8, 14));
  g.sched_pct = 45; // bias towards every scheduler-using operator
  g.early_pct = 20;
  g
}

pub fn run(cfg: &Cfg, rep: &mut Report) {
  let total = cfg.n(300_000, 12_000_000);
  let gcfg = gen_cfg(cfg);
  let mut rng = Rng::new(cfg.seed ^ 0xC02);
  for i in 0..total {
    let mut r = rng.fork();
    if !cfg.mine(i) {
      continue;
    }
    let id = format!("cut:{}", i);
    if !cfg.wants(&id) {
      continue;
    }
    let pipe = random_pipe(&mut r, &gcfg);
    let flavor = [Flavor::Local, Flavor::Threads, Flavor::Local, Flavor::LocalPool][r.below(4)];
    if flavor == Flavor::LocalPool {
      rep.count("runs_on_the_real_LocalPool", 1);
    }
    let policy = if r.chance(1, 2) { Policy::Fifo } else { Policy::Any };
    let late = r.chance(1, 2);
    let seed = r.next();
    let use_guard = r.chance(1, 3);
    let emit_in_teardown = r.chance(1, 3);
    // dry run: how many steps does this schedule have?
    let first_terminal_step: Cell<Option<usize>> = Cell::new(None);
    let dry = run_pipe(flavor, &pipe, policy, late, seed, &mut |w, step, _| {
      if first_terminal_step.get().is_none() && w.log.notes(1).iter().any(|n| n.is_terminal()) {
        first_terminal_step.set(Some(step));
      }
    });
    let steps = match &dry {
      Ok(d) => d.steps,
      Err(_) => {
        rep.count("cases_panicked", 1);
        continue;
      }
    };
    // mostly cut while the stream is alive; sometimes after its terminal
    let alive = first_terminal_step.get().unwrap_or(steps);
    let cut_step = if r.chance(1, 6) { r.below(steps + 1) } else { r.below(alive + 1) };
    rep.evaluations += 1;
    let (out, info) = run_cut_x(flavor, &pipe, policy, late, seed, cut_step, use_guard, emit_in_teardown);
    if emit_in_teardown && format!("{:?}", pipe.chain).contains("Finalize(") {
      rep.count("cuts_with_finalize_callbacks_emitting_during_teardown", 1);
    }
    for n in pipe.chain.api_names() {
      rep.set("operators_covered", n);
    }
    if let (Ok(run), Some(ci)) = (&out, &info) {
      rep.events += run.evs.iter().filter(|e| matches!(e.k, K::N(_))).count() as u64;
      let remaining_acts =
        run.evs.iter().any(|e| e.seq > ci.ret_seq && matches!(e.k, K::Mark("act", _)));
      let class = if ci.after_terminal {
        "cut_after_terminal"
      } else if ci.ready_tasks > 0 {
        "cut_with_ready_task"
      } else if ci.pending_timers > 0 {
        "cut_with_pending_timer"
      } else if ci.step == 0 {
        "cut_before_first_event"
      } else {
        "cut_between_events"
      };
      rep.count(class, 1);
      if !ci.after_terminal && (ci.pending_timers > 0 || ci.ready_tasks > 0 || remaining_acts) {
        rep.nontrivial.insert(hash64(&(&pipe, flavor, cut_step, seed)));
      }
      rep.distinct("distinct_schedules", run.choice_hash ^ hash64(&(&pipe, cut_step)));
    } else if out.is_err() {
      rep.count("cases_panicked", 1);
    }
    if let Some(ev) = late_delivery(&out, &info) {
      let mut still = |c: &crate::ast::Chain| {
        let mut p2 = pipe.clone();
        p2.chain = c.clone();
        let (o, inf) = run_cut_x(flavor, &p2, policy, late, seed, cut_step, use_guard, emit_in_teardown);
        late_delivery(&o, &inf).is_some()
      };
      let small = shrink_chain(&pipe.chain, &mut still);
      rep.violation(
        "delivery_after_unsubscribe",
        &locus_of(&small),
        &id,
        json!({"chain": pipe.chain.show(), "shrunk_chain": small.show(), "cut_step": cut_step,
               "via": if use_guard { "guard drop" } else { "unsubscribe()" },
               "late_event": format!("{:?} at vt={}ns", ev.k, ev.vt),
               "flavor": format!("{:?}", flavor), "policy": format!("{:?}", policy), "late_schedule": late,
               "acts": format!("{:?}", pipe.acts)}),
      );
    } else if let (Ok(run), Some(ci)) = (&out, &info) {
      rep.sample_some(7919, || {
        json!({"case": id, "chain": pipe.chain.show(), "cut_step": ci.step,
               "pending_timers_at_cut": ci.pending_timers, "ready_tasks_at_cut": ci.ready_tasks,
               "subscriber_saw": jn(&notes_of(&run.evs, 1))})
      });
    }
  }

  // sources that cannot be cancelled: a stage right above the hot source swallows the
  // unsubscription, so the source keeps pushing INTO the pipeline after unsubscribe() returned.
  // Only pipelines whose deliveries all pass through a scheduler operator are owed silence then
  // (with nothing but synchronous stages nobody could stop the items): source . deaf .
  // [transparent] . delay|observe_on . [any single-input operators]
  {
    use crate::ast::*;
    use crate::vtime::MS;
    let total = cfg.n(60_000, 3_000_000);
    let mut rng = Rng::new(cfg.seed ^ 0xC02D);
    for i in 0..total {
      let mut r = rng.fork();
      if !cfg.mine(i) {
        continue;
      }
      let id = format!("deaf:{}", i);
      if !cfg.wants(&id) {
        continue;
      }
      let mut ops = vec![Op::Deaf];
      if r.chance(1, 2) {
        ops.push([Op::Map(MapF::Ident), Op::Filter(Pred::True), Op::BoxIt][r.below(3)].clone());
      }
      ops.push(match r.below(5) {
        0 | 1 => Op::ObserveOn,
        2 => Op::Delay(0),
        3 => Op::Delay([1u64, 5][r.below(2)]),
        _ => Op::DelayUs([250, 1500][r.below(2)]),
      });
      if r.chance(1, 2) {
        ops.push(random_single_op(&mut r, 3));
      }
      let n_items = 1 + r.below(cfg.n(6, 10));
      let mut t = 0u64;
      let gaps = [0u64, 0, 1, 2, 5];
      let mut acts = vec![];
      for k in 0..n_items {
        t += gaps[r.below(gaps.len())] * MS;
        acts.push(TAct { t, act: Act::In(0, N::Next(V::I(100 + k as i64))) });
      }
      // delay forwards an error synchronously (by design: errors are not delayed), so a failing
      // uncancellable source is only paired with observe_on, which schedules the error too
      let through_tasks_only = ops.iter().any(|o| matches!(o, Op::ObserveOn));
      match r.below(3) {
        0 => {}
        1 if through_tasks_only => acts.push(TAct { t: t + MS, act: Act::In(0, N::Err(7)) }),
        _ => acts.push(TAct { t: t + MS, act: Act::In(0, N::Complete) }),
      }
      let pipe = Pipe { chain: Chain::new(Src::Hot(0), ops), n_hot: 1, acts, horizon: t + 40 * MS };
      let flavor = [Flavor::Local, Flavor::Threads, Flavor::LocalPool][r.below(3)];
      let policy = if r.chance(1, 2) { Policy::Fifo } else { Policy::Any };
      let late = r.chance(1, 2);
      let seed = r.next();
      let use_guard = r.chance(1, 3);
      let steps = match run_pipe(flavor, &pipe, policy, late, seed, &mut |_, _, _| {}) {
        Ok(d) => d.steps,
        Err(_) => continue,
      };
      let cut_step = r.below(steps + 1);
      rep.evaluations += 1;
      rep.count("cuts_above_a_source_that_cannot_be_cancelled", 1);
      let (out, info) = run_cut(flavor, &pipe, policy, late, seed, cut_step, use_guard);
      if let (Ok(run), Some(ci)) = (&out, &info) {
        rep.events += run.evs.iter().filter(|e| matches!(e.k, K::N(_))).count() as u64;
        if run.evs.iter().any(|e| e.seq > ci.ret_seq && matches!(e.k, K::Mark("act", _))) {
          rep.count("deaf_cuts_with_source_events_still_to_come", 1);
          rep.nontrivial.insert(hash64(&(&pipe, flavor, cut_step, seed, "deaf")));
        }
      }
      if let Some(ev) = late_delivery(&out, &info) {
        rep.violation(
          "delivery_after_unsubscribe",
          &format!("{}[uncancellable source]", locus_of(&pipe.chain)),
          &id,
          json!({"chain": pipe.chain.show(), "cut_step": cut_step, "via": if use_guard { "guard drop" } else { "unsubscribe()" },
                 "late_event": format!("{:?} at vt={}ns", ev.k, ev.vt), "flavor": format!("{:?}", flavor), "policy": format!("{:?}", policy),
                 "late_schedule": late, "acts": format!("{:?}", pipe.acts)}),
        );
      }
    }
  }

  // a subscriber whose handler panicked on one item inside a scheduled task (the scheduler
  // catches the panic and the program goes on), later tasks still pending, then unsubscribe()
  // (which may itself re-raise the stored panic: it is caught) or a guard drop: nothing more
  if cfg.shard == 0 && cfg.only_case.as_deref().map_or(true, |c| c.starts_with("panicked-task:")) {
    use rxrust::prelude::*;
    use std::cell::RefCell;
    use std::rc::Rc;
    struct Picky(Rc<RefCell<Vec<String>>>);
    impl Observer<V, E> for Picky {
      fn next(&mut self, v: V) {
        if v.int() == 13 {
          panic!("the subscriber fails on an item");
        }
        self.0.borrow_mut().push(format!("next {}", v.int()));
      }
      fn error(self, e: E) {
        self.0.borrow_mut().push(format!("error {}", e));
      }
      fn complete(self) {
        self.0.borrow_mut().push("complete".into());
      }
      fn is_finished(&self) -> bool {
        false
      }
    }
    for op in 0..3 {
      for guard in [false, true] {
        for poison_first in [true, false] {
          let id = format!("panicked-task:{}:{}:{}", op, guard, poison_first);
          rep.evaluations += 1;
          rep.count("cuts_after_a_scheduled_task_panicked", 1);
          crate::vtime::reset();
          let mut pool = futures::executor::LocalPool::new();
          let log: Rc<RefCell<Vec<String>>> = Default::default();
          let mut subj = Subject::<'static, V, E>::default();
          let name = ["observe_on", "delay(0)", "delay(1ms)"][op];
          let h: BoxSubscription<'static> = match op {
            0 => BoxSubscription::new(subj.clone().observe_on(pool.spawner()).actual_subscribe(Picky(log.clone()))),
            1 => BoxSubscription::new(subj.clone().delay(Duration::from_millis(0), pool.spawner()).actual_subscribe(Picky(log.clone()))),
            _ => BoxSubscription::new(subj.clone().delay(Duration::from_millis(1), pool.spawner()).actual_subscribe(Picky(log.clone()))),
          };
          let drive = |pool: &mut futures::executor::LocalPool| {
            pool.run_until_stalled();
            crate::vtime::advance_to(crate::vtime::now() + 5_000_000);
            pool.run_until_stalled();
          };
          if !poison_first {
            subj.next(V::I(1));
          }
          subj.next(V::I(13));
          drive(&mut pool); // the task of item 13 ran and panicked inside the scheduler's catch
          subj.next(V::I(2));
          subj.next(V::I(3));
          subj.clone().complete();
          let before = log.borrow().len();
          let _ = std::panic::catch_unwind(std::panic::AssertUnwindSafe(move || {
            if guard {
              drop(h.unsubscribe_when_dropped());
            } else {
              h.unsubscribe();
            }
          }));
          drive(&mut pool);
          let after: Vec<String> = log.borrow()[before..].to_vec();
          rep.events += log.borrow().len() as u64 + 1;
          if !after.is_empty() {
            rep.violation("delivery_after_unsubscribe", &format!("{}[a task of this subscription had panicked]", name), &id, json!({"delivered_after_unsubscribe": after, "via": if guard { "guard drop" } else { "unsubscribe()" }}));
          } else {
            rep.nontrivial.insert(hash64(&id));
          }
        }
      }
    }
  }

  // two subscriptions made from clones of ONE operator value over a hot source: the first is
  // unsubscribed, the source emits, the second is unsubscribed, the source emits again. Each
  // probe is silent from its own unsubscribe() on, and the second one was still served in
  // between (an unsubscription must not reach into, nor be disabled by, a sibling subscription)
  if cfg.shard == 0 && cfg.only_case.as_deref().map_or(true, |c| c.starts_with("siblings:")) {
    use rxrust::ops::throttle::ThrottleEdge;
    use rxrust::prelude::*;
    macro_rules! siblings {
      ($name:expr, $subj:ident, $pool:ident, $build:expr) => {{
        let id = format!("siblings:{}", $name);
        rep.evaluations += 1;
        rep.count("sibling_subscriptions_of_one_operator_value", 1);
        crate::vtime::reset();
        let mut $pool = futures::executor::LocalPool::new();
        let log = Log::new();
        let mut $subj = Subject::<'static, V, E>::default();
        let o = $build;
        let s1 = o.clone().actual_subscribe(Probe::new(1, &log));
        let s2 = o.clone().actual_subscribe(Probe::new(2, &log));
        drop(o);
        let drive = |pool: &mut futures::executor::LocalPool| {
          pool.run_until_stalled();
          crate::vtime::advance_to(crate::vtime::now() + 5_000_000);
          pool.run_until_stalled();
        };
        $subj.next(V::I(1));
        drive(&mut $pool);
        s1.unsubscribe();
        let cut1 = log.mark(0, "unsub_ret", 1);
        $subj.next(V::I(2));
        drive(&mut $pool);
        s2.unsubscribe();
        let cut2 = log.mark(0, "unsub_ret", 2);
        $subj.next(V::I(3));
        $subj.clone().complete();
        drive(&mut $pool);
        let evs = log.evs();
        rep.events += evs.len() as u64;
        let late1 = evs.iter().find(|e| e.id == 1 && e.seq > cut1 && matches!(e.k, K::N(_)));
        let late2 = evs.iter().find(|e| e.id == 2 && e.seq > cut2 && matches!(e.k, K::N(_)));
        let served2 = evs.iter().any(|e| e.id == 2 && e.seq > cut1 && e.seq < cut2 && matches!(&e.k, K::N(N::Next(_))));
        if let Some(ev) = late1.or(late2) {
          rep.violation("delivery_after_unsubscribe", &format!("{}[sibling subscriptions of one operator value]", $name), &id, json!({"late_event": format!("probe {} received {:?}", ev.id, ev.k)}));
        } else if !served2 {
          rep.violation("sibling_cut_off", &format!("{}[sibling subscriptions of one operator value]", $name), &id, json!({"why": "the second subscription received nothing for item 2 although only the first one had been unsubscribed"}));
        } else {
          rep.nontrivial.insert(hash64(&id));
        }
      }};
    }
    siblings!("map", subj, pool, subj.clone().map(|v: V| v));
    siblings!("finalize", subj, pool, subj.clone().finalize(|| {}));
    siblings!("take", subj, pool, subj.clone().take(5));
    siblings!("scan", subj, pool, subj.clone().scan(|a: V, _b: V| a));
    siblings!("observe_on", subj, pool, subj.clone().observe_on(pool.spawner()));
    siblings!("delay", subj, pool, subj.clone().delay(Duration::from_millis(1), pool.spawner()));
    siblings!("debounce", subj, pool, subj.clone().debounce(Duration::from_millis(1), pool.spawner()));
    siblings!("throttle", subj, pool, subj.clone().throttle(|_: &V| Duration::from_millis(1), ThrottleEdge::all(), pool.spawner()));
    siblings!("buffer_with_time", subj, pool, subj.clone().buffer_with_time(Duration::from_millis(1), pool.spawner()).map(V::L));
  }

  // thread part: an emitting thread races the unsubscribing thread (baton scheduler)
  let n = cfg.n(12_000, 600_000);
  let fams = [0usize, 2, 3, 4, 5, 6, 7, 8, 9, 11, 12, 13, 15, 16, 17, 18, 20, 23, 24, 25];
  super::thr::systematic_families(cfg, rep, 0xC02A, &fams, &|s, r| {
    if !s.threads.iter().flatten().any(|op| matches!(op, super::thr::TOp::Unsub(0))) {
      let t = r.below(s.threads.len());
      let p = r.below(s.threads[t].len() + 1);
      s.threads[t].insert(p, super::thr::TOp::Unsub(0));
    }
  }, &|o, _| super::thr::after_unsub(o));
  super::thr::campaign(cfg, rep, "thr", n, 0xC02F, &mut |r: &mut Rng| {
    let f = fams[r.below(fams.len())];
    let mut s = super::thr::random_scen(r, f);
    // make sure some thread unsubscribes subscription #0
    if !s.threads.iter().flatten().any(|op| matches!(op, super::thr::TOp::Unsub(0))) {
      let t = r.below(s.threads.len());
      let p = r.below(s.threads[t].len() + 1);
      s.threads[t].insert(p, super::thr::TOp::Unsub(0));
    }
    s
  }, &|o, _| super::thr::after_unsub(o));
}
