//! C03 — sources and single-input operators compute their documented sequence.
use crate::ast::*;
use crate::gen::*;
use crate::log::*;
use crate::model;
use crate::report::{Cfg, Report};
use crate::value::*;
use crate::world::*;
use serde_json::json;

pub struct Obs {
  pub out: Vec<N>,
  pub taps: Vec<(usize, Vec<i64>)>,
  pub events: usize,
}

/// 0 = the pipeline is alone on its hot source; 1 = an unsubscribed pipeline sits ahead of it;
/// 2 = a take(1) pipeline sits ahead of it (a function of the script, so that replays agree)
pub fn bystander_mode(chain: &Chain, script: &[N]) -> u64 {
  if matches!(chain.src, Src::Hot(0)) {
    hash64(&script) % 4
  } else {
    0
  }
}

/// run one chain against the real library: subscribe, then inject the script
pub fn observe(flavor: Flavor, chain: &Chain, script: &[N]) -> Result<Obs, String> {
  catch(|| {
    let mut w = World::new(flavor, 1);
    // a hot source is shared: in half of the hot cases another pipeline was registered on it
    // first and is over (unsubscribed, or finished by itself) when the events arrive
    match bystander_mode(chain, script) {
      1 => {
        let b = w.subscribe(&Chain::new(Src::Hot(0), vec![]), 2);
        w.unsubscribe(b);
      }
      2 => {
        w.subscribe(&Chain::new(Src::Hot(0), vec![Op::Take(1)]), 2);
      }
      _ => {}
    }
    w.subscribe(chain, 1);
    for n in script {
      match chain.src {
        Src::Create(_) => {
          w.inject_create(0, n.clone());
        }
        _ => w.inject(0, n.clone()),
      }
    }
    let out = w.log.notes(1);
    let mut taps = vec![];
    for (i, op) in chain.ops.iter().enumerate() {
      if let Op::Tap(id) = op {
        taps.push((i, w.log.marks(*id, "tap").into_iter().map(|(_, v)| v).collect()));
      }
    }
    let events = w.log.len();
    w.teardown();
    Obs { out, taps, events }
  })
}

/// None = conforms; Some(kind, detail)
pub fn judge(chain: &Chain, script: &[N], obs: &Result<Obs, String>) -> Option<(String, serde_json::Value)> {
  let hot = vec![script.to_vec()];
  let Some(allowed) = model::allowed_outputs(chain, &hot) else {
    return None;
  };
  match obs {
    Err(p) => Some(("panic".into(), json!({"panic": p}))),
    Ok(o) => {
      if !allowed.contains(&o.out) {
        let exp = &allowed[0];
        let kind = if grammar_violation(&o.out).is_some() {
          "malformed_sequence"
        } else if exp.last().map_or(false, |n| matches!(n, N::Err(_)))
          && o.out.iter().filter(|n| matches!(n, N::Next(_))).count()
            > exp.iter().filter(|n| matches!(n, N::Next(_))).count()
        {
          "extra_item_with_error"
        } else {
          "sequence_mismatch"
        };
        return Some((
          kind.into(),
          json!({"observed": jn(&o.out), "expected_one_of": allowed.iter().map(|a| jn(a)).collect::<Vec<_>>()}),
        ));
      }
      // tap: called once per item that reaches it, in order
      for (pos, seen) in &o.taps {
        let later_cut = chain.ops[pos + 1..].iter().any(|op| op.early_terminating() || matches!(op, Op::Take(_)));
        for rx in model::relax_variants() {
          let Some(reach) = model::prefix_model(chain, *pos, &hot, rx) else { continue };
          let want: Vec<i64> =
            reach.iter().filter_map(|n| if let N::Next(v) = n { Some(v.int()) } else { None }).collect();
          let ok = if later_cut { want.starts_with(seen) } else { &want == seen };
          if !ok {
            return Some((
              "tap_calls_mismatch".into(),
              json!({"tap_saw": seen, "items_reaching_tap": want}),
            ));
          }
          break;
        }
      }
      None
    }
  }
}

fn nontrivial(chain: &Chain, script: &[N]) -> bool {
  let hot = vec![script.to_vec()];
  match model::chain_model(chain, &hot, model::Relax::default()) {
    Some(exp) => {
      let input_terminated = script.iter().any(|n| n.is_terminal());
      let out_terminated = exp.last().map_or(false, |n| n.is_terminal());
      exp.iter().any(|n| matches!(n, N::Next(_)))
        || (out_terminated && !input_terminated)
        || exp.last().map_or(false, |n| matches!(n, N::Err(_)))
    }
    None => false,
  }
}

fn check_case(cfg: &Cfg, rep: &mut Report, id: &str, chain: &Chain, script: &[N]) {
  if !cfg.wants(id) {
    return;
  }
  rep.evaluations += 1;
  let obs = observe(Flavor::Local, chain, script);
  if let Ok(o) = &obs {
    rep.events += o.events as u64;
  }
  for n in chain.api_names() {
    rep.set("operators_covered", n);
  }
  if matches!(bystander_mode(chain, script), 1 | 2) {
    rep.count("hot_cases_behind_a_closed_pipeline_on_the_same_source", 1);
  }
  if nontrivial(chain, script) {
    rep.nontrivial.insert(hash64(&(chain, script)));
  }
  rep.distinct("distinct_pipelines", hash64(chain));
  if let Some((kind, detail)) = judge(chain, script, &obs) {
    // locus: deterministic shrink of the chain, then of the script
    let k2 = kind.clone();
    let mut still = |c: &Chain| {
      let o = observe(Flavor::Local, c, script);
      judge(c, script, &o).map_or(false, |(k, _)| k == k2)
    };
    let small = shrink_chain(chain, &mut still);
    let mut still_s = |s: &[N]| {
      let o = observe(Flavor::Local, &small, s);
      judge(&small, s, &o).map_or(false, |(k, _)| k == k2)
    };
    let small_script = shrink_script(script, &mut still_s);
    let locus = locus_of(&small);
    rep.violation(
      &kind,
      &locus,
      id,
      json!({"chain": chain.show(), "script": jn(script), "shrunk_chain": small.show(),
             "shrunk_script": jn(&small_script), "result": detail}),
    );
  } else {
    rep.sample_some(9973, || {
      json!({"case": id, "chain": chain.show(), "script": jn(script),
             "observed": obs.as_ref().map(|o| jn(&o.out)).unwrap_or(json!("panic"))})
    });
  }
}

pub fn sources_for(script: &[N]) -> Vec<(Src, Vec<N>)> {
  let mut v = vec![(Src::Hot(0), script.to_vec()), (Src::CreateSync(script.to_vec()), vec![]), (Src::Create(0), script.to_vec())];
  // a plain iterator source can express "items then complete"
  if script.last() == Some(&N::Complete) {
    let items: Vec<V> =
      script.iter().filter_map(|n| if let N::Next(v) = n { Some(v.clone()) } else { None }).collect();
    v.push((Src::Iter(items), vec![]));
  }
  v
}

pub fn basic_sources() -> Vec<Src> {
  vec![
    Src::Of(V::I(1)),
    Src::OfOpt(Some(V::I(1))),
    Src::OfOpt(None),
    Src::OfRes(Ok(V::I(2))),
    Src::OfRes(Err(ERR)),
    Src::OfFn(V::I(1)),
    Src::Start(V::I(2)),
    Src::Iter(vec![]),
    Src::Iter(vec![V::I(0), V::I(1), V::I(2), V::I(1)]),
    Src::Repeat(V::I(1), 0),
    Src::Repeat(V::I(2), 3),
    Src::Empty,
    Src::Never,
    Src::Throw(ERR),
    Src::CreateSync(vec![N::Next(V::I(1)), N::Next(V::I(0)), N::Err(ERR)]),
    Src::CreateSync(vec![N::Next(V::I(2)), N::Complete, N::Next(V::I(1)), N::Err(ERR)]),
    Src::Defer(Box::new(Chain::new(Src::Iter(vec![V::I(2), V::I(0)]), vec![]))),
    Src::Defer(Box::new(Chain::new(Src::Throw(ERR), vec![]))),
  ]
}

pub fn run(cfg: &Cfg, rep: &mut Report) {
  let len = cfg.n(3, 6);
  let scripts = all_scripts(&[0, 1, 2], len);
  let ops = single_op_variants(len);
  let mut idx = 0usize;
  // (i) per-operator sweeps: every script x every parameter x hot and cold sources
  for op in &ops {
    for s in &scripts {
      for (src, inj) in sources_for(s) {
        idx += 1;
        if !cfg.mine(idx) {
          continue;
        }
        let chain = Chain::new(src, vec![op.clone()]);
        check_case(cfg, rep, &format!("sweep:{}", idx), &chain, &inj);
      }
    }
  }
  rep.count("sweep_cases_total", idx as u64);
  // (ii) every basic source directly and under every operator variant
  for src in basic_sources() {
    idx += 1;
    if cfg.mine(idx) {
      check_case(cfg, rep, &format!("src:{}", idx), &Chain::new(src.clone(), vec![]), &[]);
    }
    for op in &ops {
      idx += 1;
      if cfg.mine(idx) {
        check_case(cfg, rep, &format!("src:{}", idx), &Chain::new(src.clone(), vec![op.clone()]), &[]);
      }
    }
  }
  // (iii) random chains of depth 2..=5 (quick: ..=4)
  let total = cfg.n(400_000, 30_000_000);
  let maxd = cfg.n(4, 5);
  let mut rng = Rng::new(cfg.seed ^ 0xC03);
  for i in 0..total {
    let mut r = rng.fork();
    if !cfg.mine(i) {
      continue;
    }
    let depth = 2 + r.below(maxd - 1);
    let mut ops: Vec<Op> = (0..depth).map(|_| random_single_op(&mut r, len)).collect();
    for (pos, op) in ops.iter_mut().enumerate() {
      if let Op::Tap(id) = op {
        *id = 50 + pos as u32; // one counter per tap position
      }
    }
    let script = random_script(&mut r, len + 2, 3, true);
    let (src, inj) = match r.below(5) {
      0 => (Src::CreateSync(script.clone()), vec![]),
      1 => (Src::Create(0), script.clone()),
      2 => {
        let bs = basic_sources();
        (bs[r.below(bs.len())].clone(), vec![])
      }
      _ => (Src::Hot(0), script.clone()),
    };
    let chain = Chain::new(src, ops);
    check_case(cfg, rep, &format!("rand:{}", i), &chain, &inj);
  }

  // (iii-b) long scripts over a larger alphabet (up to 40 items over 12 values, parameters
  // up to 12): operators that remember what they have seen / keep the last n items
  let total = cfg.n(60_000, 4_000_000);
  let mut rng = Rng::new(cfg.seed ^ 0xC03B);
  for i in 0..total {
    let mut r = rng.fork();
    if !cfg.mine(i) {
      continue;
    }
    let depth = 1 + r.below(2);
    let mut ops: Vec<Op> = (0..depth).map(|_| random_single_op(&mut r, 12)).collect();
    if i % 10 == 0 {
      // pairs share their hash whenever their first components agree (see value.rs)
      ops = vec![Op::Pairwise, if r.chance(1, 2) { Op::Distinct } else { Op::DistinctUntilChanged }];
    }
    for (pos, op) in ops.iter_mut().enumerate() {
      if let Op::Tap(id) = op {
        *id = 50 + pos as u32;
      }
    }
    let script = random_script(&mut r, 40, 12, true);
    let (src, inj) = if r.chance(1, 3) { (Src::CreateSync(script.clone()), vec![]) } else { (Src::Hot(0), script.clone()) };
    let chain = Chain::new(src, ops);
    rep.count("long_script_cases", 1);
    check_case(cfg, rep, &format!("long:{}", i), &chain, &inj);
  }

  // (iii-c) large parameters over long inputs (counts in the thousands, 3000 items)
  {
    let big: Vec<Op> = vec![
      Op::Take(2000), Op::Take(1025), Op::Skip(2000), Op::Skip(1025), Op::TakeLast(2000), Op::TakeLast(1025),
      Op::SkipLast(2000), Op::SkipLast(1025), Op::SkipLast(1024), Op::SkipLast(5000), Op::ElementAt(2500),
      Op::BufferWithCount(1500), Op::BufferWithCount(1025),
    ];
    for (k, op) in big.iter().enumerate() {
      for n in [1024usize, 1025, 3000] {
        let idx = k * 10 + n % 7;
        if !cfg.mine(idx) {
          continue;
        }
        let chain = Chain::new(Src::Iter((0..n as i64).map(V::I).collect()), vec![op.clone()]);
        rep.count("large_parameter_cases", 1);
        check_case(cfg, rep, &format!("big:{}:{}", k, n), &chain, &[]);
      }
    }
  }

  // (iv) static battery: the same chains written as ordinary typed (un-boxed) pipelines,
  // so that the un-erased instantiations of the operators are exercised too
  static_battery(cfg, rep);
  if cfg.only_case.as_deref().map_or(true, |c| c.starts_with("panicking-handler:")) {
    panicking_handler_battery(cfg, rep);
  }
}

fn typed_case(rep: &mut Report, id: &str, chain: &Chain, items: &[i64], got: Vec<N>) {
  rep.evaluations += 1;
  rep.count("static_battery_cases", 1);
  let script: Vec<N> = items.iter().map(|i| N::Next(V::I(*i))).chain(std::iter::once(N::Complete)).collect();
  let hot = vec![script.clone()];
  let allowed = model::allowed_outputs(chain, &hot).unwrap_or_default();
  rep.events += got.len() as u64;
  if !allowed.contains(&got) {
    rep.violation("sequence_mismatch", &format!("typed:{}", locus_of(chain)), id, json!({"typed_chain": chain.show(), "items": items, "observed": jn(&got), "expected_one_of": allowed.iter().map(|a| jn(a)).collect::<Vec<_>>()}));
  } else {
    rep.nontrivial.insert(hash64(&(chain, items, "typed")));
  }
}

/// The subscriber's handler panics on its k-th item (user code); the program catches the panic
/// around the source's call and goes on. Whatever the operator had to remember up to that item it
/// still remembers: the whole observed sequence (the failed delivery included - the probe records
/// an item before its handler runs) is still what the list model gives for the input.
/// Operators for which the unmodified library does not behave that way are listed in
/// NOT_DEMANDED (the documentation says nothing about panicking handlers) and skipped.
fn panicking_handler_battery(cfg: &Cfg, rep: &mut Report) {
  let it = |v: &[i64]| -> Vec<N> { v.iter().map(|x| N::Next(V::I(*x))).collect() };
  let mut scripts: Vec<Vec<N>> = vec![];
  for (items, term) in [(vec![0i64, 1, 2, 1, 0], N::Complete), (vec![1, 1, 2, 2, 0], N::Complete), (vec![2, 0, 1, 1], N::Err(7))] {
    let mut s = it(&items);
    s.push(term);
    scripts.push(s);
  }
  let mut idx = 0usize;
  for op in crate::gen::single_op_variants(1) {
    if NOT_DEMANDED.contains(&op.name()) {
      continue;
    }
    for script in &scripts {
      for k in 1..=3usize {
        idx += 1;
        if !cfg.mine(idx) {
          continue;
        }
        let id = format!("panicking-handler:{}", idx);
        if !cfg.wants(&id) {
          continue;
        }
        let chain = Chain::new(Src::Hot(0), vec![op.clone()]);
        let Some(allowed) = model::allowed_outputs(&chain, &[script.clone()]) else { continue };
        // the case only counts when a k-th item is delivered at all
        if !allowed.iter().any(|a| a.iter().filter(|n| matches!(n, N::Next(_))).count() >= k) {
          continue;
        }
        rep.evaluations += 1;
        rep.count("cases_with_a_handler_that_panics_on_an_item", 1);
        let got = catch(|| {
          clear_local_cbs();
          let mut w = World::new(Flavor::Local, 1);
          w.subscribe(&chain, 1);
          let seen = std::rc::Rc::new(std::cell::Cell::new(0usize));
          let s2 = seen.clone();
          set_local_cb(
            1,
            std::rc::Rc::new(move |n: &N| {
              if matches!(n, N::Next(_)) {
                s2.set(s2.get() + 1);
                if s2.get() == k {
                  panic!("the subscriber fails on an item");
                }
              }
            }),
          );
          for n in script.iter() {
            let n = n.clone();
            let w2 = &mut w;
            let _ = std::panic::catch_unwind(std::panic::AssertUnwindSafe(move || w2.inject(0, n)));
          }
          clear_local_cbs();
          let out = w.log.notes(1);
          w.teardown();
          out
        });
        match got {
          Err(p) => rep.violation("panic", &format!("{}[a handler panicked on an item]", op.name()), &id, json!({"chain": chain.show(), "panic": p})),
          Ok(out) => {
            rep.events += out.len() as u64;
            if !allowed.contains(&out) {
              rep.violation(
                "sequence_mismatch",
                &format!("{}[a handler panicked on an item]", op.name()),
                &id,
                json!({"chain": chain.show(), "script": jn(script), "handler_panicked_on_its_item_number": k, "observed": jn(&out), "expected_one_of": allowed.iter().map(|a| jn(a)).collect::<Vec<_>>()}),
              );
            } else {
              rep.nontrivial.insert(hash64(&(&chain, script, k, "panicking-handler")));
            }
          }
        }
      }
    }
  }
}

/// operators whose behaviour after a caught handler panic is not demanded: they hand over an item
/// and a terminal (or several notifications) within one call, or finish on the item they forward,
/// and the unwinding panic takes the rest of that call with it (observed on the unmodified library)
const NOT_DEMANDED: [&str; 19] = [
  "all", "buffer_with_count", "collect", "contains", "count", "element_at", "first", "first_or", "last", "last_or", "max", "min", "reduce",
  "reduce_initial", "skip_while", "sum", "take", "take_last", "take_while_inclusive",
];

fn static_battery(cfg: &Cfg, rep: &mut Report) {
  use rxrust::prelude::*;
  use std::cell::RefCell;
  use std::rc::Rc;
  let inputs: Vec<Vec<i64>> = vec![vec![], vec![1], vec![0, 1, 2], vec![2, 2, 1, 0, 1], vec![1, 0, 1, 2, 2, 0]];
  let mut k = 0usize;
  for items in &inputs {
    for n in 0..4usize {
      k += 1;
      if !cfg.mine(k) || !cfg.wants(&format!("typed:{}", k)) {
        continue;
      }
      let id = format!("typed:{}", k);
      macro_rules! run_typed {
        ($chain:expr, $pipe:expr, $conv:expr) => {{
          let out: Rc<RefCell<Vec<N>>> = Rc::new(RefCell::new(vec![]));
          let (o1, o2) = (out.clone(), out.clone());
          let conv = $conv;
          $pipe.on_complete(move || o2.borrow_mut().push(N::Complete)).subscribe(move |v| o1.borrow_mut().push(N::Next(conv(v))));
          let got = out.borrow().clone();
          typed_case(rep, &id, &$chain, items, got);
        }};
      }
      let src = || observable::from_iter(items.clone());
      let iv = |v: i64| V::I(v);
      run_typed!(Chain::new(Src::Hot(0), vec![Op::Map(MapF::Add(1)), Op::Filter(Pred::Even), Op::Take(n)]), src().map(|v| v + 1).filter(|v| v % 2 == 0).take(n), iv);
      run_typed!(Chain::new(Src::Hot(0), vec![Op::Skip(n), Op::Distinct, Op::Count]), src().skip(n).distinct().count(), |c: usize| V::I(c as i64));
      run_typed!(Chain::new(Src::Hot(0), vec![Op::TakeLast(n), Op::Pairwise]), src().take_last(n).pairwise(), |(a, b): (i64, i64)| V::p(V::I(a), V::I(b)));
      run_typed!(Chain::new(Src::Hot(0), vec![Op::SkipLast(n), Op::DistinctUntilChanged, Op::Collect]), src().skip_last(n).distinct_until_changed().collect::<Vec<i64>>(), |l: Vec<i64>| V::L(l.into_iter().map(V::I).collect()));
      run_typed!(Chain::new(Src::Hot(0), vec![Op::TakeWhile(Pred::Lt(2)), Op::StartWith(vec![V::I(8)]), Op::Last]), src().take_while(|v| *v < 2).start_with(vec![8]).last(), iv);
      run_typed!(Chain::new(Src::Hot(0), vec![Op::ElementAt(n), Op::DefaultIfEmpty(V::I(9))]), src().element_at(n).default_if_empty(9), iv);
      run_typed!(Chain::new(Src::Hot(0), vec![Op::SkipWhile(Pred::Lt(1)), Op::Contains(V::I(2))]), src().skip_while(|v| *v < 1).contains(2), V::B);
      run_typed!(Chain::new(Src::Hot(0), vec![Op::BufferWithCount(n.max(1)), Op::Take(2)]), src().buffer_with_count(n.max(1)).take(2), |l: Vec<i64>| V::L(l.into_iter().map(V::I).collect()));
      run_typed!(Chain::new(Src::Hot(0), vec![Op::All(Pred::Lt(2))]), src().all(|v| v < 2), V::B);
      run_typed!(Chain::new(Src::Hot(0), vec![Op::FirstOr(V::I(7)), Op::MapTo(V::I(3))]), src().first_or(7).map_to(3), iv);
      run_typed!(Chain::new(Src::Hot(0), vec![Op::Min]), src().min(), iv);
      run_typed!(Chain::new(Src::Hot(0), vec![Op::Max]), src().max(), iv);
      // float average: mean of the items (nothing for an empty source), within 1e-9
      let outf: Rc<RefCell<Vec<f64>>> = Rc::new(RefCell::new(vec![]));
      let of2 = outf.clone();
      observable::from_iter(items.iter().map(|i| *i as f64).collect::<Vec<_>>()).average().subscribe(move |v| of2.borrow_mut().push(v));
      rep.evaluations += 1;
      rep.count("static_battery_cases", 1);
      let want: Vec<f64> = if items.is_empty() { vec![] } else { vec![items.iter().sum::<i64>() as f64 / items.len() as f64] };
      let got = outf.borrow().clone();
      if got.len() != want.len() || got.iter().zip(want.iter()).any(|(a, b)| (a - b).abs() > 1e-9) {
        rep.violation("sequence_mismatch", "typed:average", &id, json!({"items": items, "observed": got, "expected": want}));
      }
    }
  }
  // sum() is generic over Default + Add: with an item type whose `+` does not commute
  // (concatenation) the result must be the left fold in emission order, like reduce(|acc, v| acc + v)
  if cfg.shard == 0 && cfg.only_case.as_deref().map_or(true, |c| c.starts_with("typed:cat")) {
    #[derive(Clone, Default, PartialEq, Debug)]
    struct Cat(String);
    impl std::ops::Add for Cat {
      type Output = Cat;
      fn add(self, o: Cat) -> Cat {
        Cat(self.0 + &o.0)
      }
    }
    for words in [vec![], vec!["a"], vec!["a", "b"], vec!["a", "b", "c", "d"], vec!["x", "y", "x"]] {
      rep.evaluations += 1;
      rep.count("static_battery_cases", 1);
      let items: Vec<Cat> = words.iter().map(|w| Cat(w.to_string())).collect();
      let got: Rc<RefCell<Vec<String>>> = Default::default();
      let (g1, g2) = (got.clone(), got.clone());
      observable::from_iter(items.clone()).sum().subscribe(move |c: Cat| g1.borrow_mut().push(format!("sum {}", c.0)));
      observable::from_iter(items.clone()).reduce(|acc: Cat, v: Cat| acc + v).subscribe(move |c: Cat| g2.borrow_mut().push(format!("reduce {}", c.0)));
      let joined: String = words.concat();
      // an empty input: sum() gives Default (the empty string), reduce gives nothing? both documented forms are accepted for the empty case
      let got = got.borrow().clone();
      let sum_ok = got.iter().filter(|l| l.starts_with("sum ")).collect::<Vec<_>>() == vec![&format!("sum {}", joined)];
      let red: Vec<&String> = got.iter().filter(|l| l.starts_with("reduce ")).collect();
      let red_ok = red.is_empty() && words.is_empty() || red == vec![&format!("reduce {}", joined)];
      rep.events += got.len() as u64;
      if !sum_ok || !red_ok {
        rep.violation("sequence_mismatch", "typed:sum[non-commutative +]", &format!("typed:cat:{}", words.len()), json!({"items": words, "observed": got, "expected_fold": joined}));
      }
    }
  }
  // the callback operators and the two operators whose item type the AST cannot carry, over a hot
  // subject: on_complete / on_error (the error ends there: downstream sees no terminal),
  // timestamp (values untouched, instants between `before` and `after`, never decreasing),
  // collect_into (the given collection extended by the items, on completion only)
  for items in &inputs {
    for term in 0..3u8 {
      k += 1;
      let id = format!("typed:cb:{}:{}", k, term);
      if !cfg.mine(k) || !cfg.wants(&id) {
        continue;
      }
      rep.evaluations += 1;
      rep.count("static_battery_cases", 1);
      rep.count("callback_operator_cases", 1);
      for n in ["on_complete", "on_error", "timestamp", "collect_into"] {
        rep.set("operators_covered", n);
      }
      let log: Rc<RefCell<Vec<String>>> = Default::default();
      let (l1, l2, l3, l4) = (log.clone(), log.clone(), log.clone(), log.clone());
      let mut subj = Subject::<'static, i64, i32>::default();
      subj
        .clone()
        .on_complete(move || l1.borrow_mut().push("on_complete".into()))
        .on_error(move |e| l2.borrow_mut().push(format!("on_error {}", e)))
        .on_complete(move || l3.borrow_mut().push("downstream complete".into()))
        .subscribe(move |v| l4.borrow_mut().push(format!("next {}", v)));
      let stamps: Rc<RefCell<Vec<(i64, Instant)>>> = Default::default();
      let st2 = stamps.clone();
      subj.clone().timestamp().on_error(|_| {}).subscribe(move |(v, t)| st2.borrow_mut().push((v, t)));
      let coll: Rc<RefCell<Vec<String>>> = Default::default();
      let (c1, c2, c3) = (coll.clone(), coll.clone(), coll.clone());
      subj
        .clone()
        .collect_into::<Vec<i64>>(vec![-1, -2])
        .on_error(move |e| c1.borrow_mut().push(format!("error {}", e)))
        .on_complete(move || c2.borrow_mut().push("complete".into()))
        .subscribe(move |l| c3.borrow_mut().push(format!("{:?}", l)));
      let before = Instant::now();
      for v in items {
        subj.next(*v);
      }
      match term {
        1 => subj.clone().complete(),
        2 => subj.clone().error(7),
        _ => {}
      }
      subj.next(99); // after a terminal: nothing more
      let after = Instant::now();
      let mut want: Vec<String> = items.iter().map(|v| format!("next {}", v)).collect();
      match term {
        1 => want.extend(["on_complete".to_string(), "downstream complete".to_string()]),
        2 => want.push("on_error 7".into()),
        _ => want.push("next 99".into()),
      }
      let got = log.borrow().clone();
      rep.events += got.len() as u64;
      if got != want {
        rep.violation("sequence_mismatch", "typed:on_complete+on_error", &id, json!({"items": items, "terminal": term, "observed": got, "expected": want}));
      }
      let st = stamps.borrow().clone();
      let mut wantv: Vec<i64> = items.clone();
      if term == 0 {
        wantv.push(99);
      }
      let ok_t = st.windows(2).all(|w| w[0].1 <= w[1].1) && st.iter().all(|(_, t)| *t >= before && *t <= after);
      if st.iter().map(|x| x.0).collect::<Vec<_>>() != wantv || !ok_t {
        rep.violation("sequence_mismatch", "typed:timestamp", &id, json!({"items": items, "terminal": term, "observed_values": st.iter().map(|x| x.0).collect::<Vec<_>>(), "instants_ordered_and_within_the_run": ok_t}));
      }
      let mut all = vec![-1i64, -2];
      all.extend(items.iter());
      let wantc: Vec<String> = match term {
        1 => vec![format!("{:?}", all), "complete".into()],
        2 => vec!["error 7".into()],
        _ => vec![],
      };
      let gotc = coll.borrow().clone();
      if gotc != wantc {
        rep.violation("sequence_mismatch", "typed:collect_into", &id, json!({"items": items, "terminal": term, "observed": gotc, "expected": wantc}));
      } else {
        rep.nontrivial.insert(hash64(&(items, term, "typed:cb")));
      }
    }
  }
}
