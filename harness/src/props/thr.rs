//! Thread scenarios under the baton scheduler: real OS threads running the
//! real `_threads` code, one at a time, with every shared-cell lock
//! acquisition, every probe callback and every task body a scheduling point.
//! Used by C10 (all scenarios, universal oracles) and by the thread parts of
//! C02, C05, C06, C12, C15, C19 (scenario-specific oracles).
use crate::ast::*;
use crate::build::{threads, StashT};
use crate::conc::{self, BatonOutcome, Strategy};
use crate::log::*;
use crate::report::{Cfg, Report};
use crate::value::*;
use futures::task::{waker, ArcWake};
use rxrust::prelude::*;
use rxrust::scheduler::{NormalReturn, OnceTask, Scheduler};
use rxrust::verif_hooks::VerifSchedulerThreads;
use serde_json::json;
use std::collections::VecDeque;
use std::sync::atomic::{AtomicBool, AtomicUsize, Ordering};
use std::sync::{Arc, Mutex};
use std::task::{Context, Poll};
use std::time::Instant;

// ---------------------------------------------------------------------------
// a tiny pool whose tasks are run by managed worker threads
// ---------------------------------------------------------------------------

type BoxFut = futures::future::BoxFuture<'static, ()>;

struct Task {
  id: i64,
  fut: Mutex<Option<BoxFut>>,
  /// woken while another worker was polling it: that worker re-queues it
  notified: AtomicBool,
  q: Arc<Pool>,
}
/// log id of the pool's own events: task_spawn (value = task id) and task_run (a poll that finished a task; value = begin stamp << 16 | task id)
pub const TASK_EV: u32 = 2900;
pub struct Pool {
  log: Mutex<Option<Log>>,
  ready: Mutex<VecDeque<Arc<Task>>>,
  live: AtomicUsize,
  spawned: AtomicUsize,
}
impl ArcWake for Task {
  fn wake_by_ref(a: &Arc<Self>) {
    a.q.ready.lock().unwrap_or_else(|e| e.into_inner()).push_back(a.clone());
  }
}
impl Pool {
  pub fn new() -> Arc<Pool> {
    Arc::new(Pool { log: Mutex::new(None), ready: Mutex::new(VecDeque::new()), live: AtomicUsize::new(0), spawned: AtomicUsize::new(0) })
  }
  pub fn scheduler(self: &Arc<Self>) -> VerifSchedulerThreads {
    let p = self.clone();
    VerifSchedulerThreads(Arc::new(move |f| {
      p.live.fetch_add(1, Ordering::SeqCst);
      let id = p.spawned.fetch_add(1, Ordering::SeqCst) as i64 + 1;
      p.ev("task_spawn", id);
      let t = Arc::new(Task { id, fut: Mutex::new(Some(f)), notified: AtomicBool::new(false), q: p.clone() });
      p.ready.lock().unwrap_or_else(|e| e.into_inner()).push_back(t);
    }))
  }
  pub fn set_log(&self, log: &Log) {
    *self.log.lock().unwrap_or_else(|e| e.into_inner()) = Some(log.clone());
  }
  fn ev(&self, what: &'static str, id: i64) {
    if let Some(l) = &*self.log.lock().unwrap_or_else(|e| e.into_inner()) {
      l.mark(TASK_EV, what, id);
    }
  }
  /// pop any ready task (position chosen by `pick`) and poll it once
  pub fn run_one(self: &Arc<Self>, pick: usize) -> bool {
    let t = {
      let mut q = self.ready.lock().unwrap_or_else(|e| e.into_inner());
      if q.is_empty() {
        return false;
      }
      let i = pick % q.len();
      q.remove(i).unwrap()
    };
    let fut = {
      let mut g = t.fut.lock().unwrap_or_else(|e| e.into_inner());
      if g.is_none() {
        // being polled by another worker right now (or finished): leave a note
        t.notified.store(true, Ordering::SeqCst);
      }
      g.take()
    };
    if let Some(mut f) = fut {
      let w = waker(t.clone());
      let mut cx = Context::from_waker(&w);
      // only a poll that finishes the task is an operation of its own; it is
      // logged afterwards as one event carrying the stamp taken before the poll
      let begin = stamp();
      let r = f.as_mut().poll(&mut cx);
      if r.is_ready() {
        self.ev("task_run", ((begin as i64) << 16) | (t.id & 0xffff));
      }
      match r {
        Poll::Ready(()) => {
          self.live.fetch_sub(1, Ordering::SeqCst);
        }
        Poll::Pending => {
          *t.fut.lock().unwrap_or_else(|e| e.into_inner()) = Some(f);
          if t.notified.swap(false, Ordering::SeqCst) {
            self.ready.lock().unwrap_or_else(|e| e.into_inner()).push_back(t.clone());
          }
        }
      }
    }
    true
  }
  pub fn idle(&self) -> bool {
    self.ready.lock().unwrap_or_else(|e| e.into_inner()).is_empty()
  }
}

// ---------------------------------------------------------------------------
// scenario description
// ---------------------------------------------------------------------------

#[derive(Clone, Debug, PartialEq, Eq, Hash)]
pub enum TOp {
  Next(usize),
  Complete(usize),
  Error(usize),
  /// subscribe a fresh probe to the pipeline
  Subscribe,
  /// unsubscribe subscription #k (if it exists by then)
  Unsub(usize),
  /// BehaviorSubject only
  Peek,
  /// `unsubscribe()` on the subject itself (subject families only)
  UnsubSubject,
  /// `retain()` followed by `len()` on the subject (plain subject family only)
  Retain,
  /// `is_closed()` asked on a clone of the subject itself (plain subject family only)
  SubjectClosed,
}

#[derive(Clone, Debug, PartialEq, Eq, Hash)]
pub enum Kind {
  Subject,
  Behavior,
  /// pipeline over hot inputs built with the threads builder
  Pipe(Chain),
  /// one `hot[0].share_threads()` built once; every subscription is a clone of it
  Shared,
}

#[derive(Clone, Debug, PartialEq, Eq, Hash)]
pub struct Scen {
  pub name: &'static str,
  pub kind: Kind,
  pub n_hot: usize,
  /// probes subscribed before the threads start
  pub initial_subs: usize,
  pub threads: Vec<Vec<TOp>>,
  /// managed worker threads running scheduled tasks (observe_on / delay)
  pub workers: usize,
  /// how long a worker keeps turning after the producers finished (periodic tasks never go idle)
  pub worker_spins: u64,
}

pub struct Outcome {
  pub baton: BatonOutcome,
  pub evs: Vec<Ev>,
  pub overlaps: Vec<(u32, u32, u32)>,
  pub peek_at_end: Option<V>,
  pub spawned_tasks: usize,
  /// scheduled tasks not yet finished / virtual timers still registered when
  /// everything had run until idle (scenarios with workers only)
  pub live_tasks: usize,
  pub pending_timers: usize,
}

const CALL: u32 = 2000;

/// run one scenario under one baton schedule
pub fn run_scen(s: &Scen, seed: u64, strategy: Strategy) -> Outcome {
  let strategy_dbg = strategy.clone();
  let _ = &strategy_dbg;
  crate::vtime::reset();
  let log = Log::new();
  let pool = Pool::new();
  pool.set_log(&log);
  let hot: Vec<SubjectThreads<V, E>> = (0..s.n_hot).map(|_| SubjectThreads::default()).collect();
  let beh = BehaviorSubject::<V, SubjectThreads<V, E>>::new(V::I(5));
  let cx = threads::Ctx { hot: hot.clone(), stash: StashT::default(), sched: pool.scheduler(), log: log.clone(), base: Instant::now() };
  let subs: Arc<Mutex<Vec<Option<BoxSubscriptionThreads>>>> = Arc::new(Mutex::new(vec![]));
  let next_probe = Arc::new(AtomicUsize::new(1));
  let shared = {
    let b: rxrust::ops::box_it::BoxOpThreads<V, E> = hot[0].clone().box_it();
    Arc::new(Mutex::new(b.share_threads()))
  };
  let subscribe = {
    let (kind, cx, log, subs, next_probe, hot, beh) = (s.kind.clone(), cx.clone(), log.clone(), subs.clone(), next_probe.clone(), hot.clone(), beh.clone());
    let shared = shared.clone();
    move || {
      let id = next_probe.fetch_add(1, Ordering::SeqCst) as u32;
      let p = Probe::new(id, &log);
      let u = match &kind {
        Kind::Subject => BoxSubscriptionThreads::new(hot[0].clone().actual_subscribe(p)),
        Kind::Behavior => BoxSubscriptionThreads::new(beh.clone().actual_subscribe(p)),
        Kind::Pipe(c) => BoxSubscriptionThreads::new(threads::build(c, &cx).actual_subscribe(p)),
        Kind::Shared => {
          let sh = shared.lock().unwrap_or_else(|e| e.into_inner()).clone();
          BoxSubscriptionThreads::new(sh.actual_subscribe(p))
        }
      };
      let mut g = subs.lock().unwrap_or_else(|e| e.into_inner());
      g.push(Some(u));
      (id, g.len() - 1)
    }
  };
  for _ in 0..s.initial_subs {
    let (id, k) = subscribe();
    log.mark(CALL, "sub_ret", (id as i64) * 100 + k as i64);
  }
  let producers_left = Arc::new(AtomicUsize::new(s.threads.len()));
  let mut bodies: Vec<Box<dyn FnOnce() + Send>> = vec![];
  for (ti, script) in s.threads.iter().enumerate() {
    let script = script.clone();
    let (log, subs, hot, beh, kind) = (log.clone(), subs.clone(), hot.clone(), beh.clone(), s.kind.clone());
    let subscribe = subscribe.clone();
    let left = producers_left.clone();
    bodies.push(Box::new(move || {
      let mut counter = 0i64;
      for op in script {
        match op {
          TOp::Next(k) => {
            counter += 1;
            let v = (ti as i64 + 1) * 1000 + counter;
            log.mark(CALL + ti as u32, "next_call", v);
            match kind {
              Kind::Behavior => {
                let mut b = beh.clone();
                if counter % 2 == 0 {
                  // every other item goes through next_by (a function that ignores
                  // the current value, so that the emitted item stays identifiable)
                  Behavior::<V, E>::next_by(&mut b, move |_| V::I(v))
                } else {
                  Observer::<V, E>::next(&mut b, V::I(v))
                }
              }
              _ => hot[k].clone().next(V::I(v)),
            }
            log.mark(CALL + ti as u32, "next_ret", v);
          }
          TOp::Complete(k) | TOp::Error(k) => {
            let is_c = matches!(op, TOp::Complete(_));
            log.mark(CALL + ti as u32, "term_call", k as i64);
            match (&kind, is_c) {
              (Kind::Behavior, true) => Observer::<V, E>::complete(beh.clone()),
              (Kind::Behavior, false) => Observer::<V, E>::error(beh.clone(), 7),
              (_, true) => hot[k].clone().complete(),
              (_, false) => hot[k].clone().error(7 + k as i32),
            }
            log.mark(CALL + ti as u32, "term_ret", k as i64);
          }
          TOp::Subscribe => {
            log.mark(CALL + ti as u32, "sub_call", 0);
            let (id, k) = subscribe();
            log.mark(CALL + ti as u32, "sub_ret", (id as i64) * 100 + k as i64);
          }
          TOp::Unsub(k) => {
            let u = subs.lock().unwrap_or_else(|e| e.into_inner()).get_mut(k).and_then(|u| u.take());
            if let Some(u) = u {
              log.mark(CALL + ti as u32, "unsub_call", k as i64);
              u.unsubscribe();
              log.mark(CALL + ti as u32, "unsub_ret", k as i64);
            }
          }
          TOp::UnsubSubject => {
            log.mark(CALL + ti as u32, "term_call", 99);
            match kind {
              Kind::Behavior => beh.clone().unsubscribe(),
              _ => hot[0].clone().unsubscribe(),
            }
            log.mark(CALL + ti as u32, "term_ret", 99);
          }
          TOp::Peek => {
            let v = Behavior::<V, E>::peek(&beh);
            log.mark(CALL + ti as u32, "peek", v.int());
          }
          TOp::Retain => {
            if kind == Kind::Subject {
              let mut h = hot[0].clone();
              h.retain();
              let n = rxrust::subject::SubjectSize::len(&h);
              log.mark(CALL + ti as u32, "len", n as i64);
            }
          }
          TOp::SubjectClosed => {
            if kind == Kind::Subject {
              let c = hot[0].is_closed();
              log.mark(CALL + ti as u32, "subject_closed", c as i64);
            }
          }
        }
      }
      left.fetch_sub(1, Ordering::SeqCst);
    }));
  }
  // a "[fifo-worker]" scenario models a single-threaded FIFO pool on its own thread
  let fifo_worker = s.name.contains("fifo-worker");
  for wi in 0..s.workers {
    let (pool, left) = (pool.clone(), producers_left.clone());
    let spin_cap = s.worker_spins.max(50);
    bodies.push(Box::new(move || {
      let mut spins = 0u64;
      let mut pick = wi;
      loop {
        // timers of delay(0)-style tasks: fire whatever is pending
        for (id, _) in crate::vtime::pending() {
          crate::vtime::fire(id);
        }
        pick = pick.wrapping_mul(31).wrapping_add(7);
        let ran = pool.run_one(if fifo_worker { 0 } else { pick });
        if !ran && left.load(Ordering::SeqCst) == 0 && pool.idle() && crate::vtime::pending_count() == 0 {
          break;
        }
        spins += 1;
        if spins > spin_cap {
          break;
        }
        conc::yield_now();
      }
    }));
  }
  YIELD_IN_PROBE.store(true, Ordering::SeqCst);
  let baton = conc::baton_run(seed, strategy, bodies);
  YIELD_IN_PROBE.store(false, Ordering::SeqCst);
  // a worker may have given up (spin cap) before the producers scheduled their
  // last tasks: whatever is still scheduled runs now, FIFO, on this thread, so
  // that "the scheduler ran until idle" holds for every oracle
  if s.workers > 0 && baton.deadlock.is_none() && !baton.timed_out && !baton.livelock && baton.finished.iter().all(|f| *f) {
    let pool2 = pool.clone();
    let _ = catch(move || {
      for _ in 0..10_000 {
        for (id, _) in crate::vtime::pending() {
          crate::vtime::fire(id);
        }
        if !pool2.run_one(0) && crate::vtime::pending_count() == 0 {
          break;
        }
      }
    });
  }
  let peek_at_end = if s.kind == Kind::Behavior && baton.deadlock.is_none() && !baton.timed_out { Some(Behavior::<V, E>::peek(&beh)) } else { None };
  let out = Outcome { baton, evs: log.evs(), overlaps: log.overlaps(), peek_at_end, spawned_tasks: pool.spawned.load(Ordering::SeqCst), live_tasks: pool.live.load(Ordering::SeqCst), pending_timers: crate::vtime::pending_count() };
  // leak what the scenario built: if the run was abandoned (deadlock) its
  // cells may still be locked by parked threads; the recorded events are freed
  log.clear();
  std::mem::forget(subs);
  std::mem::forget(cx);
  out
}

// ---------------------------------------------------------------------------
// oracles
// ---------------------------------------------------------------------------

fn notes(evs: &[Ev], id: u32) -> Vec<N> {
  evs.iter().filter(|e| e.id == id).filter_map(|e| if let K::N(n) = &e.k { Some(n.clone()) } else { None }).collect()
}
fn probe_ids(evs: &[Ev]) -> Vec<u32> {
  let mut v: Vec<u32> = evs.iter().filter(|e| e.id < 1000 && matches!(e.k, K::N(_))).map(|e| e.id).collect();
  v.sort();
  v.dedup();
  v
}

/// universal: deadlock / panic / overlap / grammar / every call returned
pub fn universal(o: &Outcome) -> Option<(String, serde_json::Value)> {
  if let Some(w) = &o.baton.deadlock {
    return Some((
      "deadlock".into(),
      json!({"why": "every unfinished thread is blocked on a shared cell held by another blocked/paused thread",
             "wait_for": w.iter().map(|(t, a)| format!("thread {} waits for cell {:#x}", t, a & 0xffffff)).collect::<Vec<_>>(),
             "schedule_len": o.baton.trace.len()}),
    ));
  }
  if let Some((t, p)) = o.baton.panics.first() {
    return Some(("panic".into(), json!({"thread": t, "panic": p})));
  }
  if let Some((probe, a, b)) = o.overlaps.first() {
    return Some(("callback_overlap".into(), json!({"why": format!("probe {} was entered by thread {} while thread {} was still inside it", probe, b, a)})));
  }
  for id in probe_ids(&o.evs) {
    if let Some(g) = grammar_violation(&notes(&o.evs, id)) {
      return Some(("notification_after_terminal".into(), json!({"probe": id, "why": g})));
    }
  }
  None
}

/// all subscribers of one multicast point see shared items in one common order
pub fn common_order(o: &Outcome) -> Option<(String, serde_json::Value)> {
  let ids = probe_ids(&o.evs);
  let seqs: Vec<Vec<i64>> = ids.iter().map(|id| notes(&o.evs, *id).iter().filter_map(|n| if let N::Next(v) = n { Some(v.int()) } else { None }).filter(|v| *v >= 1000).collect()).collect();
  for (a, sa) in seqs.iter().enumerate() {
    let mut d = sa.clone();
    d.sort();
    d.dedup();
    if d.len() != sa.len() {
      return Some(("duplicate_delivery".into(), json!({"probe": ids[a], "saw": sa})));
    }
    for sb in seqs.iter().skip(a + 1) {
      let common_a: Vec<i64> = sa.iter().cloned().filter(|x| sb.contains(x)).collect();
      let common_b: Vec<i64> = sb.iter().cloned().filter(|x| sa.contains(x)).collect();
      if common_a != common_b {
        return Some(("no_common_order".into(), json!({"one": sa, "other": sb})));
      }
    }
  }
  None
}

fn mark_seq(evs: &[Ev], what: &str, v: i64) -> Option<u64> {
  evs.iter().find(|e| matches!(&e.k, K::Mark(w, x) if *w == what && *x == v)).map(|e| e.seq)
}

/// C06 interval oracle: must receive / must not receive
pub fn must_receive(o: &Outcome) -> Option<(String, serde_json::Value)> {
  // subscriptions: (probe id, sub index, sub_ret stamp, unsub_call, unsub_ret)
  let mut subs = vec![];
  for e in &o.evs {
    if let K::Mark("sub_ret", x) = e.k {
      let (id, k) = ((x / 100) as u32, x % 100);
      let ucall = mark_seq(&o.evs, "unsub_call", k);
      let uret = mark_seq(&o.evs, "unsub_ret", k);
      subs.push((id, e.seq, ucall, uret));
    }
  }
  let first_term_ret = o.evs.iter().filter(|e| matches!(e.k, K::Mark("term_ret", _))).map(|e| e.seq).min();
  let first_term_call = o.evs.iter().filter(|e| matches!(e.k, K::Mark("term_call", _))).map(|e| e.seq).min();
  for e in &o.evs {
    if let K::Mark("next_call", v) = e.k {
      let ncall = e.seq;
      let nret = mark_seq(&o.evs, "next_ret", v).unwrap_or(u64::MAX);
      for (id, sret, ucall, uret) in &subs {
        let got = notes(&o.evs, *id).iter().filter(|n| matches!(n, N::Next(x) if x.int() == v)).count();
        let must = *sret < ncall && ucall.map_or(true, |u| u > nret) && first_term_call.map_or(true, |t| t > nret);
        let must_not = uret.map_or(false, |u| u < ncall) || first_term_ret.map_or(false, |t| t < ncall);
        if must && got != 1 {
          return Some(("missed_item".into(), json!({"why": format!("probe {} was subscribed before next({}) began and not unsubscribed until it returned, but received it {} times", id, v, got)})));
        }
        if must_not && got != 0 {
          return Some(("delivery_after_unsubscribe_or_terminal".into(), json!({"why": format!("probe {} received {} although its unsubscribe()/the terminal had returned before next({}) was called", id, v, v)})));
        }
        if got > 1 {
          return Some(("duplicate_delivery".into(), json!({"probe": id, "item": v})));
        }
      }
    }
  }
  None
}

/// C11 (thread part): several subscribers on one share_threads() over a hot
/// subject. While at least one subscriber stays the connection stays, so the
/// interval oracle of the plain subject applies to every subscription; all
/// subscribers see one common order; nothing arrives after unsubscribe().
pub fn share_oracle(o: &Outcome) -> Option<(String, serde_json::Value)> {
  must_receive(o).or_else(|| common_order(o)).or_else(|| after_unsub(o))
}

/// C09 (thread part): debounce / throttle_time / buffer_with_time with their
/// timer tasks run by a worker thread while 1-2 producer threads emit: the
/// output consists only of emitted items, each at most once, each producer's
/// items in that producer's order; with buffer_with_time and a completing
/// source nothing is lost
pub fn rate_oracle(o: &Outcome, s: &Scen) -> Option<(String, serde_json::Value)> {
  let out = notes(&o.evs, 1);
  let mut leaves: Vec<i64> = vec![];
  for n in &out {
    if let N::Next(v) = n {
      v.leaves(&mut leaves);
    }
  }
  let emitted: Vec<i64> = o.evs.iter().filter_map(|e| if let K::Mark("next_call", v) = e.k { Some(v) } else { None }).collect();
  for v in &leaves {
    if !emitted.contains(v) {
      return Some(("invented_item".into(), json!({"item": v, "saw": leaves})));
    }
  }
  let mut d = leaves.clone();
  d.sort();
  d.dedup();
  if d.len() != leaves.len() {
    return Some(("duplicate_item".into(), json!({"saw": leaves})));
  }
  for t in 1..=s.threads.len() as i64 {
    let mine: Vec<i64> = leaves.iter().cloned().filter(|v| v / 1000 == t).collect();
    if mine.windows(2).any(|w| w[0] > w[1]) {
      return Some(("reordered".into(), json!({"saw": leaves})));
    }
  }
  // delivered before it was handed over?
  for e in &o.evs {
    if e.id == 1 {
      if let K::N(N::Next(v)) = &e.k {
        let mut l = vec![];
        v.leaves(&mut l);
        for x in l {
          if let Some(c) = mark_seq(&o.evs, "next_call", x) {
            if e.seq < c {
              return Some(("delivered_before_emitted".into(), json!({"item": x})));
            }
          }
        }
      }
    }
  }
  // buffers are never empty and never exceed the count limit
  if let Kind::Pipe(c) = &s.kind {
    let limit = c.ops.iter().find_map(|op| match op {
      Op::BufferWithCountAndTime(n, _) => Some(*n),
      Op::BufferWithTime(_) => Some(usize::MAX),
      _ => None,
    });
    if let Some(limit) = limit {
      for n in &out {
        if let N::Next(V::L(l)) = n {
          if l.is_empty() || l.len() > limit {
            return Some(("bad_buffer_size".into(), json!({"why": format!("a buffer of {} items was emitted (limit {})", l.len(), if limit == usize::MAX { "none".to_string() } else { limit.to_string() })})));
          }
        }
      }
    }
  }
  if s.name == "buffer_with_time+workers" || s.name == "buffer_with_count_and_time+workers" {
    let unsub = o.evs.iter().any(|e| matches!(e.k, K::Mark("unsub_call", _)));
    let errored = s.threads.iter().flatten().any(|op| matches!(op, TOp::Error(_)));
    let completed = out.last() == Some(&N::Complete);
    // items handed over (call returned) before the first terminal call must all be there
    let first_term = o.evs.iter().filter(|e| matches!(e.k, K::Mark("term_call", _))).map(|e| e.seq).min();
    if completed && !unsub && !errored {
      for e in &o.evs {
        if let K::Mark("next_ret", v) = e.k {
          if first_term.map_or(true, |t| e.seq < t) && !leaves.contains(&v) {
            return Some(("item_lost".into(), json!({"why": format!("next({}) returned before complete() was called, the buffered stream completed, but no buffer contains it", v), "saw": leaves})));
          }
        }
      }
    }
  }
  None
}

/// C07 (thread part): one producer thread, the operator's tasks on a FIFO worker
/// thread: items arrive in the source's order, all of them (then the terminal)
/// when the source completed, a prefix then the error when it failed
pub fn moved_oracle(o: &Outcome, s: &Scen) -> Option<(String, serde_json::Value)> {
  let out = notes(&o.evs, 1);
  let items: Vec<i64> = out.iter().filter_map(|n| if let N::Next(v) = n { Some(v.int()) } else { None }).collect();
  let emitted: Vec<i64> = o.evs.iter().filter_map(|e| if let K::Mark("next_call", v) = e.k { Some(v) } else { None }).collect();
  let show = |why: String| json!({"why": why, "emitted": emitted, "delivered": jn(&out)});
  let mut d = items.clone();
  d.sort();
  d.dedup();
  if d.len() != items.len() || items.iter().any(|v| !emitted.contains(v)) {
    return Some(("invented_or_duplicated".into(), show("an item was delivered twice or never emitted".into())));
  }
  if items.windows(2).any(|w| w[0] > w[1]) {
    return Some(("order_not_preserved".into(), show("the single producer's items were delivered out of order although the scheduler runs its tasks FIFO".into())));
  }
  let unsub = o.evs.iter().any(|e| matches!(e.k, K::Mark("unsub_call", _)));
  let term = s.threads[0].iter().find(|op| matches!(op, TOp::Complete(_) | TOp::Error(_)));
  if !unsub && !o.baton.timed_out {
    match term {
      Some(TOp::Complete(_)) => {
        let mut want: Vec<N> = emitted.iter().map(|v| N::Next(V::I(*v))).collect();
        want.push(N::Complete);
        if out != want {
          return Some(("items_or_terminal_lost".into(), show("the source completed and the worker ran until idle: every item and then the completion must have arrived".into())));
        }
      }
      Some(TOp::Error(_)) => {
        if !matches!(out.last(), Some(N::Err(_))) {
          return Some(("items_or_terminal_lost".into(), show("the source failed and the worker ran until idle: the error must have arrived".into())));
        }
      }
      _ => {
        if out.iter().any(|n| n.is_terminal()) {
          return Some(("invented_terminal".into(), show("a terminal arrived although the source did not terminate".into())));
        }
        if items != emitted {
          return Some(("items_or_terminal_lost".into(), show("the worker ran until idle: every item must have arrived".into())));
        }
      }
    }
  }
  None
}

/// C08 / C16 (thread part): interval(p).take(k) ticking on worker threads
pub fn interval_oracle(o: &Outcome, s: &Scen) -> Option<(String, serde_json::Value)> {
  let out = notes(&o.evs, 1);
  let items: Vec<i64> = out.iter().filter_map(|n| if let N::Next(v) = n { Some(v.int()) } else { None }).collect();
  let k = match &s.kind {
    Kind::Pipe(c) => c.ops.iter().find_map(|op| if let Op::Take(k) = op { Some(*k) } else { None }).unwrap_or(0),
    _ => 0,
  };
  let show = |why: String| json!({"why": why, "delivered": jn(&out), "live_tasks": o.live_tasks, "pending_timers": o.pending_timers});
  if items.iter().enumerate().any(|(i, v)| *v != i as i64) {
    return Some(("wrong_values".into(), show("interval must emit 0,1,2,... in order, each once".into())));
  }
  let unsub = o.evs.iter().any(|e| matches!(e.k, K::Mark("unsub_call", _)));
  if !unsub && (items.len() != k || out.last() != Some(&N::Complete)) {
    return Some(("wrong_values".into(), show(format!("take({}) over a ticking interval must deliver {} values and complete once the workers ran until idle", k, k))));
  }
  // the stream ended (take satisfied or unsubscribed) and everything ran until
  // idle: the periodic task must be gone (run-until-idle terminates)
  if o.live_tasks > 0 || o.pending_timers > 0 {
    return Some(("producer_not_retired".into(), show("the periodic task or its timer is still alive after the stream ended and the scheduler ran until idle".into())));
  }
  None
}

/// C09 (thread part), debounce and throttle_time: linearizability against the
/// sequential operator model with the timer tasks as operations. Operations:
/// every source call (next / complete / error, interval = call..return) and
/// every poll of a scheduled task that finished it (`End`, interval = the poll,
/// on the worker thread). A delivery to the probe belongs to the operation of
/// the same thread whose interval contains it. Some total order of the
/// operations that respects their real-time order must make the model emit,
/// operation by operation, exactly what was observed inside that operation.
pub fn rate_linearizable(o: &Outcome, s: &Scen) -> Option<(String, serde_json::Value)> {
  #[derive(Clone, Debug)]
  enum OpK {
    Item(i64),
    Complete,
    Error,
    End(i64),
  }
  #[derive(Clone, Debug)]
  struct OpRec {
    k: OpK,
    thread: u32,
    begin: u64,
    end: u64,
    out: Vec<N>,
    spawned: Vec<i64>,
  }
  let op = match &s.kind {
    Kind::Pipe(c) => c.ops.first().cloned(),
    _ => None,
  };
  let (is_debounce, edge) = match op {
    Some(Op::Debounce(_)) => (true, None),
    Some(Op::ThrottleTime(_, e)) => (false, Some(e)),
    _ => return None,
  };
  if s.threads.iter().flatten().any(|t| matches!(t, TOp::Unsub(_) | TOp::Subscribe | TOp::UnsubSubject)) || o.baton.timed_out {
    return None;
  }
  // collect operations
  let mut ops: Vec<OpRec> = vec![];
  let mut open: std::collections::HashMap<(u32, &'static str, i64), u64> = Default::default();
  for e in &o.evs {
    if let K::Mark(w, v) = e.k {
      match w {
        "next_call" | "term_call" => {
          open.insert((e.thread, w, v), e.seq);
        }
        "task_run" => {
          ops.push(OpRec { k: OpK::End(v & 0xffff), thread: e.thread, begin: (v >> 16) as u64, end: e.seq, out: vec![], spawned: vec![] });
        }
        "next_ret" => {
          if let Some(b) = open.remove(&(e.thread, "next_call", v)) {
            ops.push(OpRec { k: OpK::Item(v), thread: e.thread, begin: b, end: e.seq, out: vec![], spawned: vec![] });
          }
        }
        "term_ret" => {
          if let Some(b) = open.remove(&(e.thread, "term_call", v)) {
            // which terminal: look at the script of that thread
            let is_c = s.threads.iter().flatten().any(|t| matches!(t, TOp::Complete(_)));
            let is_e = s.threads.iter().flatten().any(|t| matches!(t, TOp::Error(_)));
            if is_c && is_e {
              return None; // both kinds scripted: attribution by value is ambiguous, skip
            }
            ops.push(OpRec { k: if is_c { OpK::Complete } else { OpK::Error }, thread: e.thread, begin: b, end: e.seq, out: vec![], spawned: vec![] });
          }
        }
        _ => {}
      }
    }
  }
  if !open.is_empty() {
    return None; // a call did not return: other oracles report that
  }
  // attribute deliveries and spawns
  for e in &o.evs {
    let attr = |ops: &mut Vec<OpRec>| ops.iter_mut().position(|r| r.thread == e.thread && r.begin < e.seq && e.seq < r.end);
    match &e.k {
      K::N(n) if e.id == 1 => match attr(&mut ops) {
        Some(i) => ops[i].out.push(n.clone()),
        None => return Some(("delivery_outside_any_operation".into(), json!({"why": format!("{:?} was delivered at stamp {} on thread {} outside every source call and task run", n, e.seq, e.thread)}))),
      },
      K::Mark("task_spawn", id) => {
        if let Some(i) = attr(&mut ops) {
          ops[i].spawned.push(*id);
        }
      }
      _ => {}
    }
  }
  // the search
  #[derive(Clone)]
  struct St {
    value: Option<i64>,
    live: Vec<i64>,
    done: bool,
  }
  fn step(is_debounce: bool, edge: Option<Edge>, st: &mut St, r: &OpRec) -> Option<Vec<N>> {
    let (leading, tailing) = match edge {
      Some(Edge::Leading) => (true, false),
      Some(Edge::Trailing) => (false, true),
      Some(Edge::All) => (true, true),
      None => (false, false),
    };
    match &r.k {
      OpK::Item(v) => {
        if st.done {
          return if r.spawned.is_empty() || true { Some(vec![]) } else { None };
        }
        if is_debounce {
          st.value = Some(*v);
          // the newest item's task is the only live one
          if r.spawned.len() != 1 {
            return None;
          }
          st.live = r.spawned.clone();
          Some(vec![])
        } else {
          let was_open = !st.live.is_empty();
          let mut out = vec![];
          if tailing {
            st.value = Some(*v);
          }
          if !was_open {
            // a new window opens with this item: its task must have been scheduled
            if r.spawned.is_empty() {
              return None;
            }
            if leading {
              st.value = None;
              out.push(N::Next(V::I(*v)));
            }
          }
          st.live.extend(r.spawned.iter().cloned());
          Some(out)
        }
      }
      OpK::End(k) => {
        if let Some(p) = st.live.iter().position(|x| x == k) {
          st.live.remove(p);
          if st.done {
            return Some(vec![]);
          }
          Some(st.value.take().map(|v| N::Next(V::I(v))).into_iter().collect())
        } else {
          // cancelled (or superseded) task: its poll does nothing
          Some(vec![])
        }
      }
      OpK::Complete => {
        if st.done {
          return Some(vec![]);
        }
        st.done = true;
        let mut out: Vec<N> = vec![];
        if is_debounce || tailing {
          if let Some(v) = st.value.take() {
            out.push(N::Next(V::I(v)));
          }
        }
        if !is_debounce {
          st.live.clear();
        }
        out.push(N::Complete);
        Some(out)
      }
      OpK::Error => {
        if st.done {
          return Some(vec![]);
        }
        st.done = true;
        if !is_debounce {
          st.live.clear();
        }
        None.or(Some(vec![N::Err(0)]))
      }
    }
  }
  fn same(a: &[N], b: &[N]) -> bool {
    a.len() == b.len() && a.iter().zip(b).all(|(x, y)| match (x, y) {
      (N::Err(_), N::Err(_)) => true,
      _ => x == y,
    })
  }
  fn search(is_debounce: bool, edge: Option<Edge>, ops: &[OpRec], used: &mut Vec<bool>, st: &St, budget: &mut usize) -> bool {
    if used.iter().all(|u| *u) {
      return true;
    }
    if *budget == 0 {
      return true; // search budget exhausted: no verdict (treated as held)
    }
    *budget -= 1;
    for i in 0..ops.len() {
      if used[i] {
        continue;
      }
      // minimal in the real-time order among the unused ones
      if (0..ops.len()).any(|j| !used[j] && j != i && ops[j].end < ops[i].begin) {
        continue;
      }
      let mut st2 = st.clone();
      if let Some(out) = step(is_debounce, edge, &mut st2, &ops[i]) {
        if same(&out, &ops[i].out) {
          used[i] = true;
          if search(is_debounce, edge, ops, used, &st2, budget) {
            used[i] = false;
            return true;
          }
          used[i] = false;
        }
      }
    }
    false
  }
  let mut used = vec![false; ops.len()];
  let mut budget = 200_000usize;
  let st = St { value: None, live: vec![], done: false };
  if search(is_debounce, edge, &ops, &mut used, &st, &mut budget) {
    None
  } else {
    Some((
      "not_linearizable".into(),
      json!({"why": "no order of the source calls and timer-task runs that respects their real-time order makes the sequential operator model emit what each of them was seen to emit",
             "operations": ops.iter().map(|r| format!("t{} [{}..{}] {:?} emitted {:?} scheduled {:?}", r.thread, r.begin, r.end, r.k, r.out, r.spawned)).collect::<Vec<_>>()}),
    ))
  }
}

/// C17 (thread part): a thread keeps asking `is_closed()` on the subscription of
/// `hot.<op>` while a producer thread emits and terminates and a worker thread
/// runs the scheduled tasks. Once a sample returned true nothing may begin on
/// the probe any more, and no later sample may be false.
pub fn closed_sampling_race(opk: usize, items: usize, error: bool, seed: u64, strategy: Strategy) -> (Option<(String, String)>, BatonOutcome, &'static str) {
  crate::vtime::reset();
  let log = Log::new();
  let pool = Pool::new();
  let hot: Vec<SubjectThreads<V, E>> = vec![SubjectThreads::default()];
  let cx = threads::Ctx { hot: hot.clone(), stash: StashT::default(), sched: pool.scheduler(), log: log.clone(), base: Instant::now() };
  let (name, op): (&'static str, Op) = match opk % 4 {
    0 => ("observe_on_threads", Op::ObserveOn),
    1 => ("delay_threads", Op::Delay(0)),
    2 => ("debounce", Op::Debounce(1)),
    _ => ("buffer_with_time", Op::BufferWithTime(1)),
  };
  let chain = Chain::new(Src::Hot(0), vec![op]);
  let u = BoxSubscriptionThreads::new(threads::build(&chain, &cx).actual_subscribe(Probe::new(1, &log)));
  let producers_left = Arc::new(AtomicUsize::new(1));
  let mut bodies: Vec<Box<dyn FnOnce() + Send>> = vec![];
  {
    let (mut h, left) = (hot[0].clone(), producers_left.clone());
    bodies.push(Box::new(move || {
      for i in 0..items {
        h.next(V::I(1001 + i as i64));
      }
      if error {
        h.clone().error(7)
      } else {
        h.clone().complete()
      }
      left.fetch_sub(1, Ordering::SeqCst);
    }));
  }
  {
    let log = log.clone();
    bodies.push(Box::new(move || {
      for _ in 0..6 {
        let c = u.is_closed();
        log.mark(CALL + 1, "closed_sample", c as i64);
        conc::yield_now();
      }
      std::mem::forget(u);
    }));
  }
  {
    let (pool, left) = (pool.clone(), producers_left.clone());
    bodies.push(Box::new(move || {
      let mut spins = 0;
      loop {
        for (id, _) in crate::vtime::pending() {
          crate::vtime::fire(id);
        }
        let ran = pool.run_one(0);
        if !ran && left.load(Ordering::SeqCst) == 0 && pool.idle() && crate::vtime::pending_count() == 0 {
          break;
        }
        spins += 1;
        if spins > 300 {
          break;
        }
        conc::yield_now();
      }
    }));
  }
  YIELD_IN_PROBE.store(true, Ordering::SeqCst);
  let out = conc::baton_run(seed, strategy, bodies);
  YIELD_IN_PROBE.store(false, Ordering::SeqCst);
  if out.deadlock.is_some() || out.timed_out || out.livelock {
    std::mem::forget(cx);
    return (None, out, name);
  }
  // whatever is still scheduled runs now
  let pool2 = pool.clone();
  let _ = catch(move || {
    for _ in 0..2_000 {
      for (id, _) in crate::vtime::pending() {
        crate::vtime::fire(id);
      }
      if !pool2.run_one(0) && crate::vtime::pending_count() == 0 {
        break;
      }
    }
  });
  let evs = log.evs();
  log.clear();
  let mut problem = None;
  let mut first_true: Option<u64> = None;
  for e in &evs {
    if let K::Mark("closed_sample", c) = e.k {
      if c == 1 && first_true.is_none() {
        first_true = Some(e.seq);
      }
      if c == 0 && first_true.is_some() {
        problem = Some(("is_closed_went_back_to_false".to_string(), format!("is_closed() returned true at stamp {} and false at stamp {}", first_true.unwrap(), e.seq)));
        break;
      }
    }
  }
  if problem.is_none() {
    if let Some(t) = first_true {
      if let Some(late) = evs.iter().find(|e| e.id == 1 && e.seq > t && matches!(e.k, K::N(_))) {
        problem = Some(("delivery_after_is_closed".to_string(), format!("is_closed() returned true at stamp {}; {:?} was delivered at stamp {}", t, late.k, late.seq)));
      }
    }
  }
  if let (None, Some((t, p))) = (&problem, out.panics.first()) {
    problem = Some(("panic".into(), format!("thread {} panicked: {}", t, p)));
  }
  (problem, out, name)
}

/// one subject, several subscribers: once a terminal has been delivered to anybody no item is
/// delivered to anybody, and whoever received an item and did not leave receives the terminal
pub fn terminal_consistency(o: &Outcome) -> Option<(String, serde_json::Value)> {
  if o.evs.iter().any(|e| matches!(e.k, K::Mark("term_call", 99))) {
    return None; // subject-level unsubscribe(): no terminal is owed to anybody
  }
  let ids = probe_ids(&o.evs);
  let first_term = o.evs.iter().find(|e| ids.contains(&e.id) && matches!(&e.k, K::N(n) if n.is_terminal()));
  if let Some(t) = first_term {
    if let Some(late) = o.evs.iter().find(|e| ids.contains(&e.id) && e.seq > t.seq && matches!(e.k, K::N(N::Next(_)))) {
      return Some((
        "item_after_terminal".into(),
        json!({"why": format!("probe {} received {:?} at stamp {} after probe {} had received {:?} at stamp {}", late.id, late.k, late.seq, t.id, t.k, t.seq)}),
      ));
    }
  }
  // the subject's own handle said "closed": nothing may be delivered through it afterwards
  if let Some(c) = o.evs.iter().find(|e| matches!(e.k, K::Mark("subject_closed", 1))) {
    if let Some(late) = o.evs.iter().find(|e| ids.contains(&e.id) && e.seq > c.seq && matches!(e.k, K::N(_))) {
      return Some((
        "delivery_after_subject_reported_closed".into(),
        json!({"why": format!("is_closed() on the subject returned true at stamp {}; probe {} received {:?} at stamp {}", c.seq, late.id, late.k, late.seq)}),
      ));
    }
  }
  let term_ret = o.evs.iter().filter(|e| matches!(e.k, K::Mark("term_ret", _))).map(|e| e.seq).min();
  if let Some(tr) = term_ret {
    // subscriptions: probe id -> unsubscribe call stamp (if any)
    for e in &o.evs {
      if let K::Mark("sub_ret", x) = e.k {
        let (id, k) = ((x / 100) as u32, x % 100);
        let ucall = mark_seq(&o.evs, "unsub_call", k);
        let got_item = o.evs.iter().any(|ev| ev.id == id && matches!(ev.k, K::N(N::Next(_))));
        let got_term = o.evs.iter().any(|ev| ev.id == id && matches!(&ev.k, K::N(n) if n.is_terminal()));
        if got_item && !got_term && ucall.map_or(true, |u| u > tr) {
          return Some((
            "terminal_missing".into(),
            json!({"why": format!("probe {} received items, was not unsubscribed before the terminal call returned (stamp {}), and never received a terminal", id, tr)}),
          ));
        }
      }
    }
  }
  None
}

/// C15 (thread part): `hot.finalize_threads(f)` subscribed by a subscribe_on task on a worker
/// thread while another thread unsubscribes: if the inner subscription was ever made (the spy
/// above finalize saw it) and the handle was unsubscribed, the callback ran exactly once
pub fn finalize_behind_subscribe_on(o: &Outcome) -> Option<(String, serde_json::Value)> {
  let fins = o.evs.iter().filter(|e| matches!(e.k, K::Mark("finalize", _))).count();
  if fins > 1 {
    return Some(("finalize_twice".into(), json!({"finalize_calls": fins})));
  }
  let subscribed = o.evs.iter().any(|e| e.id / 1000 == 47 && matches!(e.k, K::Subscribed));
  let unsub_ret = o.evs.iter().any(|e| matches!(e.k, K::Mark("unsub_ret", _)));
  if subscribed && unsub_ret && fins == 0 {
    return Some((
      "finalize_missing".into(),
      json!({"why": "the subscribe_on task subscribed finalize's upstream, the returned handle was unsubscribed (the call returned), everything scheduled has run, and the callback never ran"}),
    ));
  }
  if !subscribed && fins > 0 {
    return Some(("finalize_without_subscription".into(), json!({"why": "the callback ran although the inner subscription was never made"})));
  }
  None
}

/// C02: nothing *begins* on a probe after its unsubscribe() returned
pub fn after_unsub(o: &Outcome) -> Option<(String, serde_json::Value)> {
  for e in &o.evs {
    if let K::Mark("sub_ret", x) = e.k {
      let (id, k) = ((x / 100) as u32, x % 100);
      if let Some(uret) = mark_seq(&o.evs, "unsub_ret", k) {
        if let Some(late) = o.evs.iter().find(|ev| ev.id == id && ev.seq > uret && matches!(ev.k, K::N(_))) {
          return Some((
            "delivery_after_unsubscribe".into(),
            json!({"why": format!("probe {} received {:?} at stamp {} after its unsubscribe() returned at stamp {}", id, late.k, late.seq, uret)}),
          ));
        }
      }
    }
  }
  None
}

/// C05: conservation for merge_all_threads-like pipelines, completion not lost
pub fn flatten_oracle(o: &Outcome, s: &Scen) -> Option<(String, serde_json::Value)> {
  let out = notes(&o.evs, 1);
  let items: Vec<i64> = out.iter().filter_map(|n| if let N::Next(v) = n { Some(v.int()) } else { None }).collect();
  let mut d = items.clone();
  d.sort();
  d.dedup();
  if d.len() != items.len() {
    return Some(("duplicate_item".into(), json!({"saw": items})));
  }
  // per emitting thread (= per inner) order
  for t in 1..=s.threads.len() as i64 {
    let mine: Vec<i64> = items.iter().cloned().filter(|v| v / 1000 == t).collect();
    if mine.windows(2).any(|w| w[0] > w[1]) {
      return Some(("inner_order_broken".into(), json!({"saw": items})));
    }
  }
  // limit: tracked inners subscribed and not yet terminated / unsubscribed, at every log position
  if let Kind::Pipe(c) = &s.kind {
    let limit = c.ops.iter().find_map(|op| match op {
      Op::MergeAll(n, _) => Some(*n),
      Op::ConcatAll(_) | Op::ConcatMap(_) => Some(1),
      _ => None,
    });
    if let Some(limit) = limit {
      let mut live: std::collections::HashSet<u32> = Default::default();
      for e in &o.evs {
        if e.id >= 10_000 {
          match &e.k {
            K::Subscribed => {
              live.insert(e.id);
            }
            K::N(n) if n.is_terminal() => {
              live.remove(&e.id);
            }
            K::UnsubCall => {
              live.remove(&e.id);
            }
            _ => {}
          }
          if live.len() > limit {
            return Some(("limit_exceeded".into(), json!({"why": format!("{} inner observables subscribed at once, limit {}", live.len(), limit)})));
          }
        }
      }
    }
  }
  // early completion: when the output completed, the outer's complete() had
  // been called and every inner subscribed so far had completed
  if let Some(c) = o.evs.iter().find(|e| e.id == 1 && matches!(e.k, K::N(N::Complete))).map(|e| e.seq) {
    let outer_called = o.evs.iter().any(|e| e.seq < c && matches!(e.k, K::Mark("term_call", 0)));
    let open_inner = o.evs.iter().filter(|e| e.id >= 10_000 && e.seq < c && matches!(e.k, K::Subscribed)).any(|sub| {
      !o.evs.iter().any(|e| e.id == sub.id && e.seq < c && matches!(e.k, K::N(N::Complete)))
    });
    if !outer_called || open_inner {
      return Some(("completion_early".into(), json!({"why": format!("the merged stream completed while the outer had {}completed and an inner was {}still open", if outer_called { "" } else { "not " }, if open_inner { "" } else { "not " }), "saw": jn(&out)})));
    }
  }
  // completion: outer completed, every inner that was subscribed completed,
  // every outer item got its inner subscribed, nobody unsubscribed or failed
  let unsubbed = o.evs.iter().any(|e| matches!(e.k, K::Mark("unsub_call", _)));
  let errored = out.iter().any(|n| matches!(n, N::Err(_))) || s.threads.iter().flatten().any(|op| matches!(op, TOp::Error(_)));
  let outer_done = o.evs.iter().any(|e| matches!(e.k, K::Mark("term_ret", 0)));
  let outer_items = s.threads.iter().flatten().filter(|op| matches!(op, TOp::Next(0))).count();
  let spy_subs: Vec<u32> = o.evs.iter().filter(|e| e.id >= 10_000 && matches!(e.k, K::Subscribed)).map(|e| e.id).collect();
  // an inner is done when its spy saw the completion, or - judged from the calls, because an
  // operator that wrongly reports `finished` makes the subject skip it, spy included - when
  // complete() on its hot subject was called after the inner's subscription had returned, and
  // has itself returned
  let done_by_calls = |id: u32| -> bool {
    let Kind::Pipe(c) = &s.kind else { return false };
    let table = c.ops.iter().find_map(|op| match op {
      Op::MergeAll(_, t) | Op::ConcatAll(t) => Some(t),
      _ => None,
    });
    let Some(table) = table else { return false };
    let idx = (id / 1000) as usize;
    let Some(inner) = idx.checked_sub(20).and_then(|i| table.get(i)) else { return false };
    let Src::Hot(k) = inner.src else { return false };
    let Some(sub_done) = o.evs.iter().find(|e| e.id == id && matches!(e.k, K::Mark("sub_done", _))).map(|e| e.seq) else { return false };
    let completes = s.threads.iter().flatten().any(|op| matches!(op, TOp::Complete(x) if *x == k));
    let called = o.evs.iter().find(|e| matches!(e.k, K::Mark("term_call", v) if v == k as i64)).map(|e| e.seq);
    let returned = o.evs.iter().any(|e| matches!(e.k, K::Mark("term_ret", v) if v == k as i64));
    completes && returned && called.map_or(false, |c| c > sub_done)
  };
  let all_inner_done = spy_subs.iter().all(|id| o.evs.iter().any(|e| e.id == *id && matches!(e.k, K::N(N::Complete))) || done_by_calls(*id));
  // a queued inner may only keep waiting while `limit` inners are still open
  if let (Kind::Pipe(c), false, false) = (&s.kind, unsubbed, errored) {
    let limit = c.ops.iter().find_map(|op| match op {
      Op::MergeAll(n, _) => Some(*n),
      Op::ConcatAll(_) | Op::ConcatMap(_) => Some(1),
      _ => None,
    });
    let open = spy_subs.iter().filter(|id| !o.evs.iter().any(|e| e.id == **id && matches!(e.k, K::N(N::Complete)))).count();
    if let Some(limit) = limit {
      if spy_subs.len() < outer_items && open < limit {
        return Some((
          "queued_inner_never_started".into(),
          json!({"why": format!("all calls have returned: the outer emitted {} inner observables, only {} were ever subscribed and {} of them are still open, below the limit {}", outer_items, spy_subs.len(), open, limit), "saw": jn(&out)}),
        ));
      }
    }
  }
  if !unsubbed && !errored && outer_done && spy_subs.len() == outer_items && all_inner_done && out.last() != Some(&N::Complete) {
    return Some((
      "completion_missing".into(),
      json!({"why": "the outer stream and every inner stream completed (all calls returned) but the merged stream did not complete", "saw": jn(&out)}),
    ));
  }
  None
}

/// C12 (thread part, no terminal and no unsubscribe in the scripts): the probe
/// subscribed before the threads started receives every item whose next()
/// returned, exactly once
pub fn first_probe_receives_all(o: &Outcome) -> Option<(String, serde_json::Value)> {
  let got = notes(&o.evs, 1);
  for e in &o.evs {
    if let K::Mark("next_call", v) = e.k {
      if mark_seq(&o.evs, "next_ret", v).is_none() {
        continue;
      }
      let n = got.iter().filter(|n| matches!(n, N::Next(x) if x.int() == v)).count();
      if n != 1 {
        return Some((
          if n == 0 { "missed_item" } else { "duplicate_delivery" }.into(),
          json!({"why": format!("the subscriber present from the start received item {} {} times although next({}) returned and nothing terminated or unsubscribed", v, n, v)}),
        ));
      }
    }
  }
  None
}

/// C12: peek at quiescence is the last item of the common order; a late
/// subscriber sees [v] ++ suffix with v the element right before that suffix
pub fn behavior_oracle(o: &Outcome) -> Option<(String, serde_json::Value)> {
  let full = notes(&o.evs, 1); // probe 1 is subscribed before the threads start
  let order: Vec<i64> = full.iter().filter_map(|n| if let N::Next(v) = n { Some(v.int()) } else { None }).collect();
  let terminated = full.iter().any(|n| n.is_terminal());
  if let (Some(p), false) = (&o.peek_at_end, terminated) {
    if order.last() != Some(&p.int()) {
      return Some((
        "peek_is_not_last_delivered".into(),
        json!({"why": format!("at quiescence peek() = {} but the last item every subscriber observed is {:?}", p.int(), order.last()), "common_order": order}),
      ));
    }
  }
  for id in probe_ids(&o.evs) {
    if id == 1 {
      continue;
    }
    let mine: Vec<i64> = notes(&o.evs, id).iter().filter_map(|n| if let N::Next(v) = n { Some(v.int()) } else { None }).collect();
    if mine.is_empty() {
      continue;
    }
    // mine = [v] ++ suffix of order, v the element just before the suffix
    let suffix = &mine[1..];
    let ok = if suffix.is_empty() {
      order.contains(&mine[0])
    } else {
      match order.iter().position(|x| *x == suffix[0]) {
        Some(p) => order[p..].starts_with(suffix) && p > 0 && order[p - 1] == mine[0] && (terminated || order.len() - p == suffix.len()),
        None => false,
      }
    };
    if !ok && !terminated {
      return Some((
        "late_subscriber_inconsistent".into(),
        json!({"why": "a late subscriber's sequence is not [current value] followed by the suffix of the common order that follows that value", "late_subscriber": mine, "common_order": order}),
      ));
    }
  }
  None
}

/// C15: finalize ran at most once, and once if the subscription ended
pub fn finalize_oracle(o: &Outcome) -> Option<(String, serde_json::Value)> {
  let fins = o.evs.iter().filter(|e| matches!(e.k, K::Mark("finalize", _))).count();
  let ended = o.evs.iter().any(|e| matches!(e.k, K::Mark("unsub_ret", _))) || notes(&o.evs, 1).iter().any(|n| n.is_terminal());
  if fins > 1 {
    return Some(("finalize_twice".into(), json!({"finalize_calls": fins})));
  }
  if ended && fins == 0 {
    return Some(("finalize_missing".into(), json!({"why": "the subscription was terminated/unsubscribed (calls returned) but the callback never ran"})));
  }
  None
}

// ---------------------------------------------------------------------------
// scenario generators
// ---------------------------------------------------------------------------

fn script(r: &mut Rng, n_hot: usize, allow_sub: bool, allow_term: bool, max: usize) -> Vec<TOp> {
  let n = 1 + r.below(max);
  (0..n)
    .map(|_| match r.below(10) {
      0 if allow_term => TOp::Complete(r.below(n_hot)),
      1 if allow_term => TOp::Error(r.below(n_hot)),
      2 if allow_sub => TOp::Subscribe,
      3 => TOp::Unsub(r.below(2)),
      4 if allow_sub && allow_term && r.chance(1, 2) => TOp::UnsubSubject,
      5 if allow_sub && r.chance(1, 2) => TOp::Retain,
      6 if allow_sub && r.chance(1, 2) => TOp::SubjectClosed,
      _ => TOp::Next(r.below(n_hot)),
    })
    .collect()
}

pub fn two_input(name: &'static str) -> Chain {
  Chain::new(Src::Hot(0), vec![crate::props::c04::mk_op(name, Chain::hot(1))])
}

/// every scenario family of C10
pub fn random_scen(r: &mut Rng, family: usize) -> Scen {
  let nt = 2 + r.below(2);
  match family {
    0 => Scen { name: "subject_threads", kind: Kind::Subject, n_hot: 1, initial_subs: 2, threads: (0..nt).map(|_| script(r, 1, true, true, 4)).collect(), workers: 0, worker_spins: 0 },
    1 => Scen { name: "behavior_subject_threads", kind: Kind::Behavior, n_hot: 1, initial_subs: 1, threads: (0..nt).map(|_| script(r, 1, true, true, 4)).collect(), workers: 0, worker_spins: 0 },
    2..=8 => {
      let ops = ["merge", "zip", "combine_latest", "with_latest_from", "take_until", "skip_until", "sample"];
      let op = ops[family - 2];
      let names = ["merge_threads", "zip_threads", "combine_latest_threads", "with_latest_from_threads", "take_until_threads", "skip_until_threads", "sample_threads"];
      let mut threads: Vec<Vec<TOp>> = vec![];
      for t in 0..nt {
        // thread t drives input t%2, plus the occasional unsubscribe
        let k = t % 2;
        let mut s: Vec<TOp> = (0..1 + r.below(3)).map(|_| TOp::Next(k)).collect();
        match r.below(4) {
          0 => s.push(TOp::Complete(k)),
          1 => s.push(TOp::Error(k)),
          2 => s.insert(r.below(s.len() + 1), TOp::Unsub(0)),
          _ => {}
        }
        threads.push(s);
      }
      Scen { name: names[family - 2], kind: Kind::Pipe(two_input(op)), n_hot: 2, initial_subs: 1, threads, workers: 0, worker_spins: 0 }
    }
    9 => {
      // one shape in five: two hot inners running at the limit, a cold synchronous inner waiting
      // behind them, both hot inners completing on their own threads (two completions meeting in
      // the hand-over to the waiting inner)
      if r.chance(1, 5) {
        let table = vec![
          Chain::new(Src::Hot(1), vec![Op::Spy(20)]),
          Chain::new(Src::Hot(2), vec![Op::Spy(21)]),
          Chain::new(Src::Iter(vec![V::I(9000), V::I(9001)]), vec![Op::Spy(22)]),
        ];
        let chain = Chain::new(Src::Hot(0), vec![Op::Map(MapF::Add(-1001)), Op::MergeAll(2, table)]);
        let mut t0 = vec![TOp::Next(0), TOp::Next(0), TOp::Next(0)];
        if r.chance(3, 4) {
          t0.push(TOp::Complete(0));
        }
        let mut t1 = vec![TOp::Complete(1)];
        if r.chance(1, 2) {
          t1.insert(0, TOp::Next(1));
        }
        let mut t2 = vec![TOp::Complete(2)];
        if r.chance(1, 2) {
          t2.insert(0, TOp::Next(2));
        }
        return Scen { name: "merge_all_threads", kind: Kind::Pipe(chain), n_hot: 3, initial_subs: 1, threads: vec![t0, t1, t2], workers: 0, worker_spins: 0 };
      }
      // merge_all_threads: thread 0 drives the outer (indices), others the hot inners
      // 2-3 hot inners (so that inners really queue up behind the limit), limit biased to 1
      let nt = 3 + r.below(2);
      let k = nt - 1;
      let limit = if r.chance(1, 2) { 1 } else { 1 + r.below(k + 1) };
      // mostly hot inners; some cold synchronous ones (they emit and complete inside their subscription,
      // i.e. inside the hand-over from a finished inner when they had to wait for a slot)
      let table: Vec<Chain> = (0..k)
        .map(|i| {
          let src = match r.below(4) {
            0 => Src::Iter(vec![V::I(9000 + 10 * i as i64), V::I(9001 + 10 * i as i64)]),
            _ => Src::Hot(i + 1),
          };
          Chain::new(src, vec![Op::Spy(20 + i as u32)])
        })
        .collect();
      let chain = Chain::new(Src::Hot(0), vec![Op::Map(MapF::Add(-1001)), Op::MergeAll(limit, table)]);
      // outer items are (1)*1000+counter -> map to index counter-1
      let mut threads = vec![{
        let mut s: Vec<TOp> = (0..k).map(|_| TOp::Next(0)).collect();
        if r.chance(3, 4) {
          s.push(TOp::Complete(0));
        }
        s
      }];
      for i in 0..k {
        let mut s: Vec<TOp> = (0..r.below(3)).map(|_| TOp::Next(i + 1)).collect();
        if r.chance(4, 5) {
          s.push(TOp::Complete(i + 1));
        }
        threads.push(s);
      }
      if r.chance(1, 4) {
        let t = r.below(threads.len());
        let p = r.below(threads[t].len() + 1);
        threads[t].insert(p, TOp::Unsub(0));
      }
      Scen { name: "merge_all_threads", kind: Kind::Pipe(chain), n_hot: nt, initial_subs: 1, threads, workers: 0, worker_spins: 0 }
    }
    20 => {
      // several subscribers on one share_threads(): emissions race with
      // subscribers leaving and joining (the ref-count teardown path)
      if r.chance(1, 5) {
        // nobody subscribed yet: the threads race for the very first subscription (connect path)
        let nt = 2 + r.below(2);
        let threads: Vec<Vec<TOp>> = (0..nt)
          .map(|t| {
            let mut v = vec![TOp::Subscribe];
            // (nobody leaves here: re-joining after the count dropped to zero is unspecified)
            let _ = t;
            for _ in 0..r.below(3) {
              v.push(TOp::Next(0));
            }
            v
          })
          .collect();
        return Scen { name: "share_threads[multi]", kind: Kind::Shared, n_hot: 1, initial_subs: 0, threads, workers: 0, worker_spins: 0 };
      }
      let nt = 2 + r.below(2);
      let initial = 2 + r.below(2);
      // re-joining after the subscriber count dropped to zero is unspecified:
      // either subscription #0 stays for good, or nobody joins later
      let keep_first = r.chance(3, 4);
      let mut threads: Vec<Vec<TOp>> = (0..nt)
        .map(|_| {
          let n = 1 + r.below(4);
          (0..n)
            .map(|_| match r.below(10) {
              0 | 1 | 2 if keep_first => TOp::Unsub(1 + r.below(initial)),
              0 | 1 | 2 => TOp::Unsub(r.below(initial)),
              3 if keep_first => TOp::Subscribe,
              _ => TOp::Next(0),
            })
            .collect()
        })
        .collect();
      if r.chance(1, 4) {
        let t = r.below(nt);
        threads[t].push(if r.chance(1, 2) { TOp::Complete(0) } else { TOp::Error(0) });
      }
      Scen { name: "share_threads[multi]", kind: Kind::Shared, n_hot: 1, initial_subs: initial, threads, workers: 0, worker_spins: 0 }
    }
    10 => Scen {
      name: "finalize_threads",
      kind: Kind::Pipe(Chain::new(Src::Hot(0), vec![Op::Finalize(600)])),
      n_hot: 1,
      initial_subs: 1,
      threads: vec![
        {
          let mut s: Vec<TOp> = (0..r.below(3)).map(|_| TOp::Next(0)).collect();
          s.push(if r.chance(1, 2) { TOp::Complete(0) } else { TOp::Error(0) });
          if r.chance(1, 2) {
            s.push(TOp::Complete(0));
          }
          s
        },
        vec![TOp::Unsub(0)],
      ],
      workers: 0,
      worker_spins: 0,
    },
    11 => Scen {
      name: "share_threads",
      kind: Kind::Pipe(Chain::new(Src::Hot(0), vec![Op::Share])),
      n_hot: 1,
      initial_subs: 1,
      threads: (0..nt).map(|_| script(r, 1, false, true, 4)).collect(),
      workers: 0,
      worker_spins: 0,
    },
    12 | 13 => {
      let op = if family == 12 { Op::ObserveOn } else { Op::Delay(0) };
      Scen {
        name: if family == 12 { "observe_on_threads" } else { "delay_threads" },
        kind: Kind::Pipe(Chain::new(Src::Hot(0), vec![op])),
        n_hot: 1,
        initial_subs: 1,
        threads: (0..1 + r.below(2)).map(|_| script(r, 1, false, true, 3)).collect(),
        workers: 1 + r.below(2),
        worker_spins: 20_000,
      }
    }
    23 => {
      // a time source ticking on a worker thread: interval(1ms).take(k), the
      // worker fires the virtual timers; optionally another thread unsubscribes
      let k = 1 + r.below(4);
      let threads = vec![if r.chance(1, 2) { vec![TOp::Unsub(0)] } else { vec![] }];
      Scen {
        name: "interval+workers",
        kind: Kind::Pipe(Chain::new(Src::Interval(1), vec![Op::Take(k)])),
        n_hot: 1,
        initial_subs: 1,
        threads,
        workers: 1 + r.below(2),
        worker_spins: 400,
      }
    }
    26 => {
      // buffer(notifier) has no _threads twin but its cells are MutArc: the same two-thread
      // shape as the other two-input combinators (thread k drives input k)
      let mut threads: Vec<Vec<TOp>> = vec![];
      for t in 0..nt {
        let k = t % 2;
        let mut s: Vec<TOp> = (0..1 + r.below(3)).map(|_| TOp::Next(k)).collect();
        match r.below(4) {
          0 | 1 => s.push(TOp::Complete(k)),
          2 => s.push(TOp::Error(k)),
          _ => {}
        }
        threads.push(s);
      }
      Scen { name: "buffer[two threads]", kind: Kind::Pipe(two_input("buffer")), n_hot: 2, initial_subs: 1, threads, workers: 0, worker_spins: 0 }
    }
    27 => {
      // finalize behind subscribe_on: the subscribing task runs on a worker while another
      // thread unsubscribes the returned handle
      let mut prod: Vec<TOp> = (0..r.below(3)).map(|_| TOp::Next(0)).collect();
      if r.chance(1, 3) {
        prod.push(if r.chance(1, 2) { TOp::Complete(0) } else { TOp::Error(0) });
      }
      let chain = Chain::new(Src::Hot(0), vec![Op::Finalize(600), Op::Spy(47), Op::SubscribeOn]);
      Scen { name: "finalize+subscribe_on+workers", kind: Kind::Pipe(chain), n_hot: 1, initial_subs: 1, threads: vec![prod, vec![TOp::Unsub(0)]], workers: 1, worker_spins: 120 }
    }
    24 | 25 => {
      // more rate limiters whose timer tasks run on a worker thread
      let (name, op): (&'static str, Op) = if family == 24 {
        ("buffer_with_count_and_time+workers", Op::BufferWithCountAndTime(1 + r.below(3), 1))
      } else {
        ("sample(interval)+workers", Op::Sample(Box::new(Chain::new(Src::Interval(1), vec![]))))
      };
      let mut threads: Vec<Vec<TOp>> = (0..1 + r.below(2)).map(|_| script(r, 1, false, true, 4)).collect();
      if r.chance(1, 3) {
        threads.push(vec![TOp::Unsub(0)]);
      }
      Scen { name, kind: Kind::Pipe(Chain::new(Src::Hot(0), vec![op])), n_hot: 1, initial_subs: 1, threads, workers: 1, worker_spins: 150 }
    }
    21 | 22 => {
      // one producer thread, one FIFO worker thread (a single-threaded pool on
      // its own thread): the scheduler-moving operators must keep the order
      let op = if family == 21 { Op::ObserveOn } else { Op::Delay([0, 0, 1][r.below(3)]) };
      let mut prod: Vec<TOp> = (0..1 + r.below(4)).map(|_| TOp::Next(0)).collect();
      match r.below(4) {
        0 | 1 => prod.push(TOp::Complete(0)),
        2 => prod.push(TOp::Error(0)),
        _ => {}
      }
      let mut threads = vec![prod];
      if r.chance(1, 4) {
        threads.push(vec![TOp::Unsub(0)]);
      }
      Scen {
        name: if family == 21 { "observe_on_threads[fifo-worker]" } else { "delay_threads[fifo-worker]" },
        kind: Kind::Pipe(Chain::new(Src::Hot(0), vec![op])),
        n_hot: 1,
        initial_subs: 1,
        threads,
        workers: 1,
        worker_spins: 20_000,
      }
    }
    15..=18 => {
      // scheduler-using operators whose shared cells are MutArc even in the local form,
      // with managed workers running their tasks and firing their timers
      let (name, op): (&'static str, Op) = match family {
        15 => ("debounce+workers", Op::Debounce(1)),
        16 => ("throttle_time+workers", Op::ThrottleTime(1, [Edge::Leading, Edge::Trailing, Edge::All][r.below(3)])),
        17 => ("buffer_with_time+workers", Op::BufferWithTime(1)),
        _ => ("subscribe_on+workers", Op::SubscribeOn),
      };
      let mut threads: Vec<Vec<TOp>> = (0..1 + r.below(2)).map(|_| script(r, 1, false, true, 3)).collect();
      if r.chance(1, 2) {
        threads.push(vec![TOp::Unsub(0)]);
      }
      Scen { name, kind: Kind::Pipe(Chain::new(Src::Hot(0), vec![op])), n_hot: 1, initial_subs: 1, threads, workers: 1, worker_spins: 120 }
    }
    _ => {
      // a two-stage thread-safe pipeline: merge_threads feeding take_until_threads / finalize_threads
      let chain = Chain::new(Src::Hot(0), vec![Op::Merge(Box::new(Chain::hot(1))), Op::Finalize(600), Op::TakeUntil(Box::new(Chain::hot(2)))]);
      Scen { name: "merge+finalize+take_until_threads", kind: Kind::Pipe(chain), n_hot: 3, initial_subs: 1, threads: (0..3).map(|t| vec![TOp::Next(t), if r.chance(1, 2) { TOp::Complete(t) } else { TOp::Next(t) }]).collect(), workers: 0, worker_spins: 0 }
    }
  }
}

pub const FAMILIES: usize = 28;

pub fn strategy_for(r: &mut Rng) -> Strategy {
  match r.below(4) {
    0 => Strategy::Pct(1),
    1 => Strategy::Pct(2 + r.below(2) as u32),
    _ => Strategy::Uniform,
  }
}

/// Drive `n` schedules of scenarios produced by `gen`, judged by `oracle`
/// (after the universal oracle). Used by every property with a thread part.
pub fn campaign(
  cfg: &Cfg,
  rep: &mut Report,
  prefix: &str,
  n: usize,
  seed_salt: u64,
  gen: &mut dyn FnMut(&mut Rng) -> Scen,
  oracle: &dyn Fn(&Outcome, &Scen) -> Option<(String, serde_json::Value)>,
) {
  let mut rng = Rng::new(cfg.seed ^ seed_salt);
  let mut abandoned = 0;
  for i in 0..n {
    let mut r = rng.fork();
    if !cfg.mine(i) {
      continue;
    }
    let id = format!("{}:{}", prefix, i);
    if !cfg.wants(&id) {
      continue;
    }
    if abandoned >= 40 {
      rep.count("thread_runs_skipped_after_many_abandoned_schedules", 1);
      continue;
    }
    let s = gen(&mut r);
    let strategy = strategy_for(&mut r);
    let seed = r.next();
    rep.evaluations += 1;
    let o = run_scen(&s, seed, strategy.clone());
    rep.count("thread_schedules", 1);
    rep.count("thread_context_switches", o.baton.switches);
    rep.count("thread_scheduling_points", o.baton.points);
    rep.events += o.evs.len() as u64;
    rep.distinct("distinct_thread_schedules", hash64(&(&s, &o.baton.trace)));
    rep.set("thread_scenarios_covered", s.name);
    if o.baton.switches > 0 {
      rep.nontrivial.insert(hash64(&(&s, &o.baton.trace)));
    }
    if o.baton.timed_out || o.baton.livelock {
      abandoned += 1;
      rep.inconclusive.push(format!("{}: schedule abandoned ({}), scenario {}", id, if o.baton.livelock { "step bound" } else { "wall-clock watchdog" }, s.name));
      continue;
    }
    if o.baton.deadlock.is_some() {
      abandoned += 1;
    }
    let res = universal(&o).or_else(|| oracle(&o, &s));
    if let Some((kind, detail)) = res {
      rep.violation(
        &kind,
        s.name,
        &id,
        json!({"scenario": format!("{:?}", s), "strategy": format!("{:?}", strategy), "schedule": o.baton.trace.iter().map(|t| t.to_string()).collect::<Vec<_>>().join(""), "result": detail,
               "log": o.evs.iter().filter(|e| e.id < 3000).take(80).map(|e| format!("t{}#{}:{}:{:?}", e.thread, e.seq, e.id, e.k)).collect::<Vec<_>>()}),
      );
    } else {
      rep.sample_some(997, || {
        json!({"case": id, "scenario": s.name, "threads": format!("{:?}", s.threads), "strategy": format!("{:?}", strategy),
               "schedule": o.baton.trace.iter().map(|t| t.to_string()).collect::<Vec<_>>().join(""), "context_switches": o.baton.switches})
      });
    }
  }
}

/// keep `NormalReturn`/`OnceTask`/`Scheduler` referenced for the C19 thread part
pub fn schedule_once<S: Scheduler<OnceTask<(Log, u32), NormalReturn<()>>>>(s: &S, f: fn((Log, u32)) -> NormalReturn<()>, log: &Log, id: u32) -> rxrust::scheduler::TaskHandle<NormalReturn<()>> {
  s.schedule(OnceTask::new(f, (log.clone(), id)), None)
}

static _UNUSED: AtomicBool = AtomicBool::new(false);

// ---------------------------------------------------------------------------
// C19 thread part: a worker thread runs scheduled task bodies while another
// thread cancels their handles
// ---------------------------------------------------------------------------

fn body_with_point((log, id): (Log, u32)) -> NormalReturn<()> {
  log.mark(id, "run", 0);
  conc::yield_now();
  conc::yield_now();
  log.mark(id, "run_end", 0);
  NormalReturn::new(())
}

type VictimCell = Arc<Mutex<Option<rxrust::scheduler::TaskHandle<NormalReturn<()>>>>>;

/// a task whose body cancels another task's handle and then keeps running for a while
fn cancelling_body((log, victim, cell): (Log, u32, VictimCell)) -> NormalReturn<()> {
  let h = cell.lock().unwrap_or_else(|e| e.into_inner()).take();
  if let Some(h) = h {
    log.mark(victim, "cancel_call", 0);
    h.unsubscribe();
    log.mark(victim, "cancel_ret", 0);
  }
  conc::yield_now();
  conc::yield_now();
  conc::yield_now();
  NormalReturn::new(())
}

pub fn task_campaign(cfg: &Cfg, rep: &mut Report, n: usize) {
  let mut rng = Rng::new(cfg.seed ^ 0xC19F);
  for i in 0..n {
    let mut r = rng.fork();
    if !cfg.mine(i) {
      continue;
    }
    let id = format!("thr:{}", i);
    if !cfg.wants(&id) {
      continue;
    }
    let ntasks = 1 + r.below(3);
    let workers = 1 + r.below(2);
    let strategy = strategy_for(&mut r);
    let seed = r.next();
    crate::vtime::reset();
    let log = Log::new();
    let pool = Pool::new();
    let sched = pool.scheduler();
    let handles: Vec<_> = (0..ntasks).map(|t| schedule_once(&sched, body_with_point, &log, 10 + t as u32)).collect();
    // half of the runs hold every handle in its shared form (a cell with two owners, the form
    // debounce / throttle keep their pending task in): a second owner samples is_closed() and
    // unsubscribes on a thread of its own
    let shared_form = r.chance(1, 2);
    // a quarter of the plain-form runs cancel every handle from inside ANOTHER task's body
    // (which then keeps running on its worker), not from a thread outside the pool
    let cancel_from_task = !shared_form && r.chance(1, 2);
    let left = Arc::new(AtomicUsize::new(if shared_form { 2 } else { 1 }));
    let mut bodies: Vec<Box<dyn FnOnce() + Send>> = vec![];
    if cancel_from_task {
      rep.count("runs_cancelling_from_inside_another_task", 1);
      let mut cancellers = vec![];
      for (t, h) in handles.into_iter().enumerate() {
        let cell: VictimCell = Arc::new(Mutex::new(Some(h)));
        cancellers.push(sched.schedule(OnceTask::new(cancelling_body, (log.clone(), 10 + t as u32, cell)), None));
      }
      let left = left.clone();
      bodies.push(Box::new(move || {
        conc::yield_now();
        std::mem::forget(cancellers);
        left.fetch_sub(1, Ordering::SeqCst);
      }));
    } else if shared_form {
      rep.count("runs_with_handles_shared_by_two_owners", 1);
      let cells: Vec<rxrust::rc::MutArc<Option<rxrust::scheduler::TaskHandle<NormalReturn<()>>>>> = handles.into_iter().map(|h| rxrust::rc::MutArc::own(Some(h))).collect();
      for owner in 0..2u32 {
        let (log, left, cells) = (log.clone(), left.clone(), cells.clone());
        let pre_yields = r.below(4);
        let samples = if owner == 1 { 1 + r.below(3) } else { 0 };
        bodies.push(Box::new(move || {
          for _ in 0..pre_yields {
            conc::yield_now();
          }
          for (t, h) in cells.into_iter().enumerate() {
            for _ in 0..samples {
              log.mark(10 + t as u32, "closed_call", 0);
              let c = h.is_closed();
              log.mark(10 + t as u32, if c { "closed_true" } else { "closed_false" }, 0);
              conc::yield_now();
            }
            log.mark(10 + t as u32, if owner == 0 { "cancel_call" } else { "cancel2_call" }, 0);
            h.unsubscribe();
            log.mark(10 + t as u32, if owner == 0 { "cancel_ret" } else { "cancel2_ret" }, 0);
            conc::yield_now();
          }
          left.fetch_sub(1, Ordering::SeqCst);
        }));
      }
    } else {
      let (log, left) = (log.clone(), left.clone());
      let pre_yields = r.below(4);
      // the owner asks is_closed() on the handle itself before it cancels
      let samples = r.below(3);
      bodies.push(Box::new(move || {
        for _ in 0..pre_yields {
          conc::yield_now();
        }
        for (t, h) in handles.into_iter().enumerate() {
          for _ in 0..samples {
            log.mark(10 + t as u32, "closed_call", 0);
            let c = h.is_closed();
            log.mark(10 + t as u32, if c { "closed_true" } else { "closed_false" }, 0);
            conc::yield_now();
          }
          log.mark(10 + t as u32, "cancel_call", 0);
          h.unsubscribe();
          log.mark(10 + t as u32, "cancel_ret", 0);
          conc::yield_now();
        }
        left.fetch_sub(1, Ordering::SeqCst);
      }));
    }
    for wi in 0..workers {
      let (pool, left) = (pool.clone(), left.clone());
      bodies.push(Box::new(move || {
        let mut spins = 0;
        let mut pick = wi;
        loop {
          pick = pick.wrapping_mul(31).wrapping_add(7);
          let ran = pool.run_one(pick);
          if !ran && left.load(Ordering::SeqCst) == 0 && pool.idle() {
            break;
          }
          spins += 1;
          if spins > 5_000 {
            break;
          }
          conc::yield_now();
        }
      }));
    }
    rep.evaluations += 1;
    let b = conc::baton_run(seed, strategy.clone(), bodies);
    let evs = log.evs();
    rep.count("thread_schedules", 1);
    rep.count("thread_context_switches", b.switches);
    rep.events += evs.len() as u64;
    rep.distinct("distinct_thread_schedules", hash64(&(ntasks, workers, &b.trace)));
    rep.set("thread_scenarios_covered", "worker_vs_canceller");
    if b.timed_out || b.livelock {
      rep.inconclusive.push(format!("{}: schedule abandoned", id));
      continue;
    }
    let mut res: Option<(String, serde_json::Value)> = None;
    if let Some(w) = &b.deadlock {
      res = Some(("deadlock".into(), json!({"wait_for": format!("{:?}", w)})));
    } else if let Some((t, p)) = b.panics.first() {
      res = Some(("panic".into(), json!({"thread": t, "panic": p})));
    } else {
      for t in 0..ntasks as u32 {
        let id = 10 + t;
        let seq = |w: &str| evs.iter().find(|e| e.id == id && matches!(&e.k, K::Mark(x, _) if *x == w)).map(|e| e.seq);
        let (run, end, cret) = (seq("run"), seq("run_end"), seq("cancel_ret"));
        let runs = evs.iter().filter(|e| e.id == id && matches!(e.k, K::Mark("run", _))).count();
        if runs > 1 {
          res = Some(("ran_twice".into(), json!({"task": t})));
        }
        if let (Some(run), Some(cret)) = (run, cret) {
          let cancelled_mid = run < cret;
          if run > cret {
            res = Some(("ran_after_cancel".into(), json!({"why": format!("task {} body started at stamp {} after unsubscribe() returned at {}", t, run, cret)})));
          } else if end.map_or(true, |e| e > cret) {
            res = Some(("still_running_after_cancel".into(), json!({"why": format!("task {} body was still running (end stamp {:?}) when unsubscribe() returned at {}", t, end, cret)})));
          }
          if cancelled_mid {
            rep.count("cancellations_while_body_running_or_done", 1);
          }
        }
        // the second owner of a shared handle: its unsubscribe() and every is_closed() == true
        // are held to the same standard (the task can no longer act)
        for e in evs.iter().filter(|e| e.id == id) {
          match &e.k {
            K::Mark("closed_true", _) => rep.count("is_closed_samples_true", 1),
            K::Mark("closed_false", _) => rep.count("is_closed_samples_false", 1),
            _ => {}
          }
          let what = match &e.k {
            K::Mark("cancel2_ret", _) => "the second owner's unsubscribe() returned",
            K::Mark("closed_true", _) => "is_closed() returned true",
            _ => continue,
          };
          if let Some(run) = run {
            if run > e.seq {
              res = Some(("ran_after_cancel".into(), json!({"why": format!("task {} body started at stamp {} after {} at {}", t, run, what, e.seq)})));
            } else if end.map_or(true, |x| x > e.seq) {
              res = Some(("still_running_after_cancel".into(), json!({"why": format!("task {} body was still running (end stamp {:?}) when {} at {}", t, end, what, e.seq)})));
            }
          }
        }
      }
    }
    if b.switches > 0 {
      rep.nontrivial.insert(hash64(&(ntasks, workers, &b.trace)));
    }
    if let Some((kind, detail)) = res {
      rep.violation(&kind, "task_handle_threads", &id, json!({"tasks": ntasks, "workers": workers, "strategy": format!("{:?}", strategy),
        "schedule": b.trace.iter().map(|t| t.to_string()).collect::<Vec<_>>().join(""), "result": detail,
        "log": evs.iter().map(|e| format!("t{}#{}:{}:{:?}", e.thread, e.seq, e.id, e.k)).collect::<Vec<_>>()}));
    }
  }
}

// ---------------------------------------------------------------------------
// free-run (no baton): plain OS threads; used under Miri, whose own
// preemptive scheduler and deadlock / data-race detection are the oracle
// ---------------------------------------------------------------------------

pub fn run_scen_free(s: &Scen) -> Outcome {
  run_scen_free_mode(s, conc::OFF, 0)
}

/// plain OS threads running truly in parallel; `mode` FREE injects seeded
/// yields / spins / micro-sleeps at every lock point. A thread that does not
/// finish within 20 s is reported through `timed_out` (no logical witness:
/// inconclusive, never a violation).
pub fn run_scen_free_mode(s: &Scen, mode: u8, seed: u64) -> Outcome {
  let prev = conc::mode();
  conc::set_mode(mode);
  crate::vtime::reset();
  let log = Log::new();
  let pool = Pool::new();
  pool.set_log(&log);
  let hot: Vec<SubjectThreads<V, E>> = (0..s.n_hot).map(|_| SubjectThreads::default()).collect();
  let beh = BehaviorSubject::<V, SubjectThreads<V, E>>::new(V::I(5));
  let cx = threads::Ctx { hot: hot.clone(), stash: StashT::default(), sched: pool.scheduler(), log: log.clone(), base: Instant::now() };
  let subs: Arc<Mutex<Vec<Option<BoxSubscriptionThreads>>>> = Arc::new(Mutex::new(vec![]));
  let shared = {
    let b: rxrust::ops::box_it::BoxOpThreads<V, E> = hot[0].clone().box_it();
    b.share_threads()
  };
  let mk_sub = |id: u32| {
    let p = Probe::new(id, &log);
    let u = match &s.kind {
      Kind::Subject => BoxSubscriptionThreads::new(hot[0].clone().actual_subscribe(p)),
      Kind::Behavior => BoxSubscriptionThreads::new(beh.clone().actual_subscribe(p)),
      Kind::Pipe(c) => BoxSubscriptionThreads::new(threads::build(c, &cx).actual_subscribe(p)),
      Kind::Shared => BoxSubscriptionThreads::new(shared.clone().actual_subscribe(p)),
    };
    let mut g = subs.lock().unwrap();
    g.push(Some(u));
    log.mark(CALL, "sub_ret", (id as i64) * 100 + (g.len() - 1) as i64);
  };
  for i in 0..s.initial_subs {
    mk_sub(1 + i as u32);
  }
  let left = Arc::new(AtomicUsize::new(s.threads.len()));
  let done = Arc::new(AtomicUsize::new(0));
  let total_threads = s.threads.len() + s.workers;
  for (ti, script) in s.threads.iter().enumerate() {
    let (script, hot, beh, kind, subs, left, log, done) = (script.clone(), hot.clone(), beh.clone(), s.kind.clone(), subs.clone(), left.clone(), log.clone(), done.clone());
    std::thread::spawn(move || {
      set_thread_id(ti as u32 + 1);
      conc::free_seed(seed ^ (ti as u64 + 1).wrapping_mul(0x9E3779B97F4A7C15));
      let mut counter = 0;
      for op in script {
        match op {
          TOp::Next(k) => {
            counter += 1;
            let v = (ti as i64 + 1) * 1000 + counter;
            log.mark(CALL + ti as u32, "next_call", v);
            match kind {
              Kind::Behavior => {
                let mut b = beh.clone();
                if counter % 2 == 0 {
                  // every other item goes through next_by (a function that ignores
                  // the current value, so that the emitted item stays identifiable)
                  Behavior::<V, E>::next_by(&mut b, move |_| V::I(v))
                } else {
                  Observer::<V, E>::next(&mut b, V::I(v))
                }
              }
              _ => hot[k].clone().next(V::I(v)),
            }
            log.mark(CALL + ti as u32, "next_ret", v);
          }
          TOp::Complete(k) | TOp::Error(k) => {
            let is_c = matches!(op, TOp::Complete(_));
            log.mark(CALL + ti as u32, "term_call", k as i64);
            match (&kind, is_c) {
              (Kind::Behavior, true) => Observer::<V, E>::complete(beh.clone()),
              (Kind::Behavior, false) => Observer::<V, E>::error(beh.clone(), 7),
              (_, true) => hot[k].clone().complete(),
              (_, false) => hot[k].clone().error(7 + k as i32),
            }
            log.mark(CALL + ti as u32, "term_ret", k as i64);
          }
          TOp::Unsub(k) => {
            let u = subs.lock().unwrap().get_mut(k).and_then(|u| u.take());
            if let Some(u) = u {
              log.mark(CALL + ti as u32, "unsub_call", k as i64);
              u.unsubscribe();
              log.mark(CALL + ti as u32, "unsub_ret", k as i64);
            }
          }
          TOp::UnsubSubject => {
            log.mark(CALL + ti as u32, "term_call", 99);
            match kind {
              Kind::Behavior => beh.clone().unsubscribe(),
              _ => hot[0].clone().unsubscribe(),
            }
            log.mark(CALL + ti as u32, "term_ret", 99);
          }
          TOp::Retain => {
            if kind == Kind::Subject {
              let mut h = hot[0].clone();
              h.retain();
              let n = rxrust::subject::SubjectSize::len(&h);
              log.mark(CALL + ti as u32, "len", n as i64);
            }
          }
          TOp::SubjectClosed => {
            if kind == Kind::Subject {
              let c = hot[0].is_closed();
              log.mark(CALL + ti as u32, "subject_closed", c as i64);
            }
          }
          TOp::Subscribe | TOp::Peek => {}
        }
      }
      left.fetch_sub(1, Ordering::SeqCst);
      done.fetch_add(1, Ordering::SeqCst);
    });
  }
  let fifo_worker = s.name.contains("fifo-worker");
  for wi in 0..s.workers {
    let (pool, left, done) = (pool.clone(), left.clone(), done.clone());
    let cap = s.worker_spins.max(200);
    std::thread::spawn(move || {
      set_thread_id(10 + wi as u32);
      conc::free_seed(seed ^ (wi as u64 + 77).wrapping_mul(0x9E3779B97F4A7C15));
      let mut spins = 0u64;
      loop {
        for (id, _) in crate::vtime::pending() {
          crate::vtime::fire(id);
        }
        let ran = pool.run_one(if fifo_worker { 0 } else { spins as usize });
        if !ran && left.load(Ordering::SeqCst) == 0 && pool.idle() && crate::vtime::pending_count() == 0 {
          break;
        }
        spins += 1;
        if spins > cap {
          break;
        }
        std::thread::yield_now();
      }
      done.fetch_add(1, Ordering::SeqCst);
    });
  }
  // wait for all threads (they are never joined: a hung thread must not hang the shard)
  let t0 = Instant::now();
  let mut timed_out = false;
  while done.load(Ordering::SeqCst) < total_threads {
    if t0.elapsed() > std::time::Duration::from_secs(20) {
      timed_out = true;
      break;
    }
    std::thread::yield_now();
  }
  conc::set_mode(prev);
  if s.workers > 0 && !timed_out {
    let pool2 = pool.clone();
    let _ = catch(move || {
      for _ in 0..10_000 {
        for (id, _) in crate::vtime::pending() {
          crate::vtime::fire(id);
        }
        if !pool2.run_one(0) && crate::vtime::pending_count() == 0 {
          break;
        }
      }
    });
  }
  let panics: Vec<(usize, String)> = vec![];
  let baton = BatonOutcome { panics, finished: vec![!timed_out; s.threads.len()], timed_out, ..Default::default() };
  let out = Outcome { baton, evs: log.evs(), overlaps: log.overlaps(), peek_at_end: None, spawned_tasks: 0, live_tasks: pool.live.load(Ordering::SeqCst), pending_timers: crate::vtime::pending_count() };
  log.clear();
  if timed_out {
    std::mem::forget(subs);
    std::mem::forget(cx);
  }
  out
}

/// `--mode miri`: a handful of tiny scenarios per process; prints one JSON line
pub fn miri_main(cfg: &Cfg) {
  let mut r = Rng::new(cfg.seed ^ 0x3141);
  let mut results = vec![];
  let fams: Vec<usize> = match cfg.prop.as_str() {
    "C04" => (2..=8).collect(),
    "C05" => vec![9],
    "C06" => vec![0],
    "C11" => vec![20],
    "C12" => vec![1],
    "C15" => vec![10],
    // worker families spin on the pool: under the interpreter they mostly hit the wall-clock watchdog
    _ => (0..FAMILIES).filter(|f| !matches!(f, 12 | 13 | 15..=18 | 21..=25 | 27)).collect(),
  };
  for i in 0..cfg.n(2, 3) {
    // every other scenario is the merge_all family (queued inners + unsubscribe: the richest lock graph)
    let fam = if cfg.prop == "C10" && i % 2 == 1 { 9 } else { fams[(cfg.seed as usize + i * 3) % fams.len()] };
    let mut s = random_scen(&mut r, fam);
    // tiny: two threads with at most two operations each (merge_all: three threads, three operations)
    let (nt, no) = if fam == 9 { (3, 3) } else { (2, 2) };
    s.threads.truncate(nt);
    for t in s.threads.iter_mut() {
      t.truncate(no);
    }
    if fam == 9 && !s.threads.iter().flatten().any(|op| matches!(op, TOp::Unsub(_))) {
      s.threads[0].push(TOp::Unsub(0));
    }
    let o = run_scen_free(&s);
    if o.baton.timed_out {
      // wall-clock watchdog under the (slow) interpreter: no verdict
      results.push(json!({"scenario": s.name, "events": o.evs.len(), "violation": null, "inconclusive": "a thread did not finish within the wall-clock watchdog under the interpreter"}));
      continue;
    }
    let v = universal(&o).or_else(|| match (cfg.prop.as_str(), &s.kind) {
      // the full C10 oracle (common order, merge_all oracle, linearizability, share) also under Miri's scheduler
      ("C10", _) => super::c10::oracle(&o, &s),
      ("C04", _) => two_input_name(&s).and_then(|name| linearizable(&o, &s, name)),
      ("C05", _) => flatten_oracle(&o, &s),
      ("C11", _) => share_oracle(&o),
      ("C06", _) => must_receive(&o).or_else(|| common_order(&o)),
      ("C12", _) if !s.threads.iter().flatten().any(|op| matches!(op, TOp::Complete(_) | TOp::Error(_) | TOp::Unsub(_) | TOp::UnsubSubject)) => first_probe_receives_all(&o),
      (_, Kind::Subject) => common_order(&o),
      _ => None,
    });
    results.push(json!({"scenario": s.name, "events": o.evs.len(), "violation": v.map(|(k, d)| json!({"kind": k, "detail": d}))}));
  }
  println!("MIRI-RESULT {}", serde_json::to_string(&results).unwrap());
}


// ---------------------------------------------------------------------------
// systematic exploration: every schedule with at most `bound` preemptions
// ---------------------------------------------------------------------------

/// Enumerates, for one scenario, all baton schedules in which the running
/// thread is preempted at most `bound` times (forced switches when a thread
/// blocks or finishes are free). Returns (schedules run, distinct traces).
pub fn systematic(
  cfg: &Cfg,
  rep: &mut Report,
  id_prefix: &str,
  s: &Scen,
  bound: usize,
  cap: usize,
  oracle: &dyn Fn(&Outcome, &Scen) -> Option<(String, serde_json::Value)>,
) -> (usize, usize) {
  // replaying one case: only the scenario that case belongs to is explored
  if let Some(c) = &cfg.only_case {
    if !c.starts_with(&format!("{}:", id_prefix)) {
      return (0, 0);
    }
  }
  let n = s.threads.len() + s.workers;
  let mut seen: std::collections::HashSet<Vec<u8>> = Default::default();
  let mut stack: Vec<Vec<(u64, usize)>> = vec![vec![]];
  let mut runs = 0;
  while let Some(prefix) = stack.pop() {
    if runs >= cap {
      rep.count("systematic_scenarios_capped", 1);
      break;
    }
    let o = run_scen(s, 0, Strategy::Fixed(prefix.clone()));
    runs += 1;
    rep.evaluations += 1;
    rep.events += o.evs.len() as u64;
    rep.count("systematic_schedules", 1);
    if o.baton.timed_out || o.baton.livelock {
      rep.inconclusive.push(format!("{}: systematic schedule abandoned ({:?})", id_prefix, prefix));
      continue;
    }
    let fresh = seen.insert(o.baton.trace.clone());
    if fresh {
      rep.distinct("distinct_thread_schedules", hash64(&(s, &o.baton.trace)));
      if o.baton.switches > 0 {
        rep.nontrivial.insert(hash64(&(s, &o.baton.trace)));
      }
      if let Some((kind, detail)) = universal(&o).or_else(|| oracle(&o, s)) {
        let id = format!("{}:{}", id_prefix, prefix.iter().map(|(p, t)| format!("{}@{}", t, p)).collect::<Vec<_>>().join(","));
        if cfg.wants(&id) || cfg.only_case.is_none() {
          rep.violation(&kind, s.name, &id, json!({"scenario": format!("{:?}", s), "preemptions": format!("{:?}", prefix),
            "schedule": o.baton.trace.iter().map(|t| t.to_string()).collect::<Vec<_>>().join(""), "result": detail,
            "log": o.evs.iter().filter(|e| e.id < 3000).take(80).map(|e| format!("t{}#{}:{}:{:?}", e.thread, e.seq, e.id, e.k)).collect::<Vec<_>>()}));
        }
      }
    }
    if prefix.len() < bound && o.baton.deadlock.is_none() {
      let from = prefix.last().map_or(0, |(p, _)| *p);
      // extend with one more preemption at any later point of THIS schedule
      for p in (from + 1)..=o.baton.points {
        for t in 0..n {
          let mut next = prefix.clone();
          next.push((p, t));
          stack.push(next);
        }
      }
    }
  }
  (runs, seen.len())
}

/// systematic phase for a property's thread part: `per` scenarios of each listed family
pub fn systematic_families(
  cfg: &Cfg,
  rep: &mut Report,
  salt: u64,
  fams: &[usize],
  tweak: &dyn Fn(&mut Scen, &mut Rng),
  oracle: &dyn Fn(&Outcome, &Scen) -> Option<(String, serde_json::Value)>,
) {
  let per = cfg.n(3, 10);
  let bound = cfg.n(1, 2);
  let mut idx = 0usize;
  for fam in fams {
    for k in 0..per {
      idx += 1;
      if !cfg.mine(idx) {
        continue;
      }
      let mut r = Rng::new(cfg.seed ^ salt ^ (*fam as u64 * 1000 + k as u64));
      let mut s = random_scen(&mut r, *fam);
      for t in s.threads.iter_mut() {
        t.truncate(3);
      }
      s.workers = s.workers.min(1);
      tweak(&mut s, &mut r);
      systematic(cfg, rep, &format!("sys:{}:{}", fam, k), &s, bound, cfg.n(4_000, 60_000), oracle);
      rep.count("systematic_scenarios", 1);
      rep.set("thread_scenarios_covered", s.name);
    }
  }
}

// ---------------------------------------------------------------------------
// linearizability of the thread-safe two-input combinators: the observed
// output must be what the timeline model allows for SOME total order of the
// concurrent calls that respects their call/return stamps
// ---------------------------------------------------------------------------

pub fn linearizable(o: &Outcome, s: &Scen, opname: &str) -> Option<(String, serde_json::Value)> {
  #[derive(Clone)]
  struct OpRec {
    thread: usize,
    call: u64,
    ret: u64,
    input: usize,
    n: N,
  }
  if s.threads.iter().flatten().any(|op| !matches!(op, TOp::Next(_) | TOp::Complete(_) | TOp::Error(_))) {
    return None;
  }
  let mut ops: Vec<OpRec> = vec![];
  for (ti, script) in s.threads.iter().enumerate() {
    let mine: Vec<&Ev> = o
      .evs
      .iter()
      .filter(|e| e.id == CALL + ti as u32 && matches!(e.k, K::Mark("next_call", _) | K::Mark("next_ret", _) | K::Mark("term_call", _) | K::Mark("term_ret", _)))
      .collect();
    let mut cursor = 0usize;
    for op in script {
      // next (call, ret) pair of this thread
      let call = mine.get(cursor).map(|e| e.seq);
      let ret = mine.get(cursor + 1).map(|e| e.seq);
      cursor += 2;
      let Some(call) = call else { break };
      let (input, n) = match op {
        TOp::Next(k) => {
          let v = match mine.get(cursor - 2).map(|e| &e.k) {
            Some(K::Mark("next_call", v)) => *v,
            _ => return None,
          };
          (*k, N::Next(V::I(v)))
        }
        TOp::Complete(k) => (*k, N::Complete),
        TOp::Error(k) => (*k, N::Err(7 + *k as i32)),
        _ => unreachable!(),
      };
      ops.push(OpRec { thread: ti, call, ret: ret.unwrap_or(u64::MAX), input, n });
    }
  }
  let observed = notes(&o.evs, 1);
  let mut found = false;
  let mut tried = 0usize;
  fn dfs(ops: &[OpRec], placed: &mut Vec<bool>, order: &mut Vec<usize>, opname: &str, observed: &[N], found: &mut bool, tried: &mut usize) {
    if *found || *tried > 200_000 {
      return;
    }
    if order.len() == ops.len() {
      *tried += 1;
      let tl: Vec<(usize, N)> = order.iter().map(|i| (ops[*i].input, ops[*i].n.clone())).collect();
      if crate::model::two_input_allowed(opname, &tl).iter().any(|a| a == observed) {
        *found = true;
      }
      return;
    }
    for i in 0..ops.len() {
      if placed[i] {
        continue;
      }
      // per-thread program order
      if (0..ops.len()).any(|j| !placed[j] && ops[j].thread == ops[i].thread && ops[j].call < ops[i].call) {
        continue;
      }
      // real-time order: nothing unplaced returned before this one was called
      if (0..ops.len()).any(|j| !placed[j] && j != i && ops[j].ret < ops[i].call) {
        continue;
      }
      placed[i] = true;
      order.push(i);
      dfs(ops, placed, order, opname, observed, found, tried);
      order.pop();
      placed[i] = false;
    }
  }
  dfs(&ops, &mut vec![false; ops.len()], &mut vec![], opname, &observed, &mut found, &mut tried);
  if found || tried > 200_000 {
    return None;
  }
  Some((
    "not_linearizable".into(),
    json!({"why": format!("no total order of the {} concurrent calls consistent with their call/return stamps makes the {} model produce the observed output", ops.len(), opname),
           "observed": jn(&observed),
           "calls": ops.iter().map(|r| format!("t{} [{}..{}] input{} {:?}", r.thread, r.call, if r.ret == u64::MAX { 0 } else { r.ret }, r.input, r.n)).collect::<Vec<_>>()}),
  ))
}

pub fn two_input_name(s: &Scen) -> Option<&'static str> {
  match s.name {
    "merge_threads" => Some("merge"),
    "zip_threads" => Some("zip"),
    "combine_latest_threads" => Some("combine_latest"),
    "with_latest_from_threads" => Some("with_latest_from"),
    "take_until_threads" => Some("take_until"),
    "skip_until_threads" => Some("skip_until"),
    "sample_threads" => Some("sample"),
    "buffer[two threads]" => Some("buffer"),
    _ => None,
  }
}


/// free-running stress: real parallelism with seeded jitter at every lock point
pub fn free_campaign(
  cfg: &Cfg,
  rep: &mut Report,
  n: usize,
  salt: u64,
  gen: &mut dyn FnMut(&mut Rng) -> Scen,
  oracle: &dyn Fn(&Outcome, &Scen) -> Option<(String, serde_json::Value)>,
) {
  let mut rng = Rng::new(cfg.seed ^ salt);
  let mut hung = 0;
  for i in 0..n {
    let mut r = rng.fork();
    if !cfg.mine(i) {
      continue;
    }
    let id = format!("free:{}", i);
    if !cfg.wants(&id) {
      continue;
    }
    if hung >= 3 {
      break;
    }
    let s = gen(&mut r);
    let seed = r.next();
    rep.evaluations += 1;
    rep.count("free_parallel_runs", 1);
    let o = run_scen_free_mode(&s, if r.chance(2, 3) { conc::FREE } else { conc::OFF }, seed);
    rep.events += o.evs.len() as u64;
    rep.set("thread_scenarios_covered", s.name);
    // distinct interleavings actually observed: the order of the stamped events
    let order: Vec<(u32, u32)> = o.evs.iter().map(|e| (e.thread, e.id)).collect();
    rep.distinct("distinct_free_run_event_orders", hash64(&(&s, &order)));
    if o.baton.timed_out {
      hung += 1;
      rep.inconclusive.push(format!("{}: a free-running thread did not finish within 20 s (no logical witness), scenario {:?}", id, s));
      continue;
    }
    if let Some((kind, detail)) = universal(&o).or_else(|| oracle(&o, &s)) {
      rep.violation(&kind, &format!("{}[free-run]", s.name), &id, json!({"scenario": format!("{:?}", s), "result": detail,
        "log": o.evs.iter().filter(|e| e.id < 3000).take(80).map(|e| format!("t{}#{}:{}:{:?}", e.thread, e.seq, e.id, e.k)).collect::<Vec<_>>()}));
    }
  }
}
