//! C10 — thread-safe variants serialise delivery and cannot deadlock.
use super::thr::*;
use crate::report::{Cfg, Report};
use crate::value::*;

pub fn oracle(o: &Outcome, s: &Scen) -> Option<(String, serde_json::Value)> {
  // every scripted call returned
  if o.baton.finished.iter().any(|f| !*f) {
    return Some(("call_did_not_return".into(), serde_json::json!({"finished": o.baton.finished})));
  }
  match s.kind {
    Kind::Subject => common_order(o).or_else(|| terminal_consistency(o)),
    Kind::Pipe(_) if s.name == "share_threads" => common_order(o),
    Kind::Shared => share_oracle(o),
    Kind::Pipe(_) if s.name == "finalize+subscribe_on+workers" => finalize_behind_subscribe_on(o),
    Kind::Pipe(_) if s.name == "interval+workers" => interval_oracle(o, s).or_else(|| after_unsub(o)),
    Kind::Pipe(_) if s.name.ends_with("[fifo-worker]") => moved_oracle(o, s),
    Kind::Pipe(_) if matches!(s.name, "debounce+workers" | "throttle_time+workers" | "buffer_with_time+workers" | "buffer_with_count_and_time+workers" | "sample(interval)+workers") => rate_oracle(o, s).or_else(|| rate_linearizable(o, s)),
    Kind::Pipe(_) if s.name == "merge_all_threads" => flatten_oracle(o, s),
    Kind::Pipe(_) if two_input_name(s).is_some() => linearizable(o, s, two_input_name(s).unwrap()),
    _ => None,
  }
}

pub fn run(cfg: &Cfg, rep: &mut Report) {
  let n = cfg.n(24_000, 2_500_000);
  if cfg.mode.starts_with("fam") {
    let fam: usize = cfg.mode[3..].parse().unwrap();
    let mut hits = 0;
    for seed in 0..3000u64 {
      let mut r = Rng::new(seed);
      let s = random_scen(&mut r, fam);
      let o = run_scen(&s, seed, crate::conc::Strategy::Uniform);
      if let Some((k, d)) = universal(&o).or_else(|| oracle(&o, &s)) {
        hits += 1;
        if hits <= 2 {
          println!("seed {} {} {} {:?}", seed, k, d, s.threads);
        }
      }
    }
    println!("fam {} hits {}", fam, hits);
    for seed in 0..0u64 {
      let mut r = Rng::new(seed);
      let s = random_scen(&mut r, fam);
      let t0 = std::time::Instant::now();
      let o = run_scen(&s, seed, crate::conc::Strategy::Uniform);
      println!("fam {} seed {} points {} switches {} timed_out {} livelock {} deadlock {:?} {:?} in {:?}", fam, seed, o.baton.points, o.baton.switches, o.baton.timed_out, o.baton.livelock, o.baton.deadlock.is_some(), s.threads, t0.elapsed());
    }
    return;
  }
  if cfg.mode == "dbg" {
    // the thorough-tier deadlock scenario, many seeds
    use crate::ast::*;
    let table: Vec<Chain> = (0..2).map(|i| Chain::new(Src::Hot(i + 1), vec![Op::Spy(20 + i as u32)])).collect();
    let chain = Chain::new(Src::Hot(0), vec![Op::Map(MapF::Add(-1001)), Op::MergeAll(2, table)]);
    let s = Scen { name: "merge_all_threads", kind: Kind::Pipe(chain), n_hot: 3, initial_subs: 1,
      threads: vec![vec![TOp::Next(0), TOp::Next(0), TOp::Complete(0)], vec![TOp::Next(1), TOp::Complete(1)], vec![TOp::Next(2), TOp::Unsub(0)]], workers: 0, worker_spins: 0 };
    for seed in 0..12000u64 {
      let strat = match seed % 4 { 0 => crate::conc::Strategy::Pct(1), 1 => crate::conc::Strategy::Pct(2), 2 => crate::conc::Strategy::Pct(3), _ => crate::conc::Strategy::Uniform };
      let o = run_scen(&s, seed, strat);
      if let Some((k, d)) = universal(&o) {
        println!("seed {} {} {}", seed, k, d);
        for e in &o.evs { println!("  t{} #{} id{} {:?}", e.thread, e.seq, e.id, e.k); }
        break;
      }
    }
    return;
  }
  // systematic part: for a few scenarios of every family, ALL schedules with at
  // most `bound` preemptions (forced switches are free)
  if cfg.mode != "dbg" {
    let per_family = cfg.n(2, 8);
    let bound = cfg.n(1, 2);
    let mut idx = 0usize;
    for fam in 0..FAMILIES {
      for k in 0..per_family {
        idx += 1;
        if !cfg.mine(idx) {
          continue;
        }
        let mut r = Rng::new(cfg.seed ^ (fam as u64 * 1000 + k as u64 + 77));
        let mut s = random_scen(&mut r, fam);
        // keep the enumerated space small: two or three threads, at most three operations each
        for t in s.threads.iter_mut() {
          t.truncate(3);
        }
        s.workers = s.workers.min(1);
        let (runs, distinct) = systematic(cfg, rep, &format!("sys:{}:{}", fam, k), &s, bound, cfg.n(4_000, 60_000), &oracle);
        rep.count("systematic_scenarios", 1);
        rep.set("thread_scenarios_covered", s.name);
        let _ = (runs, distinct);
      }
    }
  }
  campaign(
    cfg,
    rep,
    "thr",
    n,
    0xC10,
    &mut |r: &mut Rng| {
      // the family depends on the case's own PRNG only (replayable by case id)
      let fam = r.below(FAMILIES);
      random_scen(r, fam)
    },
    &oracle,
  );

  // free-running part: the same families on truly parallel OS threads with seeded jitter at lock points
  free_campaign(cfg, rep, cfg.n(4_000, 400_000), 0xC10F, &mut |r: &mut Rng| {
    let fam = r.below(FAMILIES);
    random_scen(r, fam)
  }, &oracle);

  // cross-coupled pipelines: two subjects, each flattened into / cut by the other
  super::cross::campaign(cfg, rep, cfg.n(6_000, 400_000));
}
