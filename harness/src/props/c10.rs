//! C10 — thread-safe variants serialise delivery and cannot deadlock.
use super::thr::*;
use crate::report::{Cfg, Report};
use crate::value::*;

pub fn oracle(o: &Outcome, s: &Scen) -> Option<(String, serde_json::Value)> {
  // every scripted call returned
  if o.baton.finished.iter().any(|f| !*f) {
    return Some(("call_did_not_return".into(), serde_json::json!({"finished": o.baton.finished})));
  }
  match s.kind {
    Kind::Subject => common_order(o),
    Kind::Pipe(_) if s.name == "share_threads" => common_order(o),
    _ => None,
  }
}

pub fn run(cfg: &Cfg, rep: &mut Report) {
  let n = cfg.n(16_000, 600_000);
  let mut fam = 0usize;
  campaign(
    cfg,
    rep,
    "thr",
    n,
    0xC10,
    &mut |r: &mut Rng| {
      fam = (fam + 1 + r.below(3)) % FAMILIES;
      random_scen(r, fam)
    },
    &oracle,
  );
}
