//! C09 — rate-limiting operators never invent, duplicate or reorder items;
//! debounce and throttle follow their exact timed semantics.
use super::common::*;
use crate::ast::*;
use crate::gen::Pipe;
use crate::report::{Cfg, Report};
use crate::value::*;
use crate::vtime::MS;
use crate::world::*;
use serde_json::json;

#[derive(Clone, Debug, PartialEq, Eq, Hash)]
pub struct Case {
  pub op: Op,
  /// (time ns, notification) — items carry unique ids 100, 101, ...
  pub script: Vec<(u64, N)>,
  pub flavor: Flavor,
  pub policy: Policy,
  pub late: bool,
  pub seed: u64,
  /// only for scripts without a terminal: some time after the last item the source goes away
  /// (the subject drops its observers); what is pending is still owed
  pub gone_after: Option<u64>,
}

pub fn random_case(r: &mut Rng, max_items: usize) -> Case {
  let w = [1u64, 5, 10][r.below(3)];
  let e = [Edge::Leading, Edge::Trailing, Edge::All][r.below(3)];
  // a zero-length window is legal for debounce and throttle (every item opens and closes its own window)
  let wz = if r.chance(1, 8) { 0 } else { w };
  let op = match r.below(12) {
    0 | 1 => Op::Debounce(wz),
    // sub-millisecond windows: the scripted gaps (whole ms) are then either 0 or longer than the window
    2 => Op::DebounceUs([400u64, 900, 1500][r.below(3)]),
    3 | 4 | 5 => Op::ThrottleTime(wz, e),
    6 | 7 => Op::Throttle(wz, e),
    8 => Op::Sample(Box::new(Chain::new(Src::Interval(w), vec![]))),
    9 | 10 => Op::BufferWithTime(w),
    _ => Op::BufferWithCountAndTime(1 + r.below(3), w),
  };
  // gaps shorter than, equal to and longer than the window
  let gaps = [0u64, 1, w.saturating_sub(1), w, w + 1, 2 * w, 2 * w + 1, 3];
  let n = r.below(max_items + 1);
  let mut t = 0u64;
  let mut script = vec![];
  for i in 0..n {
    t += gaps[r.below(gaps.len())] * MS;
    script.push((t, N::Next(V::I(100 + i as i64))));
  }
  let mut gone_after = None;
  match r.below(6) {
    0 => {
      if r.chance(1, 2) {
        gone_after = Some(gaps[r.below(gaps.len())] * MS);
      }
    }
    1 => {
      t += gaps[r.below(gaps.len())] * MS;
      script.push((t, N::Err(7)))
    }
    _ => {
      t += gaps[r.below(gaps.len())] * MS;
      script.push((t, N::Complete))
    }
  }
  Case {
    op,
    script,
    flavor: [Flavor::Local, Flavor::Threads, Flavor::Local, Flavor::LocalPool][r.below(4)],
    policy: if r.chance(1, 2) { Policy::Fifo } else { Policy::Any },
    late: r.chance(1, 3),
    seed: r.next(),
    gone_after,
  }
}

pub struct Obs {
  pub timed: Vec<(u64, N)>,
  pub choice_hash: u64,
}

pub fn observe(c: &Case) -> Result<Obs, String> {
  let mut acts: Vec<TAct> = c.script.iter().map(|(t, n)| TAct { t: *t, act: Act::In(0, n.clone()) }).collect();
  let last = c.script.last().map_or(0, |(t, _)| *t);
  if let Some(g) = c.gone_after {
    acts.push(TAct { t: last + g, act: Act::Gone(0) });
  }
  let pipe = Pipe { chain: Chain::new(Src::Hot(0), vec![c.op.clone()]), n_hot: 1, acts, horizon: last + 40 * MS };
  let out = run_pipe(c.flavor, &pipe, c.policy, c.late, c.seed, &mut |_, _, _| {})?;
  Ok(Obs { timed: timed_of(&out.evs, 1), choice_hash: out.choice_hash })
}

type Timed = Vec<(u64, N)>;

/// exact debounce semantics; branches where a source event coincides with
/// the moment the pending item falls due
fn debounce_model(d: u64, script: &[(u64, N)]) -> Vec<Timed> {
  fn go(d: u64, script: &[(u64, N)], i: usize, pending: Option<(V, u64)>, out: Timed, acc: &mut Vec<Timed>) {
    if i == script.len() {
      let mut out = out;
      if let Some((x, due)) = pending {
        out.push((due, N::Next(x)));
      }
      acc.push(out);
      return;
    }
    let (t, n) = &script[i];
    let mut out = out;
    let mut pending = pending;
    if let Some((x, due)) = &pending {
      if *due < *t {
        out.push((*due, N::Next(x.clone())));
        pending = None;
      } else if *due == *t {
        // tie: the timer fires first ...
        let mut o2 = out.clone();
        o2.push((*due, N::Next(x.clone())));
        step(d, script, i, None, o2, acc);
        // ... or the source event is handled first
      }
    }
    step(d, script, i, pending, out, acc);
    fn step(d: u64, script: &[(u64, N)], i: usize, pending: Option<(V, u64)>, mut out: Timed, acc: &mut Vec<Timed>) {
      let (t, n) = &script[i];
      match n {
        N::Next(x) => go(d, script, i + 1, Some((x.clone(), t + d)), out, acc),
        N::Complete => {
          if let Some((x, _)) = pending {
            out.push((*t, N::Next(x)));
          }
          out.push((*t, N::Complete));
          acc.push(out);
        }
        N::Err(e) => {
          out.push((*t, N::Err(*e)));
          acc.push(out);
        }
      }
    }
    let _ = n;
  }
  let mut acc = vec![];
  go(d, script, 0, None, vec![], &mut acc);
  acc.sort();
  acc.dedup();
  acc
}

fn sel(op: &Op, x: &V) -> u64 {
  match op {
    Op::ThrottleTime(d, _) => *d * MS,
    Op::Throttle(base, _) => (*base + x.int().rem_euclid(3) as u64) * MS,
    _ => 0,
  }
}

/// exact throttle semantics (leading: the window-opening item at once;
/// trailing: the last item of the window at window end, each at most once)
fn throttle_model(op: &Op, edge: Edge, script: &[(u64, N)]) -> Vec<Timed> {
  #[derive(Clone)]
  struct St {
    open_until: Option<u64>,
    trailing: Option<V>,
    out: Timed,
  }
  fn close(st: &mut St) {
    if let Some(end) = st.open_until.take() {
      if let Some(x) = st.trailing.take() {
        st.out.push((end, N::Next(x)));
      }
    }
  }
  fn go(op: &Op, edge: Edge, script: &[(u64, N)], i: usize, mut st: St, acc: &mut Vec<Timed>) {
    if i == script.len() {
      close(&mut st);
      acc.push(st.out);
      return;
    }
    let (t, _) = &script[i];
    if let Some(end) = st.open_until {
      if end < *t {
        close(&mut st);
      } else if end == *t {
        let mut s2 = st.clone();
        close(&mut s2);
        step(op, edge, script, i, s2, acc);
      }
    }
    step(op, edge, script, i, st, acc);
  }
  fn step(op: &Op, edge: Edge, script: &[(u64, N)], i: usize, mut st: St, acc: &mut Vec<Timed>) {
    let (t, n) = &script[i];
    let leading = matches!(edge, Edge::Leading | Edge::All);
    let trailing = matches!(edge, Edge::Trailing | Edge::All);
    match n {
      N::Next(x) => {
        if st.open_until.is_none() {
          st.open_until = Some(t + sel(op, x));
          if leading {
            st.out.push((*t, N::Next(x.clone())));
          } else if trailing {
            st.trailing = Some(x.clone());
          }
        } else if trailing {
          st.trailing = Some(x.clone());
        }
        go(op, edge, script, i + 1, st, acc)
      }
      N::Complete => {
        if let Some(x) = st.trailing.take() {
          st.out.push((*t, N::Next(x)));
        }
        st.out.push((*t, N::Complete));
        acc.push(st.out);
      }
      N::Err(e) => {
        st.out.push((*t, N::Err(*e)));
        acc.push(st.out);
      }
    }
  }
  let mut acc = vec![];
  go(op, edge, script, 0, St { open_until: None, trailing: None, out: vec![] }, &mut acc);
  acc.sort();
  acc.dedup();
  acc
}

/// exact sample(interval(w)) semantics: at every sampler tick the newest item
/// not yet sampled is emitted; branches where an item coincides with a tick;
/// a value still unsampled when the source completes may be dropped or flushed
///
/// With `observed` the search only follows branches whose output so far is a
/// prefix of the observed trace (membership test, no cap needed); without it
/// the enumeration is capped and only used to *show* some allowed traces.
fn sample_model(w: u64, script: &[(u64, N)], observed: Option<&Timed>) -> Vec<Timed> {
  thread_local! {
    static OBSERVED: std::cell::RefCell<Option<Timed>> = const { std::cell::RefCell::new(None) };
  }
  fn viable(out: &Timed) -> bool {
    OBSERVED.with(|o| match &*o.borrow() {
      None => true,
      Some(obs) => out.len() <= obs.len() && obs[..out.len()] == out[..],
    })
  }
  fn go(w: u64, script: &[(u64, N)], i: usize, next_tick: u64, stored: Option<V>, out: Timed, acc: &mut Vec<Timed>) {
    let capped = OBSERVED.with(|o| o.borrow().is_none());
    if (capped && acc.len() > 256) || !viable(&out) {
      return;
    }
    if i == script.len() {
      let mut out = out;
      if let Some(x) = stored {
        out.push((next_tick, N::Next(x)));
      }
      acc.push(out);
      return;
    }
    let (t, n) = &script[i];
    if next_tick < *t {
      // the tick comes first
      let mut out = out;
      let mut stored = stored;
      if let Some(x) = stored.take() {
        out.push((next_tick, N::Next(x)));
      }
      return go(w, script, i, next_tick + w, stored, out, acc);
    }
    if next_tick == *t {
      // tie: tick first ...
      let mut o2 = out.clone();
      let mut s2 = stored.clone();
      if let Some(x) = s2.take() {
        o2.push((next_tick, N::Next(x)));
      }
      step(w, script, i, next_tick + w, s2, o2, acc);
      // ... or the source event first (the tick then follows at the same instant)
    }
    step(w, script, i, next_tick, stored, out, acc);
    fn step(w: u64, script: &[(u64, N)], i: usize, next_tick: u64, stored: Option<V>, mut out: Timed, acc: &mut Vec<Timed>) {
      let (t, n) = &script[i];
      match n {
        N::Next(x) => go(w, script, i + 1, next_tick, Some(x.clone()), out, acc),
        N::Complete => {
          // unspecified: an unsampled value is dropped, or flushed with the completion
          if let Some(x) = &stored {
            let mut o2 = out.clone();
            o2.push((*t, N::Next(x.clone())));
            o2.push((*t, N::Complete));
            acc.push(o2);
          }
          out.push((*t, N::Complete));
          acc.push(out);
        }
        N::Err(e) => {
          out.push((*t, N::Err(*e)));
          acc.push(out);
        }
      }
    }
    let _ = n;
  }
  let mut acc = vec![];
  OBSERVED.with(|o| *o.borrow_mut() = observed.cloned());
  go(w, script, 0, w, None, vec![], &mut acc);
  OBSERVED.with(|o| *o.borrow_mut() = None);
  acc.sort();
  acc.dedup();
  acc
}

fn item_ids(timed: &Timed) -> Vec<i64> {
  let mut v = vec![];
  for (_, n) in timed {
    if let N::Next(x) = n {
      x.leaves(&mut v)
    }
  }
  v
}

pub fn judge(c: &Case, o: &Result<Obs, String>) -> Option<(String, serde_json::Value)> {
  let o = match o {
    Err(p) => return Some(("panic".into(), json!({"panic": p}))),
    Ok(o) => o,
  };
  let src = crate::model::well_formed(c.script.iter().map(|(_, n)| n.clone()).collect());
  let src_ids: Vec<i64> = src.iter().filter_map(|n| if let N::Next(v) = n { Some(v.int()) } else { None }).collect();
  let show = |why: String| {
    json!({"why": why, "observed": o.timed.iter().map(|(t, n)| json!([t, n.j()])).collect::<Vec<_>>(),
           "script": c.script.iter().map(|(t, n)| json!([t, n.j()])).collect::<Vec<_>>()})
  };
  let notes: Vec<N> = o.timed.iter().map(|(_, n)| n.clone()).collect();
  if let Some(g) = crate::log::grammar_violation(&notes) {
    return Some(("malformed_sequence".into(), show(g)));
  }
  // invariants: only source items, each at most once, in source order
  let ids = item_ids(&o.timed);
  let mut pos = 0usize;
  for id in &ids {
    match src_ids[pos.min(src_ids.len())..].iter().position(|s| s == id) {
      Some(p) => pos += p + 1,
      None => {
        let kind = if !src_ids.contains(id) {
          "invented_item"
        } else if ids.iter().filter(|x| *x == id).count() > 1 {
          "duplicate_item"
        } else {
          "reordered_item"
        };
        return Some((kind.into(), show(format!("item {} breaks 'source items, once, in order'", id))));
      }
    }
  }
  // terminal must be the source's
  let src_term = src.last().filter(|n| n.is_terminal());
  let out_term = notes.last().filter(|n| n.is_terminal());
  if src_term != out_term {
    return Some(("wrong_termination".into(), show(format!("source terminal {:?}, output terminal {:?}", src_term, out_term))));
  }
  // buffers: never empty, never above the count, concatenation = source on completion
  if let Op::BufferWithTime(_) | Op::BufferWithCountAndTime(..) = c.op {
    let limit = if let Op::BufferWithCountAndTime(n, _) = c.op { n } else { usize::MAX };
    for (_, n) in &o.timed {
      if let N::Next(V::L(l)) = n {
        if l.is_empty() {
          return Some(("empty_buffer".into(), show("an empty buffer was emitted".into())));
        }
        if l.len() > limit {
          return Some(("buffer_over_limit".into(), show(format!("buffer of {} items, limit {}", l.len(), limit))));
        }
      }
    }
    if src_term == Some(&N::Complete) && ids != src_ids {
      return Some(("lost_item".into(), show("concatenation of the buffers is not the source sequence".into())));
    }
  }
  // exact timed models on prompt runs
  if !c.late {
    let allowed = match &c.op {
      // zero-length windows: invariants only (the window end coincides with its own opener)
      Op::Debounce(0) | Op::ThrottleTime(0, _) | Op::Throttle(0, _) => None,
      Op::Debounce(d) => Some(debounce_model(*d * MS, &c.script)),
      Op::DebounceUs(d) => Some(debounce_model(*d * 1000, &c.script)),
      Op::ThrottleTime(_, e) | Op::Throttle(_, e) => Some(throttle_model(&c.op, *e, &c.script)),
      Op::Sample(ch) => match ch.src {
        Src::Interval(w) if c.script.last().map_or(false, |(_, n)| n.is_terminal()) => {
          // membership by a search pruned with the observed trace (the full set grows
          // exponentially with the number of item/tick coincidences)
          if sample_model(w * MS, &c.script, Some(&o.timed)).contains(&o.timed) {
            None
          } else {
            Some(sample_model(w * MS, &c.script, None))
          }
        }
        _ => None,
      },
      _ => None,
    };
    if let Some(allowed) = allowed {
      if !allowed.contains(&o.timed) {
        let kind = if ids.len() > item_ids(&allowed[0]).len() {
          "extra_emission"
        } else if ids.len() < allowed.iter().map(|a| item_ids(a).len()).min().unwrap_or(0) {
          "missing_emission"
        } else {
          "wrong_emission"
        };
        let mut j = show("timed trace is not one of the traces the model allows".into());
        j["allowed"] = json!(allowed.iter().map(|a| a.iter().map(|(t, n)| json!([t, n.j()])).collect::<Vec<_>>()).collect::<Vec<_>>());
        return Some((kind.into(), j));
      }
    }
  } else {
    // late runs: a timer-driven emission is never earlier than arrival + window
    let arrive = |id: i64| c.script.iter().find(|(_, n)| matches!(n, N::Next(v) if v.int() == id)).map(|(t, _)| *t);
    let end_t = c.script.last().filter(|(_, n)| n.is_terminal()).map(|(t, _)| *t);
    let window = match c.op {
      Op::Debounce(d) => Some(d * MS),
      Op::DebounceUs(d) => Some(d * 1000),
      _ => None,
    };
    if let Some(window) = window {
      for (t, n) in &o.timed {
        if let N::Next(v) = n {
          let a = arrive(v.int()).unwrap_or(0);
          let flushed_on_complete = end_t.map_or(false, |e| *t >= e) && src_ids.last() == Some(&v.int());
          if *t < a + window && !flushed_on_complete {
            return Some(("early_emission".into(), show(format!("item {} arrived at {} emitted at {} (< window)", v.int(), a, t))));
          }
        }
      }
    }
  }
  None
}

fn locus(c: &Case) -> String {
  let fl = if c.flavor == Flavor::Threads { "(threads scheduler)" } else { "" };
  let _ = fl;
  match &c.op {
    Op::ThrottleTime(_, e) => format!("throttle_time[edge={:?}]", e).to_lowercase(),
    Op::Throttle(_, e) => format!("throttle[edge={:?}]", e).to_lowercase(),
    op => op.name().to_string(),
  }
}

pub fn run(cfg: &Cfg, rep: &mut Report) {
  let total = cfg.n(600_000, 30_000_000);
  let maxi = cfg.n(5, 9);
  let mut rng = Rng::new(cfg.seed ^ 0xC09);
  for i in 0..total {
    let mut r = rng.fork();
    if !cfg.mine(i) {
      continue;
    }
    let id = format!("rl:{}", i);
    if !cfg.wants(&id) {
      continue;
    }
    let c = random_case(&mut r, maxi);
    rep.evaluations += 1;
    if c.gone_after.is_some() {
      rep.count("scripts_whose_source_goes_away_unterminated", 1);
    }
    let o = observe(&c);
    rep.set("operators_covered", &locus(&c));
    if c.flavor == Flavor::LocalPool {
      rep.count("runs_on_the_real_LocalPool", 1);
    }
    if let Ok(obs) = &o {
      rep.events += obs.timed.len() as u64;
      let src_n = c.script.iter().filter(|(_, n)| !n.is_terminal()).count();
      let out_ids = item_ids(&obs.timed);
      let suppressed = out_ids.len() < src_n;
      // emitted by a timer: delivered at an instant where no source event happened
      let by_timer = obs.timed.iter().any(|(t, n)| matches!(n, N::Next(_)) && !c.script.iter().any(|(st, _)| st == t));
      let buffering = matches!(c.op, Op::BufferWithTime(_) | Op::BufferWithCountAndTime(..));
      if (suppressed || buffering) && by_timer {
        rep.nontrivial.insert(hash64(&c));
      }
      rep.distinct("distinct_schedules", obs.choice_hash ^ hash64(&(&c.op, &c.script)));
      rep.count(if c.late { "late_schedule_runs" } else { "exact_model_runs" }, 1);
    }
    if let Some((kind, detail)) = judge(&c, &o) {
      rep.violation(&kind, &locus(&c), &id, json!({"case": format!("{:?}", c), "result": detail}));
    } else if let Ok(obs) = &o {
      rep.sample_some(7001, || {
        json!({"case": id, "op": format!("{:?}", c.op), "late_schedule": c.late,
               "script": c.script.iter().map(|(t, n)| json!([t, n.j()])).collect::<Vec<_>>(),
               "observed": obs.timed.iter().map(|(t, n)| json!([t, n.j()])).collect::<Vec<_>>()})
      });
    }
  }

  // thread part: the operators' timer tasks run on a managed worker thread
  // while 1-2 producer threads emit (and one may unsubscribe)
  let n = cfg.n(8_000, 400_000);
  let fams = [15usize, 16, 17, 24, 25];
  super::thr::systematic_families(cfg, rep, 0xC09A, &fams, &|_, _| {}, &|o, s| super::thr::rate_oracle(o, s).or_else(|| super::thr::rate_linearizable(o, s)));
  super::thr::campaign(cfg, rep, "thr", n, 0xC09F, &mut |r: &mut Rng| {
    let f = fams[r.below(fams.len())];
    super::thr::random_scen(r, f)
  }, &|o, s| super::thr::rate_oracle(o, s).or_else(|| super::thr::rate_linearizable(o, s)));
  super::thr::free_campaign(cfg, rep, cfg.n(1_500, 150_000), 0xC09E, &mut |r: &mut Rng| {
    let f = fams[r.below(fams.len())];
    super::thr::random_scen(r, f)
  }, &|o, s| super::thr::rate_oracle(o, s).or_else(|| super::thr::rate_linearizable(o, s)));
}
