//! C10 — cross-coupled thread-safe pipelines: two subjects, each feeding a flattening pipeline
//! whose inner observable is the other subject (nobody re-enters his own pipeline: it is the
//! operators that subscribe subject B from inside a delivery of subject A, while another thread
//! does the mirror image). Driven under the baton scheduler; the oracle is the logical deadlock
//! detector, panics, and "every call returned".
use crate::conc::{self, BatonOutcome, Strategy};
use crate::log::*;
use crate::report::{Cfg, Report};
use crate::value::*;
use rxrust::prelude::*;
use serde_json::json;

pub const VARIANTS: [&str; 6] = [
  "flat_map_threads(a->b) || flat_map_threads(b->a)",
  "behavior: flat_map_threads(x->y) || flat_map_threads(y->x)",
  "concat_all_threads([a,b]) || concat_all_threads([b,a]), completes",
  "concat_all_threads([s,s]), complete (one thread)",
  "merge_threads(a,b) + take_until_threads cross: a.take_until(b) || b.take_until(a)",
  "observe_on_threads(a) feeding b || observe_on_threads(b) feeding a, two pool workers",
];

fn inf(_: std::convert::Infallible) -> E {
  unreachable!()
}

type S = SubjectThreads<V, E>;
type B = BehaviorSubject<V, S>;

pub fn cross_run(variant: usize, n: [usize; 2], seed: u64, strategy: Strategy) -> (BatonOutcome, usize) {
  let log = Log::new();
  let mut bodies: Vec<Box<dyn FnOnce() + Send>> = vec![];
  match variant {
    0 => {
      let (a, b): (S, S) = (S::default(), S::default());
      let (a2, b2) = (a.clone(), b.clone());
      std::mem::forget(a.clone().flat_map_threads(move |_| b2.clone()).actual_subscribe(Probe::new(1, &log)));
      std::mem::forget(b.clone().flat_map_threads(move |_| a2.clone()).actual_subscribe(Probe::new(2, &log)));
      for (k, mut s) in [a, b].into_iter().enumerate() {
        let cnt = n[k];
        bodies.push(Box::new(move || {
          for i in 0..cnt {
            s.next(V::I((k as i64 + 1) * 1000 + i as i64));
          }
        }));
      }
    }
    1 => {
      let (x, y): (B, B) = (B::new(V::I(1)), B::new(V::I(2)));
      let (x2, y2) = (x.clone(), y.clone());
      std::mem::forget(x.clone().flat_map_threads(move |_| y2.clone()).take(40).actual_subscribe(Probe::new(1, &log)));
      std::mem::forget(y.clone().flat_map_threads(move |_| x2.clone()).take(40).actual_subscribe(Probe::new(2, &log)));
      for (k, mut s) in [x, y].into_iter().enumerate() {
        let cnt = n[k];
        bodies.push(Box::new(move || {
          for i in 0..cnt {
            Observer::<V, E>::next(&mut s, V::I((k as i64 + 1) * 1000 + i as i64));
          }
        }));
      }
    }
    2 => {
      let (a, b): (S, S) = (S::default(), S::default());
      std::mem::forget(from_iter(vec![a.clone(), b.clone()]).on_error_map(inf).concat_all_threads().actual_subscribe(Probe::new(1, &log)));
      std::mem::forget(from_iter(vec![b.clone(), a.clone()]).on_error_map(inf).concat_all_threads().actual_subscribe(Probe::new(2, &log)));
      for (k, mut s) in [a, b].into_iter().enumerate() {
        let cnt = n[k];
        bodies.push(Box::new(move || {
          for i in 0..cnt {
            s.next(V::I((k as i64 + 1) * 1000 + i as i64));
          }
          s.complete();
        }));
      }
    }
    3 => {
      let s: S = S::default();
      std::mem::forget(from_iter(vec![s.clone(), s.clone()]).on_error_map(inf).concat_all_threads().actual_subscribe(Probe::new(1, &log)));
      let mut s2 = s.clone();
      let cnt = n[0];
      bodies.push(Box::new(move || {
        for i in 0..cnt {
          s2.next(V::I(1000 + i as i64));
        }
        s2.complete();
      }));
    }
    5 => {
      // the consumer stage of each pipeline (a map behind observe_on_threads, i.e. running inside
      // the pool task) passes a few items on into the other subject
      use std::sync::atomic::{AtomicUsize, Ordering};
      use std::sync::Arc;
      let pool = super::thr::Pool::new();
      let sched = pool.scheduler();
      let (a, b): (S, S) = (S::default(), S::default());
      let (a2, b2) = (a.clone(), b.clone());
      std::mem::forget(
        a.clone()
          .observe_on_threads(sched.clone())
          .map(move |v: V| {
            if v.int() % 100 < 2 {
              b2.clone().next(V::I(v.int() + 1));
            }
            v
          })
          .actual_subscribe(Probe::new(1, &log)),
      );
      std::mem::forget(
        b.clone()
          .observe_on_threads(sched)
          .map(move |v: V| {
            if v.int() % 100 < 2 {
              a2.clone().next(V::I(v.int() + 1));
            }
            v
          })
          .actual_subscribe(Probe::new(2, &log)),
      );
      let left = Arc::new(AtomicUsize::new(2));
      for (k, mut s) in [a, b].into_iter().enumerate() {
        let cnt = n[k];
        let left = left.clone();
        bodies.push(Box::new(move || {
          for i in 0..cnt {
            s.next(V::I((k as i64 + 1) * 1000 + 10 * i as i64));
          }
          left.fetch_sub(1, Ordering::SeqCst);
        }));
      }
      for wi in 0..2usize {
        let (pool, left) = (pool.clone(), left.clone());
        bodies.push(Box::new(move || {
          let mut pick = wi;
          let mut spins = 0;
          loop {
            pick = pick.wrapping_mul(31).wrapping_add(7);
            let ran = pool.run_one(pick);
            if !ran && left.load(Ordering::SeqCst) == 0 && pool.idle() {
              break;
            }
            spins += 1;
            if spins > 3_000 {
              break;
            }
            conc::yield_now();
          }
        }));
      }
    }
    _ => {
      let (a, b): (S, S) = (S::default(), S::default());
      std::mem::forget(a.clone().take_until_threads(b.clone()).actual_subscribe(Probe::new(1, &log)));
      std::mem::forget(b.clone().take_until_threads(a.clone()).actual_subscribe(Probe::new(2, &log)));
      std::mem::forget(a.clone().merge_threads(b.clone()).actual_subscribe(Probe::new(3, &log)));
      for (k, mut s) in [a, b].into_iter().enumerate() {
        let cnt = n[k];
        bodies.push(Box::new(move || {
          for i in 0..cnt {
            s.next(V::I((k as i64 + 1) * 1000 + i as i64));
          }
        }));
      }
    }
  }
  let out = conc::baton_run(seed, strategy, bodies);
  (out, log.len())
}

pub fn campaign(cfg: &Cfg, rep: &mut Report, n: usize) {
  let mut rng = Rng::new(cfg.seed ^ 0xC105);
  for i in 0..n {
    let mut r = rng.fork();
    if !cfg.mine(i) {
      continue;
    }
    let id = format!("cross:{}", i);
    if !cfg.wants(&id) {
      continue;
    }
    let variant = r.below(VARIANTS.len());
    let counts = [1 + r.below(2), 1 + r.below(2)];
    let strategy = super::thr::strategy_for(&mut r);
    let seed = r.next();
    let (b, events) = cross_run(variant, counts, seed, strategy.clone());
    rep.evaluations += 1;
    rep.events += events as u64 + b.points;
    rep.count("cross_coupled_schedules", 1);
    rep.count("thread_context_switches", b.switches);
    rep.set("cross_coupled_variants", VARIANTS[variant]);
    rep.distinct("distinct_cross_coupled_schedules", hash64(&(variant, counts, &b.trace)));
    if b.switches > 0 {
      rep.nontrivial.insert(hash64(&(variant, counts, &b.trace)));
    }
    let locus = format!("cross-coupled[{}]", VARIANTS[variant]);
    let detail = |what: serde_json::Value| json!({"variant": VARIANTS[variant], "items_per_thread": counts, "strategy": format!("{:?}", strategy), "schedule": b.trace.iter().map(|t| t.to_string()).collect::<Vec<_>>().join(""), "result": what});
    if let Some(w) = &b.deadlock {
      rep.violation("deadlock", &locus, &id, detail(json!({"threads_waiting_for_cells": format!("{:?}", w)})));
    } else if let Some((t, p)) = b.panics.first() {
      let kind = if p.starts_with(conc::SELF_DEADLOCK) { "deadlock" } else { "panic" };
      rep.violation(kind, &locus, &id, detail(json!({"thread": t, "panic": p})));
    } else if b.timed_out || b.livelock {
      rep.inconclusive.push(format!("{}: schedule abandoned (watchdog)", id));
    } else if b.finished.iter().any(|f| !*f) {
      rep.violation("call_did_not_return", &locus, &id, detail(json!({"finished": b.finished})));
    }
  }
}
