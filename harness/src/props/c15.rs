//! C15 — finalize runs its callback exactly once per subscription
//! (sequential part; the racing-thread part lives in c10.rs).
use crate::ast::*;
use crate::gen::*;
use crate::log::*;
use crate::report::{Cfg, Report};
use crate::value::*;
use crate::world::*;
use rxrust::subscription::Subscription as _;
use serde_json::json;

#[derive(Clone, Debug, PartialEq, Eq, Hash)]
pub enum Trig {
  Item,
  Complete,
  Error,
  Unsub,
  /// the subscription handle is dropped WITHOUT being unsubscribed (not an event for finalize)
  DropHandle,
  /// the hot source subject is itself unsubscribed: it drops its observers without any terminal
  /// (not an event for the subscription either)
  SourceGone,
}

#[derive(Clone, Debug, PartialEq, Eq, Hash)]
pub struct Case {
  pub upstream: Vec<Op>,
  pub create_src: bool,
  /// 0: hot/create source; 1: `never()`; 2: hot source merged with `empty()`
  pub src_kind: u8,
  pub flavor: Flavor,
  pub history: Vec<Trig>,
  pub guard: bool,
  /// a second finalize directly above the one under test (both end with the same event)
  pub stacked: bool,
  /// an early terminator BELOW finalize (take / first), only over a `create` source, which
  /// still delivers its terminal to an observer whose downstream has finished
  pub downstream: Option<Op>,
}

const FIN: u32 = 600;
const FIN2: u32 = 601;
const SPY: u32 = 45;

pub fn random_case(r: &mut Rng, max_len: usize) -> Case {
  let mut upstream = vec![];
  for _ in 0..r.below(3) {
    upstream.push(match r.below(8) {
      0 => Op::Take(1 + r.below(3)),
      1 => Op::Map(MapF::Add(1)),
      2 => Op::Filter(Pred::Even),
      3 => Op::First,
      4 => Op::Skip(1),
      5 => Op::TakeWhile(Pred::Lt(2)),
      6 => [Op::Delay(1), Op::ObserveOn, Op::Debounce(1)][r.below(3)].clone(),
      _ => Op::BoxIt,
    });
  }
  let n = 1 + r.below(max_len);
  let history = (0..n)
    .map(|_| match r.below(8) {
      0..=3 => Trig::Item,
      4 | 5 => Trig::Complete,
      6 => Trig::Error,
      _ => Trig::Unsub,
    })
    .collect();
  let mut history: Vec<Trig> = history;
  // one case in eight ends with the handle dropped and the source gone - no event at all
  let quiet_end = r.chance(1, 8);
  if quiet_end {
    history.retain(|t| matches!(t, Trig::Item));
    if r.chance(1, 2) {
      history.push(Trig::DropHandle);
      history.push(Trig::SourceGone);
    } else {
      history.push(Trig::SourceGone);
      history.push(Trig::DropHandle);
    }
  }
  let create_src = r.chance(1, 3);
  let src_kind = [0u8, 0, 0, 1, 2][r.below(5)];
  let downstream = if create_src && src_kind == 0 && r.chance(1, 3) { Some([Op::Take(1), Op::Take(2), Op::First][r.below(3)].clone()) } else { None };
  Case {
    upstream,
    create_src,
    src_kind,
    flavor: if r.chance(1, 2) { Flavor::Local } else { Flavor::Threads },
    history,
    // (dropping an unsubscribe_when_dropped guard IS an unsubscription: quiet ends use plain handles)
    guard: !quiet_end && r.chance(1, 4),
    stacked: r.chance(1, 4),
    downstream,
  }
}

pub struct Obs {
  pub evs: Vec<Ev>,
  /// seq stamps taken right before each history step
  pub step_seq: Vec<u64>,
}

pub fn observe(c: &Case) -> Result<Obs, String> {
  catch(|| {
    let mut w = World::new(c.flavor, 1);
    let mut ops = c.upstream.clone();
    if c.downstream.is_some() {
      // what reaches finalize from above is recorded by a transparent spy
      ops.push(Op::Spy(SPY));
    }
    if c.stacked {
      ops.push(Op::Finalize(FIN2));
    }
    ops.push(Op::Finalize(FIN));
    if let Some(d) = &c.downstream {
      ops.push(d.clone());
    }
    let mut ops = ops;
    let src = match c.src_kind {
      1 => Src::Never,
      2 => {
        ops.insert(0, Op::Merge(Box::new(Chain::new(Src::Empty, vec![]))));
        if c.create_src { Src::Create(0) } else { Src::Hot(0) }
      }
      _ => if c.create_src { Src::Create(0) } else { Src::Hot(0) },
    };
    let chain = Chain::new(src, ops);
    w.subscribe(&chain, 1);
    if c.guard {
      w.guard(0);
    }
    let mut step_seq = vec![];
    let mut k = 0i64;
    for t in &c.history {
      step_seq.push(w.log.mark(0, "step", 0));
      let n = match t {
        Trig::Item => {
          k += 1;
          Some(N::Next(V::I(k % 3)))
        }
        Trig::Complete => Some(N::Complete),
        Trig::Error => Some(N::Err(7)),
        Trig::Unsub => None,
        Trig::DropHandle => {
          // forget nothing, unsubscribe nothing: the handle simply goes out of scope
          let h = std::mem::replace(&mut w.subs[0], Sub::Gone);
          drop(h);
          continue;
        }
        Trig::SourceGone => {
          if !c.create_src && c.src_kind != 1 {
            match c.flavor {
              Flavor::Threads => w.t.hot[0].clone().unsubscribe(),
              _ => w.l.hot[0].clone().unsubscribe(),
            }
          }
          continue;
        }
      };
      match n {
        Some(n) => {
          if c.create_src {
            w.inject_create(0, n);
          } else {
            w.inject(0, n)
          }
        }
        None => {
          // user code in the callback: while unsubscribe() is in progress it pushes one more
          // item into the (hot) source; finalize runs after the teardown, so nobody may see it
          if !c.create_src && c.src_kind == 0 {
            let (hl, ht, threads) = (w.l.hot[0].clone(), w.t.hot[0].clone(), c.flavor == Flavor::Threads);
            for fin in [FIN, FIN2] {
              let (hl, ht) = (hl.clone(), ht.clone());
              set_local_cb(
                fin,
                std::rc::Rc::new(move |_: &N| {
                  use rxrust::observer::Observer;
                  if threads {
                    ht.clone().next(V::I(999));
                  } else {
                    hl.clone().next(V::I(999));
                  }
                }),
              );
            }
          }
          w.log.mark(0, "unsub_call", 0);
          w.unsubscribe(0);
          w.log.mark(0, "unsub_ret", 0);
          clear_local_cbs();
        }
      }
    }
    step_seq.push(w.log.mark(0, "step", 0));
    let mut rng = Rng::new(3);
    w.drain(Policy::Fifo, u64::MAX / 4, &mut rng);
    let evs = w.log.evs();
    w.teardown();
    Obs { evs, step_seq }
  })
}

pub fn judge(c: &Case, o: &Result<Obs, String>) -> Option<(String, serde_json::Value)> {
  let o = match o {
    Err(p) => return Some(("panic".into(), json!({"panic": p}))),
    Ok(o) => o,
  };
  if c.stacked {
    if let Some((k, d)) = judge_fin(c, o, FIN2) {
      return Some((k, json!({"which": "the finalize above the last one", "result": d})));
    }
  }
  judge_fin(c, o, FIN)
}

fn judge_fin(c: &Case, o: &Obs, fin: u32) -> Option<(String, serde_json::Value)> {
  let fins: Vec<u64> = o.evs.iter().filter(|e| e.id == fin && matches!(e.k, K::Mark("finalize", _))).map(|e| e.seq).collect();
  // the first of {terminal seen by the subscriber, unsubscribe call}; with an early terminator
  // below finalize the subscriber's terminal is not finalize's: its own subscription ends when
  // a terminal reaches it from above (recorded by the spy; the create source delivers its terminal regardless)
  let term = if c.downstream.is_some() {
    let seen_above = o.evs.iter().find(|e| e.id / 1000 == SPY && matches!(&e.k, K::N(n) if n.is_terminal())).map(|e| e.seq);
    // with nothing between the create source and finalize, the producer's own terminal call is
    // that event whether or not anything records it on the way (a `create` subscriber hands its
    // terminal on even when everything below has finished)
    let called = if c.upstream.is_empty() {
      c.history.iter().position(|t| matches!(t, Trig::Complete | Trig::Error)).and_then(|i| o.step_seq.get(i).cloned())
    } else {
      None
    };
    seen_above.or(called)
  } else {
    o.evs.iter().find(|e| e.id == 1 && matches!(&e.k, K::N(n) if n.is_terminal())).map(|e| e.seq)
  };
  let unsub = o.evs.iter().find(|e| matches!(e.k, K::Mark("unsub_call", _))).map(|e| e.seq);
  let unsub_ret = o.evs.iter().find(|e| matches!(e.k, K::Mark("unsub_ret", _))).map(|e| e.seq);
  let first = match (term, unsub) {
    (Some(a), Some(b)) => Some(a.min(b)),
    (a, b) => a.or(b),
  };
  let show = |why: &str| json!({"why": why, "finalize_calls": fins.len(), "history": format!("{:?}", c.history)});
  if fins.len() > 1 {
    return Some(("finalize_twice".into(), show("the callback ran more than once")));
  }
  // the callback marks the end of the subscription: nothing reaches the subscriber afterwards
  if c.downstream.is_none() {
    if let Some(f) = fins.first() {
      if let Some(late) = o.evs.iter().find(|e| e.id == 1 && e.seq > *f && matches!(e.k, K::N(_))) {
        return Some(("delivery_after_finalize".into(), show(&format!("{:?} was delivered to the subscriber after the callback had run", late.k))));
      }
    }
  }
  match (first, fins.first()) {
    (None, Some(_)) => Some(("finalize_before_end".into(), show("the callback ran although the subscription was neither completed, failed nor unsubscribed"))),
    (Some(_), None) => Some(("finalize_missing".into(), show("the subscription ended but the callback never ran"))),
    (Some(f), Some(s)) => {
      if *s < f {
        return Some(("finalize_before_end".into(), show("the callback ran before the triggering event")));
      }
      // right after: before the next history step begins, and for an
      // unsubscription before unsubscribe() returns
      let next_step = o.step_seq.iter().find(|q| **q > f).cloned().unwrap_or(u64::MAX);
      if *s > next_step {
        return Some(("finalize_late".into(), show("the callback did not run right after the first terminating event")));
      }
      if Some(f) == unsub && unsub_ret.map_or(false, |r| *s > r) {
        return Some(("finalize_late".into(), show("the callback ran after unsubscribe() had returned")));
      }
      None
    }
    (None, None) => None,
  }
}

/// the subscriber's own handler panics while it is handed the terminal (user code); the panic is
/// caught further up and the subscription is then unsubscribed (or its guard dropped by the
/// unwinder): counted over the whole history the callback must have run exactly once.
/// Local form only: with the thread-safe form the panic poisons the library's mutexes.
fn panicking_subscriber_battery(rep: &mut Report) {
  use rxrust::prelude::*;
  use std::cell::Cell;
  use std::rc::Rc;
  struct Picky {
    items: Rc<Cell<u32>>,
  }
  impl Observer<V, E> for Picky {
    fn next(&mut self, _: V) {
      self.items.set(self.items.get() + 1);
    }
    fn error(self, _: E) {
      panic!("subscriber code fails while handling the error");
    }
    fn complete(self) {
      panic!("subscriber code fails while handling the completion");
    }
    fn is_finished(&self) -> bool {
      false
    }
  }
  for by_error in [false, true] {
    for guard in [false, true] {
      for stacked in [false, true] {
        rep.evaluations += 1;
        rep.count("histories_with_a_subscriber_that_panics_on_the_terminal", 1);
        let id = format!("panicking:{}:{}:{}", by_error, guard, stacked);
        let runs = Rc::new(Cell::new(0u32));
        let runs2 = Rc::new(Cell::new(0u32));
        let items = Rc::new(Cell::new(0u32));
        let mut subj = Subject::<'static, V, E>::default();
        let (r1, r2) = (runs.clone(), runs2.clone());
        let boxed: rxrust::ops::box_it::BoxOp<'static, V, E> = if stacked {
          subj.clone().finalize(move || r2.set(r2.get() + 1)).finalize(move || r1.set(r1.get() + 1)).box_it()
        } else {
          r2.set(1);
          subj.clone().finalize(move || r1.set(r1.get() + 1)).box_it()
        };
        let handle = boxed.actual_subscribe(Picky { items: items.clone() });
        subj.next(V::I(1));
        let s2 = subj.clone();
        if guard {
          // the guard lives in the scope the panic leaves: it is dropped by the unwinder
          let _ = std::panic::catch_unwind(std::panic::AssertUnwindSafe(move || {
            let _g = handle.unsubscribe_when_dropped();
            if by_error {
              s2.error(7)
            } else {
              s2.complete()
            }
          }));
        } else {
          // the panic is caught around the source's call; the program then unsubscribes
          let _ = std::panic::catch_unwind(std::panic::AssertUnwindSafe(move || if by_error { s2.error(7) } else { s2.complete() }));
          handle.unsubscribe();
        }
        rep.events += 3;
        let (a, b) = (runs.get(), runs2.get());
        if a != 1 || b != 1 {
          rep.violation(
            "callback_count",
            "finalize[subscriber panics on the terminal]",
            &id,
            json!({"terminal": if by_error { "error" } else { "complete" }, "guard_dropped_by_the_unwinder": guard, "stacked": stacked,
                   "callback_runs": a, "upper_callback_runs": if stacked { json!(b) } else { json!("n/a") }, "expected": 1}),
          );
        } else {
          rep.nontrivial.insert(hash64(&id));
        }
      }
    }
  }
}

pub fn run(cfg: &Cfg, rep: &mut Report) {
  if cfg.shard == 0 && cfg.only_case.as_deref().map_or(true, |c| c.starts_with("panicking:")) {
    panicking_subscriber_battery(rep);
  }
  let total = cfg.n(600_000, 30_000_000);
  let max_len = cfg.n(6, 10);
  let mut rng = Rng::new(cfg.seed ^ 0xC15);
  for i in 0..total {
    let mut r = rng.fork();
    if !cfg.mine(i) {
      continue;
    }
    let id = format!("fin:{}", i);
    if !cfg.wants(&id) {
      continue;
    }
    let c = random_case(&mut r, max_len);
    rep.evaluations += 1;
    let o = observe(&c);
    rep.set("operators_covered", if c.flavor == Flavor::Threads { "finalize_threads" } else { "finalize" });
    if let Ok(obs) = &o {
      rep.events += obs.evs.len() as u64;
      let triggers = c.history.iter().filter(|t| !matches!(t, Trig::Item | Trig::DropHandle | Trig::SourceGone)).count();
      if triggers >= 2 {
        rep.nontrivial.insert(hash64(&c));
      }
      let first = c.history.iter().find(|t| !matches!(t, Trig::Item | Trig::DropHandle | Trig::SourceGone));
      if c.history.contains(&Trig::DropHandle) {
        rep.count("histories_ending_without_any_event", 1);
      }
      if let Some(f) = first {
        rep.count(&format!("first_trigger_{:?}", f).to_lowercase(), 1);
      }
    }
    if let Some((kind, detail)) = judge(&c, &o) {
      let mut cur = c.clone();
      let mut j = 0;
      while j < cur.history.len() {
        let mut cand = cur.clone();
        cand.history.remove(j);
        if judge(&cand, &observe(&cand)).map_or(false, |(k, _)| k == kind) {
          cur = cand
        } else {
          j += 1
        }
      }
      let first = cur.history.iter().find(|t| !matches!(t, Trig::Item | Trig::DropHandle | Trig::SourceGone)).map(|t| format!("{:?}", t).to_lowercase()).unwrap_or("none".into());
      let fl = if c.flavor == Flavor::Threads { "finalize_threads" } else { "finalize" };
      rep.violation(&kind, &format!("{}[first={}]", fl, first), &id, json!({"case": format!("{:?}", c), "shrunk_history": format!("{:?}", cur.history), "result": detail}));
    } else if let Ok(obs) = &o {
      rep.sample_some(9001, || {
        json!({"case": id, "upstream": format!("{:?}", c.upstream), "history": format!("{:?}", c.history),
               "log": obs.evs.iter().filter(|e| e.id == 1 || e.id == FIN).map(|e| format!("{}:{:?}", e.id, e.k)).collect::<Vec<_>>()})
      });
    }
  }

  // several subscriptions made from clones of ONE finalize(..) value over one
  // hot subject: each subscription owes its own callback run
  if cfg.only_case.is_none() || cfg.only_case.as_deref().map_or(false, |c| c.starts_with("clones")) {
    let trigs = [CTrig::Item, CTrig::Unsub(0), CTrig::Unsub(1), CTrig::Unsub(2), CTrig::Complete, CTrig::Error];
    let max = cfg.n(4, 5);
    let mut idx = 0usize;
    let mut hist: Vec<usize> = vec![];
    // all histories up to length max over the six triggers
    loop {
      idx += 1;
      if cfg.mine(idx) {
        let h: Vec<CTrig> = hist.iter().map(|i| trigs[*i]).collect();
        for threads in [false, true] {
          let id = format!("clones:{}:{}", idx, threads);
          if !cfg.wants(&id) {
            continue;
          }
          rep.evaluations += 1;
          rep.count("histories_over_cloned_finalize_values", 1);
          if h.iter().filter(|t| !matches!(t, CTrig::Item)).count() >= 2 {
            rep.nontrivial.insert(hash64(&("clones", &h, threads)));
          }
          rep.events += h.len() as u64;
          if let Some(why) = clone_case(threads, &h) {
            let fl = if threads { "finalize_threads" } else { "finalize" };
            rep.violation("finalize_not_per_subscription", &format!("{}[clones of one operator value]", fl), &id, json!({"history": format!("{:?}", h), "why": why}));
          }
        }
      }
      // next history (odometer)
      let mut k = 0;
      loop {
        if k == hist.len() {
          hist.push(0);
          break;
        }
        hist[k] += 1;
        if hist[k] < trigs.len() {
          break;
        }
        hist[k] = 0;
        k += 1;
      }
      if hist.len() > max {
        break;
      }
    }
  }

  // thread part: terminating thread vs unsubscribing thread on finalize_threads (baton scheduler)
  let n = cfg.n(12_000, 600_000);
  super::thr::systematic_families(cfg, rep, 0xC15A, &[10, 10, 10], &|_, _| {}, &|o, _| super::thr::finalize_oracle(o));
  super::thr::campaign(cfg, rep, "thr", n, 0xC15F, &mut |r: &mut Rng| super::thr::random_scen(r, 10), &|o, _| super::thr::finalize_oracle(o));
  super::thr::systematic_families(cfg, rep, 0xC15B, &[27, 27, 27], &|_, _| {}, &|o, _| super::thr::finalize_behind_subscribe_on(o));
  super::thr::campaign(cfg, rep, "thrso", cfg.n(6_000, 300_000), 0xC15C, &mut |r: &mut Rng| super::thr::random_scen(r, 27), &|o, _| super::thr::finalize_behind_subscribe_on(o));
}

#[derive(Clone, Copy, Debug, PartialEq, Eq, Hash)]
pub enum CTrig {
  Item,
  Unsub(usize),
  Complete,
  Error,
}

macro_rules! clone_drive {
  ($subj:ty, $fin:ident, $h:expr) => {{
    use rxrust::prelude::*;
    use std::sync::atomic::{AtomicUsize, Ordering};
    use std::sync::Arc;
    let h: &[CTrig] = $h;
    let log = Log::new();
    let mut subj = <$subj>::default();
    let runs = Arc::new(AtomicUsize::new(0));
    let r2 = runs.clone();
    let op = subj.clone().$fin(move || {
      r2.fetch_add(1, Ordering::SeqCst);
    });
    // three subscriptions from clones of the same operator value
    let mut subs = vec![
      Some(op.clone().actual_subscribe(Probe::new(1, &log))),
      Some(op.clone().actual_subscribe(Probe::new(2, &log))),
      Some(op.actual_subscribe(Probe::new(3, &log))),
    ];
    let mut alive = [true, true, true];
    let mut expected = 0usize;
    let mut why = None;
    if runs.load(Ordering::SeqCst) != 0 {
      why = Some("the callback ran while subscribing".to_string());
    }
    for (i, t) in h.iter().enumerate() {
      match t {
        CTrig::Item => subj.next(V::I(i as i64)),
        CTrig::Unsub(k) => {
          if let Some(u) = subs[*k].take() {
            u.unsubscribe();
            if alive[*k] {
              alive[*k] = false;
              expected += 1;
            }
          }
        }
        CTrig::Complete | CTrig::Error => {
          if matches!(t, CTrig::Complete) {
            subj.clone().complete()
          } else {
            subj.clone().error(7)
          }
          for a in alive.iter_mut() {
            if *a {
              *a = false;
              expected += 1;
            }
          }
        }
      }
      let got = runs.load(Ordering::SeqCst);
      if got != expected && why.is_none() {
        why = Some(format!("after step {} ({:?}) the callback had run {} times; {} subscriptions had ended by then", i, t, got, expected));
      }
    }
    why
  }};
}

pub fn clone_case(threads: bool, h: &[CTrig]) -> Option<String> {
  match catch(|| if threads { clone_drive!(SubjectThreads<V, E>, finalize_threads, h) } else { clone_drive!(Subject<'static, V, E>, finalize, h) }) {
    Ok(w) => w,
    Err(p) => Some(format!("panic: {}", p)),
  }
}
