//! C01 — every subscriber sees items, then at most one terminal, then nothing.
use super::common::*;
use crate::gen::*;
use crate::log::*;
use crate::report::{Cfg, Report};
use crate::value::*;
use crate::world::*;
use serde_json::json;

fn violation_of(r: &Result<RunOut, String>) -> Option<(u32, String)> {
  let Ok(run) = r else { return None };
  for id in ids_of(&run.evs) {
    if let Some(msg) = grammar_violation(&notes_of(&run.evs, id)) {
      return Some((id, msg));
    }
  }
  None
}

pub fn run(cfg: &Cfg, rep: &mut Report) {
  let total = cfg.n(150_000, 12_000_000);
  let gcfg = GenCfg::full(cfg.n(3, 5), cfg.n(8, 16));
  let mut rng = Rng::new(cfg.seed ^ 0xC01);
  for i in 0..total {
    let mut r = rng.fork();
    if !cfg.mine(i) {
      continue;
    }
    let id = format!("pipe:{}", i);
    if !cfg.wants(&id) {
      continue;
    }
    let pipe = random_pipe(&mut r, &gcfg);
    let flavor = if r.chance(1, 3) { Flavor::Threads } else { Flavor::Local };
    let policy = if r.chance(1, 2) { Policy::Fifo } else { Policy::Any };
    let late = r.chance(1, 3);
    let seed = r.next();
    rep.evaluations += 1;
    let out = run_pipe(flavor, &pipe, policy, late, seed, &mut |_, _, _| {});
    for n in pipe.chain.api_names() {
      rep.set("operators_covered", n);
    }
    match &out {
      Err(p) => {
        // panics are owned by C05 / C10; here they only make the case unusable
        rep.count("cases_panicked", 1);
        rep.set("panic_sites", p.rsplit(" @ ").next().unwrap_or(""));
      }
      Ok(run) => {
        rep.events += run.evs.iter().filter(|e| matches!(e.k, K::N(_))).count() as u64;
        rep.count("observer_ids_checked", ids_of(&run.evs).len() as u64);
        // non-trivial: the final subscriber got a terminal and an input event was injected after it
        let term = run.evs.iter().find(|e| e.id == 1 && matches!(&e.k, K::N(n) if n.is_terminal())).map(|e| e.seq);
        let later_act = term.map_or(false, |t| run.evs.iter().any(|e| e.seq > t && matches!(e.k, K::Mark("act", _))));
        if later_act {
          rep.nontrivial.insert(hash64(&(&pipe, flavor)));
        }
        rep.distinct("distinct_schedules", run.choice_hash ^ hash64(&pipe));
        if run.max_ready >= 2 {
          rep.count("runs_with_2plus_ready_tasks", 1);
        }
      }
    }
    if let Some((pid, msg)) = violation_of(&out) {
      let mut still = |c: &crate::ast::Chain| {
        let mut p2 = pipe.clone();
        p2.chain = c.clone();
        violation_of(&run_pipe(flavor, &p2, policy, late, seed, &mut |_, _, _| {})).is_some()
      };
      let small = shrink_chain(&pipe.chain, &mut still);
      rep.violation(
        "notification_after_terminal",
        &locus_of(&small),
        &id,
        json!({"chain": pipe.chain.show(), "shrunk_chain": small.show(), "observer_id": pid, "what": msg,
               "flavor": format!("{:?}", flavor), "policy": format!("{:?}", policy), "late": late,
               "acts": format!("{:?}", pipe.acts)}),
      );
    } else if let Ok(run) = &out {
      rep.sample_some(7919, || {
        json!({"case": id, "chain": pipe.chain.show(), "flavor": format!("{:?}", flavor),
               "acts": pipe.acts.len(), "final_subscriber_saw": jn(&notes_of(&run.evs, 1)),
               "observer_ids": ids_of(&run.evs)})
      });
    }
  }
}
