//! C07 — scheduler-moving operators preserve the source's sequence and never
//! deliver earlier than the configured delay.
use super::common::*;
use crate::ast::*;
use crate::gen::Pipe;
use crate::log::{catch, clear_local_cbs, set_local_cb, K};
use crate::report::{Cfg, Report};
use crate::value::*;
use crate::vtime::MS;
use crate::world::*;
use rxrust::observer::Observer;
use serde_json::json;

#[derive(Clone, Debug, PartialEq, Eq, Hash)]
pub struct Case {
  pub ops: Vec<Op>,
  pub cold: Option<Vec<N>>,
  pub acts: Vec<TAct>,
  pub flavor: Flavor,
  pub policy: Policy,
  pub late: bool,
  pub seed: u64,
}

fn mover(r: &mut Rng) -> Op {
  let d = [0u64, 1, 5, 50][r.below(4)];
  match r.below(10) {
    0 | 1 | 2 => Op::ObserveOn,
    3 | 4 => Op::Delay(d),
    5 => Op::DelayUs([250, 999, 1500][r.below(3)]),
    6 => Op::DelayAt(*r.pick(&[-30i64, 0, 40, 3_600_000])),
    7 => Op::DelaySubscription(d),
    8 => Op::DelaySubscriptionAt(*r.pick(&[-30i64, 40, 3_600_000])),
    _ => Op::SubscribeOn,
  }
}

fn transparent(r: &mut Rng) -> Op {
  match r.below(5) {
    0 => Op::Map(MapF::Ident),
    1 => Op::Filter(Pred::True),
    2 => Op::Tap(70),
    3 => Op::BoxIt,
    _ => Op::Spy(40),
  }
}

fn subscription_mover(op: &Op) -> bool {
  matches!(op, Op::DelaySubscription(_) | Op::DelaySubscriptionAt(_) | Op::SubscribeOn)
}

pub fn random_case(r: &mut Rng, max_events: usize) -> Case {
  let mut ops = vec![];
  for _ in 0..r.below(2) {
    ops.push(transparent(r));
  }
  ops.push(mover(r));
  if r.chance(1, 4) {
    ops.push(mover(r));
  }
  for _ in 0..r.below(2) {
    ops.push(transparent(r));
  }
  // a subscription-moving operator over a hot source would lose whatever is
  // emitted before the deferred subscription: those get a cold source
  let needs_cold = ops.iter().any(subscription_mover);
  let n = 1 + r.below(max_events);
  let items: Vec<N> = (0..n).map(|i| N::Next(V::I(100 + i as i64))).collect();
  let term = match r.below(5) {
    0 => None,
    1 => Some(N::Err(7)),
    _ => Some(N::Complete),
  };
  let (cold, acts) = if needs_cold {
    let mut s = items;
    s.push(if matches!(term, Some(N::Err(_))) { N::Err(7) } else { N::Complete });
    (Some(s), vec![])
  } else {
    let mut t = 0;
    let gaps = [0u64, 0, 1, 2, 5, 10, 60];
    let mut acts = vec![];
    let unterminated = term.is_none();
    for n in items.into_iter().chain(term) {
      t += gaps[r.below(gaps.len())] * MS;
      acts.push(TAct { t, act: Act::In(0, n) });
    }
    // half of the unterminated scripts: the program lets its handle go and the source drops
    // its observers while items may still be on their way; they are still owed
    if unterminated && r.chance(1, 2) {
      t += gaps[r.below(gaps.len())] * MS;
      acts.push(TAct { t, act: Act::Gone(0) });
    }
    (None, acts)
  };
  Case {
    ops,
    cold,
    acts,
    flavor: [Flavor::Local, Flavor::Threads, Flavor::Local, Flavor::Threads, Flavor::LocalPool][r.below(5)],
    policy: if r.chance(1, 2) { Policy::Fifo } else { Policy::Any },
    late: r.chance(1, 2),
    seed: r.next(),
  }
}

pub struct Obs {
  pub timed: Vec<(u64, N)>,
  pub emit_at: Vec<(i64, u64)>,
  pub eps: u64,
  pub max_ready: usize,
  pub choice_hash: u64,
  pub pending_across_event: bool,
}

pub fn observe(c: &Case) -> Result<Obs, String> {
  // the real LocalPool runs its tasks in its own (FIFO) order
  let mut c2;
  let c = if c.flavor == Flavor::LocalPool && c.policy != Policy::Fifo {
    c2 = c.clone();
    c2.policy = Policy::Fifo;
    &c2
  } else {
    c
  };
  let src = match &c.cold {
    Some(s) => Src::CreateSync(s.clone()),
    None => Src::Hot(0),
  };
  let pipe = Pipe { chain: Chain::new(src, c.ops.clone()), n_hot: 1, acts: c.acts.clone(), horizon: u64::MAX / 4 };
  let t0 = std::time::Instant::now();
  let mut pending_across_event = false;
  let out = run_pipe(c.flavor, &pipe, c.policy, c.late, c.seed, &mut |_, step, _| {
    if step > 0 && crate::vtime::pending_count() > 0 {
      pending_across_event = true;
    }
  })?;
  let eps = t0.elapsed().as_nanos() as u64 + 1_000_000;
  // emission instants of hot items: the vt of the "act" mark that injected them
  let mut emit_at = vec![];
  for e in &out.evs {
    if let K::Mark("act", i) = e.k {
      if let Some(TAct { act: Act::In(_, N::Next(v)), .. }) = c.acts.get(i as usize) {
        emit_at.push((v.int(), e.vt));
      }
    }
  }
  Ok(Obs {
    timed: timed_of(&out.evs, 1),
    emit_at,
    eps,
    max_ready: out.max_ready,
    choice_hash: out.choice_hash,
    pending_across_event,
  })
}

fn exec_class(c: &Case) -> &'static str {
  if c.flavor == Flavor::LocalPool {
    return "fifo";
  }
  match c.policy {
    Policy::Fifo => "fifo",
    Policy::Any => "any-order",
  }
}

pub fn judge(c: &Case, o: &Result<Obs, String>) -> Option<(String, serde_json::Value)> {
  let o = match o {
    Err(p) => return Some(("panic".into(), json!({"panic": p}))),
    Ok(o) => o,
  };
  let notes: Vec<N> = o.timed.iter().map(|(_, n)| n.clone()).collect();
  let src: Vec<N> = match &c.cold {
    Some(s) => crate::model::well_formed(s.clone()),
    None => crate::model::well_formed(c.acts.iter().filter_map(|a| if let Act::In(_, n) = &a.act { Some(n.clone()) } else { None }).collect()),
  };
  let show = || json!({"observed": o.timed.iter().map(|(t, n)| json!([t, n.j()])).collect::<Vec<_>>(), "source": jn(&src)});
  // order / completeness / terminal
  let src_items: Vec<&N> = src.iter().filter(|n| !n.is_terminal()).collect();
  let out_items: Vec<&N> = notes.iter().filter(|n| !n.is_terminal()).collect();
  let ok_seq = match src.last() {
    Some(N::Complete) => notes == src,
    Some(N::Err(e)) => {
      notes.last() == Some(&N::Err(*e)) && out_items.len() <= src_items.len() && out_items.iter().zip(src_items.iter()).all(|(a, b)| a == b)
    }
    _ => notes == src,
  };
  if !ok_seq {
    return Some(("order_not_preserved".into(), show()));
  }
  // never earlier than the configured delay
  let mut total = 0u64;
  let mut tol = 0u64;
  for op in &c.ops {
    match op {
      Op::Delay(d) | Op::DelaySubscription(d) => total += d * MS,
      Op::DelayUs(d) => total += d * 1000,
      Op::DelayAt(off) | Op::DelaySubscriptionAt(off) if *off > 0 => {
        total += *off as u64 * MS;
        tol += o.eps;
      }
      _ => {}
    }
  }
  for (t, n) in &o.timed {
    if let N::Next(v) = n {
      let emitted = if c.cold.is_some() { 0 } else { o.emit_at.iter().find(|(id, _)| *id == v.int()).map_or(0, |(_, t)| *t) };
      if t + tol < emitted + total {
        let mut j = show();
        j["why"] = json!(format!("item {} produced at {}ns delivered at {}ns, configured delay {}ns (tolerance {}ns)", v.int(), emitted, t, total, tol));
        return Some(("early_delivery".into(), j));
      }
    }
  }
  None
}

/// the subscriber's handler panics on one item inside the scheduled task (the scheduler catches
/// the panic); the items behind it and the terminal are still owed, in order. Real LocalPool.
fn panicking_item_battery(rep: &mut Report) {
  use rxrust::prelude::*;
  use std::cell::RefCell;
  use std::rc::Rc;
  struct Picky(Rc<RefCell<Vec<String>>>);
  impl Observer<V, E> for Picky {
    fn next(&mut self, v: V) {
      if v.int() == 13 {
        panic!("the subscriber fails on an item");
      }
      self.0.borrow_mut().push(format!("next {}", v.int()));
    }
    fn error(self, e: E) {
      self.0.borrow_mut().push(format!("error {}", e));
    }
    fn complete(self) {
      self.0.borrow_mut().push("complete".into());
    }
    fn is_finished(&self) -> bool {
      false
    }
  }
  for op in 0..3 {
    for (k, script) in [vec![13i64, 2, 3], vec![1, 13, 3, 4], vec![1, 2, 13]].into_iter().enumerate() {
      for by_error in [false, true] {
        let id = format!("panicking-item:{}:{}:{}", op, k, by_error);
        rep.evaluations += 1;
        rep.count("histories_with_a_subscriber_that_panics_on_an_item", 1);
        crate::vtime::reset();
        let mut pool = futures::executor::LocalPool::new();
        let log: Rc<RefCell<Vec<String>>> = Default::default();
        let mut subj = Subject::<'static, V, E>::default();
        let name = ["observe_on", "delay(0)", "delay(1ms)"][op];
        match op {
          0 => std::mem::forget(subj.clone().observe_on(pool.spawner()).actual_subscribe(Picky(log.clone()))),
          1 => std::mem::forget(subj.clone().delay(Duration::from_millis(0), pool.spawner()).actual_subscribe(Picky(log.clone()))),
          _ => std::mem::forget(subj.clone().delay(Duration::from_millis(1), pool.spawner()).actual_subscribe(Picky(log.clone()))),
        }
        let drive = |pool: &mut futures::executor::LocalPool| {
          pool.run_until_stalled();
          crate::vtime::advance_to(crate::vtime::now() + 5_000_000);
          pool.run_until_stalled();
        };
        for (i, v) in script.iter().enumerate() {
          subj.next(V::I(*v));
          if i % 2 == 1 {
            drive(&mut pool);
          }
        }
        // delay forwards an error at once, ahead of what is still waiting: the terminal is sent
        // once everything before it has been delivered
        drive(&mut pool);
        if by_error {
          subj.clone().error(7)
        } else {
          subj.clone().complete()
        }
        drive(&mut pool);
        let mut want: Vec<String> = script.iter().filter(|v| **v != 13).map(|v| format!("next {}", v)).collect();
        want.push(if by_error { "error 7".into() } else { "complete".into() });
        let got = log.borrow().clone();
        rep.events += got.len() as u64 + 1;
        if got != want {
          rep.violation("items_or_terminal_lost", &format!("{}[the subscriber panicked on an item]", name), &id, json!({"script": script, "observed": got, "expected": want}));
        } else {
          rep.nontrivial.insert(hash64(&id));
        }
      }
    }
  }
}

pub fn run(cfg: &Cfg, rep: &mut Report) {
  if cfg.shard == 0 && cfg.only_case.as_deref().map_or(true, |c| c.starts_with("panicking-item:")) {
    panicking_item_battery(rep);
  }
  let total = cfg.n(600_000, 20_000_000);
  let maxev = cfg.n(5, 9);
  let mut rng = Rng::new(cfg.seed ^ 0xC07);
  for i in 0..total {
    let mut r = rng.fork();
    if !cfg.mine(i) {
      continue;
    }
    let id = format!("mv:{}", i);
    if !cfg.wants(&id) {
      continue;
    }
    let c = random_case(&mut r, maxev);
    if c.acts.iter().any(|a| matches!(a.act, Act::Gone(_))) {
      rep.count("scripts_whose_source_goes_away_unterminated", 1);
    }
    rep.evaluations += 1;
    let o = observe(&c);
    let fl = if c.flavor == Flavor::Threads { "_threads" } else { "" };
    if c.flavor == Flavor::LocalPool {
      rep.count("runs_on_the_real_LocalPool", 1);
    }
    for op in &c.ops {
      if op.uses_scheduler() {
        rep.set("operators_covered", &format!("{}{}", op.name(), if matches!(op, Op::Delay(_) | Op::DelayUs(_) | Op::DelayAt(_) | Op::ObserveOn) { fl } else { "" }));
      }
    }
    if let Ok(obs) = &o {
      rep.events += obs.timed.len() as u64;
      if obs.max_ready >= 2 || obs.pending_across_event {
        rep.nontrivial.insert(hash64(&c));
      }
      if obs.max_ready >= 2 {
        rep.count("runs_where_task_order_was_a_choice", 1);
      }
      rep.distinct("distinct_schedules", obs.choice_hash ^ hash64(&(&c.ops, &c.acts)));
    }
    if let Some((kind, detail)) = judge(&c, &o) {
      let name_of = |op: &Op| format!("{}{}", op.name(), if matches!(op, Op::Delay(_) | Op::DelayUs(_) | Op::DelayAt(_) | Op::ObserveOn) { fl } else { "" });
      // Blame: which scheduler operator of the case shows the same kind of
      // violation on its own (same script, same executor class, several
      // schedule seeds)? Falls back to the combination if none does.
      let violates = |cand: &Case| {
        (0..64u64).any(|k| {
          let mut c2 = cand.clone();
          c2.seed = cand.seed.wrapping_add(k.wrapping_mul(0x9E37));
          if k >= 8 {
            c2.late = true;
          }
          judge(&c2, &observe(&c2)).map_or(false, |(k2, _)| k2 == kind)
        })
      };
      let mut blamed: Option<String> = None;
      for op in c.ops.iter().filter(|op| op.uses_scheduler()) {
        let mut single = c.clone();
        single.ops = vec![op.clone()];
        if c.cold.is_none() && subscription_mover(op) {
          continue;
        }
        if violates(&single) {
          blamed = Some(name_of(op));
          break;
        }
      }
      // Under the any-order executor a reordering in a pipeline that contains one of the
      // one-task-per-notification operators
      // (observe_on, delay, delay_at) is that family's reordering even if no
      // single operator happened to reproduce it within the sampled seeds.
      let family = |op: &Op| matches!(op, Op::ObserveOn | Op::Delay(_) | Op::DelayUs(_) | Op::DelayAt(_));
      if blamed.is_none()
        && kind == "order_not_preserved"
        && exec_class(&c) == "any-order"
        && c.ops.iter().any(family)
      {
        blamed = c.ops.iter().find(|op| family(op)).map(name_of);
      }
      let locus = match blamed {
        Some(b) => format!("{}[{}]", b, exec_class(&c)),
        None => {
          let mut names: Vec<String> = c.ops.iter().filter(|op| op.uses_scheduler()).map(name_of).collect();
          names.sort();
          names.dedup();
          format!("{}[{}]", names.join("+"), exec_class(&c))
        }
      };
      rep.violation(&kind, &locus, &id, json!({"case": format!("{:?}", c), "result": detail}));
    } else if let Ok(obs) = &o {
      rep.sample_some(6011, || {
        json!({"case": id, "ops": format!("{:?}", c.ops), "executor": exec_class(&c), "late_schedule": c.late,
               "observed_at_ns": obs.timed.iter().map(|(t, n)| json!([t, n.j()])).collect::<Vec<_>>()})
      });
    }
  }

  // Informational: the same observe_on_threads pipeline on the library's real
  // 4-worker futures ThreadPool (free-running, no hooks). Counts how often the
  // real scheduler reorders or loses items (the known finding's witness on a
  // scheduler the library itself ships); never a verdict.
  if cfg.shard == 0 && cfg.only_case.is_none() {
    use rxrust::prelude::*;
    use std::sync::{Arc, Mutex};
    let prev = crate::conc::mode();
    crate::conc::set_mode(crate::conc::OFF);
    if let Ok(pool) = futures::executor::ThreadPool::builder().pool_size(4).create() {
      let runs = cfg.n(150, 1500);
      let (mut reordered, mut lost) = (0u64, 0u64);
      for _ in 0..runs {
        let got: Arc<Mutex<Vec<i32>>> = Arc::new(Mutex::new(vec![]));
        let g2 = got.clone();
        let (o, status) = observable::from_iter(0..20).observe_on_threads(pool.clone()).complete_status();
        o.subscribe(move |v| g2.lock().unwrap().push(v));
        rxrust::ops::complete_status::CompleteStatus::wait_for_end(status);
        let v = got.lock().unwrap().clone();
        if v.len() < 20 {
          lost += 1;
        } else if v.windows(2).any(|w| w[0] > w[1]) {
          reordered += 1;
        }
      }
      rep.count("threadpool4_free_runs", runs as u64);
      rep.count("threadpool4_runs_reordered", reordered);
      rep.count("threadpool4_runs_with_lost_items", lost);
    }
    crate::conc::set_mode(prev);
  }

  // feedback loops: the consumer's callback produces the next source item (the classic use of
  // observe_on / delay to break synchronous recursion); every item must still arrive, in order
  if cfg.only_case.is_none() || cfg.only_case.as_deref().map_or(false, |c| c.starts_with("feedback")) {
    let shapes: Vec<Vec<Op>> = vec![
      vec![Op::ObserveOn],
      vec![Op::Delay(0)],
      vec![Op::Delay(1)],
      vec![Op::ObserveOn, Op::Map(MapF::Add(0))],
      vec![Op::Map(MapF::Add(0)), Op::ObserveOn, Op::Tap(71)],
      vec![Op::ObserveOn, Op::ObserveOn],
      vec![Op::Delay(1), Op::ObserveOn],
      vec![Op::ObserveOn, Op::Filter(Pred::True), Op::Delay(0)],
    ];
    let mut idx = 0usize;
    for ops in &shapes {
      for flavor in [Flavor::Local, Flavor::Threads, Flavor::LocalPool] {
        for n in 1..=cfg.n(4, 8) {
          for terminal in [0u8, 1, 2] {
            idx += 1;
            if !cfg.mine(idx) {
              continue;
            }
            let id = format!("feedback:{}", idx);
            if !cfg.wants(&id) {
              continue;
            }
            rep.evaluations += 1;
            rep.count("feedback_loop_cases", 1);
            let (want, got) = feedback_case(flavor, ops, n, terminal);
            rep.events += n as u64 + 1;
            if n >= 2 {
              rep.nontrivial.insert(hash64(&("feedback", ops, flavor, n, terminal)));
            }
            match got {
              Err(p) => rep.violation("panic", &format!("{}[feedback loop]", Chain::new(Src::Hot(0), ops.clone()).api_names().into_iter().filter(|n| *n != "subject").collect::<Vec<_>>().join("+")), &id, json!({"ops": format!("{:?}", ops), "flavor": format!("{:?}", flavor), "panic": p})),
              Ok(out) if out != want => {
                let name = Chain::new(Src::Hot(0), ops.clone()).api_names().into_iter().filter(|n| *n != "subject").collect::<Vec<_>>().join("+");
                rep.violation("items_or_terminal_lost", &format!("{}[feedback loop]", name), &id, json!({"ops": format!("{:?}", ops), "flavor": format!("{:?}", flavor), "expected": jn(&want), "observed": jn(&out)}));
              }
              _ => {}
            }
          }
        }
      }
    }
  }

  // long-lived subscriptions: a couple of hundred notifications through one observe_on / delay
  // subscription, in bursts separated by quiet moments in which everything scheduled has run
  if cfg.only_case.is_none() || cfg.only_case.as_deref().map_or(false, |c| c.starts_with("long")) {
    let mut idx = 0usize;
    let mut r = Rng::new(cfg.seed ^ 0xC07106);
    for _ in 0..cfg.n(40, 2_000) {
      for flavor in [Flavor::Local, Flavor::Threads, Flavor::LocalPool] {
        for op in [Op::ObserveOn, Op::Delay(0), Op::Delay(1), Op::DelayAt(-5)] {
          idx += 1;
          let bursts: Vec<usize> = (0..3 + r.below(6)).map(|_| 1 + r.below(70)).collect();
          let terminal = r.below(3) as u8;
          if !cfg.mine(idx) {
            continue;
          }
          let id = format!("long:{}", idx);
          if !cfg.wants(&id) {
            continue;
          }
          rep.evaluations += 1;
          rep.count("long_lived_subscription_cases", 1);
          let (want, got) = long_case(flavor, &op, &bursts, terminal);
          rep.events += want.len() as u64;
          rep.nontrivial.insert(hash64(&("long", flavor, &op, &bursts, terminal)));
          match got {
            Err(p) => rep.violation("panic", &format!("{}[long-lived subscription]", op.name()), &id, json!({"flavor": format!("{:?}", flavor), "bursts": bursts, "panic": p})),
            Ok(out) if out != want => {
              let first_bad = out.iter().zip(want.iter()).position(|(a, b)| a != b).unwrap_or(out.len().min(want.len()));
              rep.violation("items_or_terminal_lost", &format!("{}[long-lived subscription]", op.name()), &id, json!({"flavor": format!("{:?}", flavor), "bursts": bursts, "expected_notifications": want.len(), "observed_notifications": out.len(), "first_difference_at": first_bad}));
            }
            _ => {}
          }
        }
      }
    }
  }

  // the real clock crosses the instant of delay_at in the middle of the source's history
  // (a few milliseconds of real sleeping per case, hence a small battery)
  if cfg.only_case.is_none() || cfg.only_case.as_deref().map_or(false, |c| c.starts_with("crossing")) {
    let reps = cfg.n(6, 60);
    let mut idx = 0usize;
    for rep_i in 0..reps {
      for flavor in [Flavor::Local, Flavor::Threads, Flavor::LocalPool] {
        for before in 1..=2usize {
          idx += 1;
          if !cfg.mine(idx) {
            continue;
          }
          let id = format!("crossing:{}", idx);
          if !cfg.wants(&id) {
            continue;
          }
          rep.evaluations += 1;
          rep.count("delay_at_instant_crossed_mid_history", 1);
          let (want, got) = crossing_case(flavor, before, 1 + rep_i % 3);
          rep.events += want.len() as u64;
          rep.nontrivial.insert(hash64(&("crossing", flavor, before, rep_i)));
          match got {
            Err(p) => rep.violation("panic", "delay_at[instant crossed mid-history]", &id, json!({"flavor": format!("{:?}", flavor), "panic": p})),
            Ok(out) if out != want => rep.violation("order_not_preserved", "delay_at[instant crossed mid-history]", &id, json!({"flavor": format!("{:?}", flavor), "expected": jn(&want), "observed": jn(&out)})),
            _ => {}
          }
        }
      }
    }
  }

  // thread part: the producer on one thread, the operator's tasks on a FIFO
  // worker thread (a single-threaded pool running on its own thread)
  let n = cfg.n(8_000, 400_000);
  let fams = [21usize, 22];
  super::thr::systematic_families(cfg, rep, 0xC07A, &fams, &|_, _| {}, &|o, s| super::thr::moved_oracle(o, s));
  super::thr::campaign(cfg, rep, "thr", n, 0xC07F, &mut |r: &mut Rng| {
    let f = fams[r.below(2)];
    super::thr::random_scen(r, f)
  }, &|o, s| super::thr::moved_oracle(o, s));
  super::thr::free_campaign(cfg, rep, cfg.n(1_500, 150_000), 0xC07E, &mut |r: &mut Rng| {
    let f = fams[r.below(2)];
    super::thr::random_scen(r, f)
  }, &|o, s| super::thr::moved_oracle(o, s));
}

/// the subscriber's callback feeds the source: item x makes it push x+1 (up to
/// n items); when the loop has run dry the source completes / fails / stays open from outside
fn feedback_case(flavor: Flavor, ops: &[Op], n: usize, terminal: u8) -> (Vec<N>, Result<Vec<N>, String>) {
  use std::rc::Rc;
  let last = 100 + n as i64 - 1;
  let mut want: Vec<N> = (100..=last).map(|x| N::Next(V::I(x))).collect();
  match terminal {
    1 => want.push(N::Complete),
    2 => want.push(N::Err(7)),
    _ => {}
  }
  let got = catch(|| {
    let mut w = World::new(flavor, 1);
    w.timer_ties_fifo = true;
    let chain = Chain::new(Src::Hot(0), ops.to_vec());
    let (hl, ht) = (w.l.hot[0].clone(), w.t.hot[0].clone());
    let threads = flavor == Flavor::Threads;
    set_local_cb(
      1,
      Rc::new(move |nn: &N| {
        if let N::Next(v) = nn {
          let x = v.int();
          // only items are produced from inside the callback: a terminal issued re-entrantly
          // makes the subject ask the (currently borrowed) observers whether they are
          // finished, which is outside what the library supports and outside the property
          let act = if x < last { Some(N::Next(V::I(x + 1))) } else { None };
          if let Some(a) = act {
            if threads {
              let mut h = ht.clone();
              match a {
                N::Next(v) => h.next(v),
                N::Complete => h.complete(),
                N::Err(e) => h.error(e),
              }
            } else {
              let mut h = hl.clone();
              match a {
                N::Next(v) => h.next(v),
                N::Complete => h.complete(),
                N::Err(e) => h.error(e),
              }
            }
          }
        }
      }),
    );
    w.subscribe(&chain, 1);
    w.inject(0, N::Next(V::I(100)));
    let mut rng = Rng::new(5);
    w.drain(Policy::Fifo, u64::MAX / 4, &mut rng);
    // the loop has run dry: the source terminates from outside
    match terminal {
      1 => w.inject(0, N::Complete),
      2 => w.inject(0, N::Err(7)),
      _ => {}
    }
    w.drain(Policy::Fifo, u64::MAX / 4, &mut rng);
    let out = w.log.notes(1);
    clear_local_cbs();
    w.teardown();
    out
  });
  clear_local_cbs();
  (want, got)
}

/// delay_at(now + 2 ms): `before` items are produced before the instant, then the real clock
/// passes it (the thread sleeps 4 ms, nothing runs meanwhile), then `after` items and the
/// completion follow at once; then everything scheduled runs in due order
fn crossing_case(flavor: Flavor, before: usize, after: usize) -> (Vec<N>, Result<Vec<N>, String>) {
  let total = before + after;
  let mut want: Vec<N> = (0..total).map(|i| N::Next(V::I(100 + i as i64))).collect();
  want.push(N::Complete);
  let got = catch(|| {
    let mut w = World::new(flavor, 1);
    w.timer_ties_fifo = true;
    let chain = Chain::new(Src::Hot(0), vec![Op::DelayAt(2)]);
    w.subscribe(&chain, 1);
    for i in 0..before {
      w.inject(0, N::Next(V::I(100 + i as i64)));
    }
    std::thread::sleep(std::time::Duration::from_millis(4));
    for i in before..total {
      w.inject(0, N::Next(V::I(100 + i as i64)));
    }
    w.inject(0, N::Complete);
    let mut rng = Rng::new(9);
    w.drain(Policy::Fifo, u64::MAX / 4, &mut rng);
    let out = w.log.notes(1);
    w.teardown();
    out
  });
  (want, got)
}

/// bursts of items; after every burst everything scheduled runs (a quiet moment); then the terminal
fn long_case(flavor: Flavor, op: &Op, bursts: &[usize], terminal: u8) -> (Vec<N>, Result<Vec<N>, String>) {
  let total: usize = bursts.iter().sum();
  let mut want: Vec<N> = (0..total).map(|i| N::Next(V::I(1000 + i as i64))).collect();
  match terminal {
    1 => want.push(N::Complete),
    2 => want.push(N::Err(7)),
    _ => {}
  }
  let got = catch(|| {
    let mut w = World::new(flavor, 1);
    w.timer_ties_fifo = true;
    let chain = Chain::new(Src::Hot(0), vec![op.clone()]);
    w.subscribe(&chain, 1);
    let mut rng = Rng::new(11);
    let mut k = 0i64;
    for b in bursts {
      for _ in 0..*b {
        w.inject(0, N::Next(V::I(1000 + k)));
        k += 1;
      }
      w.drain(Policy::Fifo, u64::MAX / 4, &mut rng);
    }
    match terminal {
      1 => w.inject(0, N::Complete),
      2 => w.inject(0, N::Err(7)),
      _ => {}
    }
    w.drain(Policy::Fifo, u64::MAX / 4, &mut rng);
    let out = w.log.notes(1);
    w.teardown();
    out
  });
  (want, got)
}
