//! C04 — two-input combinators follow the interleaving of their inputs.
use crate::ast::*;
use crate::log::*;
use crate::model;
use crate::report::{Cfg, Report};
use crate::value::*;
use crate::world::*;
use serde_json::json;

pub const OPS: [&str; 8] =
  ["merge", "zip", "combine_latest", "with_latest_from", "take_until", "skip_until", "sample", "buffer"];

pub fn mk_op(name: &str, other: Chain) -> Op {
  let b = Box::new(other);
  match name {
    "merge" => Op::Merge(b),
    "zip" => Op::Zip(b),
    "combine_latest" => Op::CombineLatest(b),
    "with_latest_from" => Op::WithLatestFrom(b),
    "take_until" => Op::TakeUntil(b),
    "skip_until" => Op::SkipUntil(b),
    "sample" => Op::Sample(b),
    "buffer" => Op::Buffer(b),
    _ => unreachable!(),
  }
}

/// script with unique ids: input k's i-th item is k*100+100+i
pub fn script(k: usize, items: usize, term: u8, post: bool) -> Vec<N> {
  let mut s: Vec<N> = (0..items).map(|i| N::Next(V::I((k * 100 + 100 + i) as i64))).collect();
  match term {
    1 => s.push(N::Complete),
    2 => s.push(N::Err(7 + k as i32)),
    _ => {}
  }
  if post && term != 0 {
    s.push(N::Next(V::I((k * 100 + 190) as i64)));
    s.push(N::Complete);
  }
  s
}

/// every interleaving of two sequences (as a vector of 0/1 picks)
pub fn interleavings(m: usize, n: usize) -> Vec<Vec<usize>> {
  fn go(m: usize, n: usize, cur: &mut Vec<usize>, out: &mut Vec<Vec<usize>>) {
    if m == 0 && n == 0 {
      out.push(cur.clone());
      return;
    }
    if m > 0 {
      cur.push(0);
      go(m - 1, n, cur, out);
      cur.pop();
    }
    if n > 0 {
      cur.push(1);
      go(m, n - 1, cur, out);
      cur.pop();
    }
  }
  let mut out = vec![];
  go(m, n, &mut vec![], &mut out);
  out
}

pub fn timeline_of(a: &[N], b: &[N], picks: &[usize]) -> Vec<(usize, N)> {
  let (mut i, mut j) = (0, 0);
  picks
    .iter()
    .map(|p| {
      if *p == 0 {
        i += 1;
        (0, a[i - 1].clone())
      } else {
        j += 1;
        (1, b[j - 1].clone())
      }
    })
    .collect()
}

#[derive(Clone, Copy, Debug, PartialEq, Eq, Hash)]
pub enum Cold {
  None,
  /// the other input is a cold `create` emitting its script at subscription
  Other,
  /// the main input is cold
  Main,
  /// the other / main input is `from_iter` (a source that consults
  /// `is_finished()` before every item); only for scripts "items, complete"
  OtherIter,
  MainIter,
}

fn iter_src(script: &[N]) -> Src {
  Src::Iter(script.iter().filter_map(|n| if let N::Next(v) = n { Some(v.clone()) } else { None }).collect())
}
fn iterable(script: &[N]) -> bool {
  script.last() == Some(&N::Complete) && script.iter().filter(|n| n.is_terminal()).count() == 1
}

pub fn observe(flavor: Flavor, op: &str, tl: &[(usize, N)], cold: Cold, a: &[N], b: &[N]) -> Result<Vec<N>, String> {
  catch(|| {
    let mut w = World::new(flavor, 2);
    let chain = match cold {
      Cold::None => Chain::new(Src::Hot(0), vec![mk_op(op, Chain::hot(1))]),
      Cold::Other => Chain::new(Src::Hot(0), vec![mk_op(op, Chain::new(Src::CreateSync(b.to_vec()), vec![]))]),
      Cold::Main => Chain::new(Src::CreateSync(a.to_vec()), vec![mk_op(op, Chain::hot(1))]),
      Cold::OtherIter => Chain::new(Src::Hot(0), vec![mk_op(op, Chain::new(iter_src(b), vec![]))]),
      Cold::MainIter => Chain::new(iter_src(a), vec![mk_op(op, Chain::hot(1))]),
    };
    w.subscribe(&chain, 1);
    for (who, n) in tl {
      match (cold, who) {
        (Cold::Other, 1) | (Cold::Main, 0) | (Cold::OtherIter, 1) | (Cold::MainIter, 0) => {}
        _ => w.inject(*who, n.clone()),
      }
    }
    let out = w.log.notes(1);
    w.teardown();
    out
  })
}

fn judge(op: &str, tl: &[(usize, N)], obs: &Result<Vec<N>, String>) -> Option<(String, serde_json::Value)> {
  match obs {
    Err(p) => Some(("panic".into(), json!({"panic": p}))),
    Ok(out) => {
      let allowed = model::two_input_allowed(op, tl);
      if allowed.contains(out) {
        return None;
      }
      let exp = &allowed[0];
      let items = |v: &[N]| {
        let mut l = vec![];
        for n in v {
          if let N::Next(x) = n {
            x.leaves(&mut l)
          }
        }
        l
      };
      let (oi, ei) = (items(out), items(exp));
      let kind = if grammar_violation(out).is_some() {
        "malformed_sequence"
      } else if out.iter().filter(|n| n.is_terminal()).count() != exp.iter().filter(|n| n.is_terminal()).count()
        || out.last().filter(|n| n.is_terminal()) != exp.last().filter(|n| n.is_terminal())
      {
        "wrong_termination"
      } else if {
        let mut s = oi.clone();
        s.sort();
        let mut t = ei.clone();
        t.sort();
        s == t
      } {
        "wrong_order_or_pairing"
      } else if oi.len() < ei.len() {
        "lost_item"
      } else {
        "wrong_items"
      };
      Some((kind.into(), json!({"observed": jn(out), "expected_one_of": allowed.iter().map(|a| jn(a)).collect::<Vec<_>>()})))
    }
  }
}

fn case(cfg: &Cfg, rep: &mut Report, id: &str, flavor: Flavor, op: &str, a: &[N], b: &[N], picks: &[usize], cold: Cold) {
  if !cfg.wants(id) {
    return;
  }
  let tl = timeline_of(a, b, picks);
  rep.evaluations += 1;
  let obs = observe(flavor, op, &tl, cold, a, b);
  if let Ok(o) = &obs {
    rep.events += o.len() as u64;
  }
  let fl = if flavor == Flavor::Threads { "_threads" } else { "" };
  rep.set("operators_covered", &format!("{}{}", op, fl));
  // non-trivial: both inputs contributed and the scripts were really interleaved
  let both = picks.contains(&0) && picks.contains(&1);
  let first1 = picks.iter().position(|p| *p == 1);
  let last0 = picks.iter().rposition(|p| *p == 0);
  let interleaved = matches!((first1, last0), (Some(f), Some(l)) if f < l);
  if both && interleaved {
    rep.nontrivial.insert(hash64(&(op, flavor, &tl, cold)));
  }
  rep.distinct("distinct_timelines", hash64(&tl));
  if let Some((kind, detail)) = judge(op, &tl, &obs) {
    // shrink the timeline for the detail (locus is the operator itself)
    let mut cur = tl.clone();
    let mut i = 0;
    while i < cur.len() && cold == Cold::None {
      let mut cand = cur.clone();
      cand.remove(i);
      let o = catch(|| {
        let mut w = World::new(flavor, 2);
        w.subscribe(&Chain::new(Src::Hot(0), vec![mk_op(op, Chain::hot(1))]), 1);
        for (who, n) in &cand {
          w.inject(*who, n.clone());
        }
        let out = w.log.notes(1);
        w.teardown();
        out
      });
      if judge(op, &cand, &o).map_or(false, |(k, _)| k == kind) {
        cur = cand;
      } else {
        i += 1;
      }
    }
    let show = |t: &[(usize, N)]| t.iter().map(|(w, n)| json!([if *w == 0 { "A" } else { "B" }, n.j()])).collect::<Vec<_>>();
    rep.violation(
      &kind,
      &format!("{}{}", op, fl),
      id,
      json!({"operator": op, "flavor": format!("{:?}", flavor), "cold": format!("{:?}", cold),
             "timeline": show(&tl), "shrunk_timeline": show(&cur), "result": detail}),
    );
  } else {
    rep.sample_some(4999, || {
      json!({"case": id, "operator": format!("{}{}", op, fl),
        "timeline": tl.iter().map(|(w, n)| json!([w, n.j()])).collect::<Vec<_>>(),
        "observed": obs.as_ref().map(|o| jn(o)).unwrap_or(json!("panic"))})
    });
  }
}

/// The subscriber's handler panics on its k-th item (caught around the input's call, the program
/// goes on), item-only timelines on the local forms of the stateful combinators: the whole observed
/// sequence (the probe records an item before its handler runs) is still what the timeline model
/// gives - an arriving value that took part in a combination IS the latest from then on.
fn panicking_handler_battery(cfg: &Cfg, rep: &mut Report) {
  let tls: Vec<Vec<(usize, N)>> = vec![
    vec![(0, N::Next(V::I(1))), (1, N::Next(V::I(101))), (0, N::Next(V::I(2))), (1, N::Next(V::I(102))), (0, N::Next(V::I(3)))],
    vec![(1, N::Next(V::I(101))), (0, N::Next(V::I(1))), (1, N::Next(V::I(102))), (0, N::Next(V::I(2))), (1, N::Next(V::I(103)))],
    vec![(0, N::Next(V::I(1))), (0, N::Next(V::I(2))), (1, N::Next(V::I(101))), (1, N::Next(V::I(102))), (0, N::Next(V::I(3))), (1, N::Next(V::I(103)))],
  ];
  let mut idx = 0;
  for op in ["combine_latest", "with_latest_from", "zip", "merge"] {
    for tl in &tls {
      for k in 1..=2usize {
        idx += 1;
        let id = format!("panicking-handler:{}", idx);
        if !cfg.wants(&id) {
          continue;
        }
        let allowed = model::two_input_allowed(op, tl);
        if !allowed.iter().any(|a| a.iter().filter(|n| matches!(n, N::Next(_))).count() >= k) {
          continue;
        }
        rep.evaluations += 1;
        rep.count("cases_with_a_handler_that_panics_on_an_item", 1);
        let got = catch(|| {
          clear_local_cbs();
          let mut w = World::new(Flavor::Local, 2);
          w.subscribe(&Chain::new(Src::Hot(0), vec![mk_op(op, Chain::hot(1))]), 1);
          let seen = std::rc::Rc::new(std::cell::Cell::new(0usize));
          let s2 = seen.clone();
          set_local_cb(
            1,
            std::rc::Rc::new(move |n: &N| {
              if matches!(n, N::Next(_)) {
                s2.set(s2.get() + 1);
                if s2.get() == k {
                  panic!("the subscriber fails on an item");
                }
              }
            }),
          );
          for (who, n) in tl.iter() {
            let (who, n) = (*who, n.clone());
            let w2 = &mut w;
            let _ = std::panic::catch_unwind(std::panic::AssertUnwindSafe(move || w2.inject(who, n)));
          }
          clear_local_cbs();
          let out = w.log.notes(1);
          w.teardown();
          out
        });
        match got {
          Err(p) => rep.violation("panic", &format!("{}[a handler panicked on an item]", op), &id, json!({"panic": p})),
          Ok(out) => {
            rep.events += out.len() as u64;
            if !allowed.contains(&out) {
              rep.violation("wrong_items", &format!("{}[a handler panicked on an item]", op), &id, json!({"timeline": format!("{:?}", tl), "handler_panicked_on_its_item_number": k, "observed": jn(&out), "expected_one_of": allowed.iter().map(|a| jn(a)).collect::<Vec<_>>()}));
            } else {
              rep.nontrivial.insert(hash64(&(op, tl, k, "panicking-handler")));
            }
          }
        }
      }
    }
  }
}

pub fn run(cfg: &Cfg, rep: &mut Report) {
  if cfg.shard == 0 && cfg.only_case.as_deref().map_or(true, |c| c.starts_with("panicking-handler:")) {
    panicking_handler_battery(cfg, rep);
  }
  let maxn = cfg.n(3, 5);
  let mut idx = 0usize;
  // enumerated: all script pairs x all interleavings x both flavours
  for flavor in [Flavor::Local, Flavor::Threads] {
    for op in OPS {
      for na in 0..=maxn {
        for ta in 0..3u8 {
          for nb in 0..=maxn {
            for tb in 0..3u8 {
              for post in [false, true] {
                if post && (ta == 0 || tb == 0 || na + nb > 4) {
                  continue;
                }
                let a = script(0, na, ta, post);
                let b = script(1, nb, tb, post);
                for picks in interleavings(a.len(), b.len()) {
                  idx += 1;
                  if cfg.mine(idx) {
                    case(cfg, rep, &format!("enum:{}", idx), flavor, op, &a, &b, &picks, Cold::None);
                  }
                }
                if !post {
                  // one cold input: its events all precede the hot ones
                  for cold in [Cold::Other, Cold::Main, Cold::OtherIter, Cold::MainIter] {
                    if (cold == Cold::OtherIter && !iterable(&b)) || (cold == Cold::MainIter && !iterable(&a)) {
                      continue;
                    }
                    idx += 1;
                    if cfg.mine(idx) {
                      let picks: Vec<usize> = match cold {
                        Cold::Other | Cold::OtherIter => vec![1; b.len()].into_iter().chain(vec![0; a.len()]).collect(),
                        _ => vec![0; a.len()].into_iter().chain(vec![1; b.len()]).collect(),
                      };
                      if matches!(cold, Cold::OtherIter | Cold::MainIter) {
                        rep.count("cases_with_a_from_iter_input", 1);
                      }
                      case(cfg, rep, &format!("enum:{}", idx), flavor, op, &a, &b, &picks, cold);
                    }
                  }
                }
              }
            }
          }
        }
      }
    }
  }
  rep.count("enumerated_cases_total", idx as u64);
  // random longer timelines
  let total = cfg.n(400_000, 25_000_000);
  let mut rng = Rng::new(cfg.seed ^ 0xC04);
  for i in 0..total {
    let mut r = rng.fork();
    if !cfg.mine(i) {
      continue;
    }
    let op = OPS[r.below(OPS.len())];
    let flavor = if r.chance(1, 2) { Flavor::Local } else { Flavor::Threads };
    let a = script(0, r.below(7), r.below(3) as u8, r.chance(1, 4));
    let b = script(1, r.below(7), r.below(3) as u8, r.chance(1, 4));
    let (mut m, mut n) = (a.len(), b.len());
    let mut picks = vec![];
    while m + n > 0 {
      if m > 0 && (n == 0 || r.below(m + n) < m) {
        picks.push(0);
        m -= 1;
      } else {
        picks.push(1);
        n -= 1;
      }
    }
    case(cfg, rep, &format!("rand:{}", i), flavor, op, &a, &b, &picks, Cold::None);
  }

  // thread part: the thread-safe combinators with their two inputs driven from
  // different threads; the observed output must be explained by some
  // linearization of the calls (call/return stamps) fed to the sequential model
  let n = cfg.n(12_000, 600_000);
  let orc = |o: &super::thr::Outcome, s: &super::thr::Scen| super::thr::two_input_name(s).and_then(|name| super::thr::linearizable(o, s, name));
  super::thr::systematic_families(cfg, rep, 0xC04A, &[2, 3, 4, 5, 6, 7, 8, 26], &|_, _| {}, &orc);
  super::thr::campaign(cfg, rep, "thr", n, 0xC04F, &mut |r: &mut Rng| {
    let f = [2usize, 3, 4, 5, 6, 7, 8, 26][r.below(8)];
    super::thr::random_scen(r, f)
  }, &orc);
  super::thr::free_campaign(cfg, rep, cfg.n(2_000, 200_000), 0xC04E, &mut |r: &mut Rng| {
    let f = [2usize, 3, 4, 5, 6, 7, 8, 26][r.below(8)];
    super::thr::random_scen(r, f)
  }, &orc);
}
