//! Shared execution helper: one generated pipeline under one schedule.
use crate::gen::Pipe;
use crate::log::*;
use crate::value::*;
use crate::world::*;

pub struct RunOut {
  pub evs: Vec<Ev>,
  pub overlaps: usize,
  pub choice_hash: u64,
  pub n_choices: usize,
  pub max_ready: usize,
  pub steps: usize,
  pub live_tasks: usize,
  pub pending_timers: usize,
  pub spawned: usize,
}

pub fn notes_of(evs: &[Ev], id: u32) -> Vec<N> {
  evs
    .iter()
    .filter(|e| e.id == id)
    .filter_map(|e| if let K::N(n) = &e.k { Some(n.clone()) } else { None })
    .collect()
}

pub fn timed_of(evs: &[Ev], id: u32) -> Vec<(u64, N)> {
  evs
    .iter()
    .filter(|e| e.id == id)
    .filter_map(|e| if let K::N(n) = &e.k { Some((e.vt, n.clone())) } else { None })
    .collect()
}

pub fn ids_of(evs: &[Ev]) -> Vec<u32> {
  let mut v: Vec<u32> = evs.iter().filter(|e| matches!(e.k, K::N(_))).map(|e| e.id).collect();
  v.sort();
  v.dedup();
  v
}

/// subscribe probe 1 to the pipe, drive its timed script, drain; `on_step`
/// may cut / sample. Panics inside the library are caught and reported.
pub fn run_pipe(
  flavor: Flavor,
  pipe: &Pipe,
  policy: Policy,
  late: bool,
  seed: u64,
  on_step: &mut dyn FnMut(&mut World, usize, &mut Rng),
) -> Result<RunOut, String> {
  run_pipe_gap(flavor, pipe, policy, late, seed, 0, on_step)
}

/// like `run_pipe`, but the clock moves `gap` ns between the subscription and
/// the first run of the executor (nothing runs and no timer fires meanwhile)
pub fn run_pipe_gap(
  flavor: Flavor,
  pipe: &Pipe,
  policy: Policy,
  late: bool,
  seed: u64,
  gap: u64,
  on_step: &mut dyn FnMut(&mut World, usize, &mut Rng),
) -> Result<RunOut, String> {
  catch(|| {
    let mut rng = Rng::new(seed);
    let mut w = World::new(flavor, pipe.n_hot);
    w.subscribe(&pipe.chain, 1);
    if gap > 0 {
      crate::vtime::set_now(gap);
    }
    if late {
      w.drive_late(&pipe.acts, policy, pipe.horizon, &mut rng, on_step);
    } else {
      w.drive_prompt(&pipe.acts, policy, pipe.horizon, &mut rng, on_step);
    }
    w.drain(policy, pipe.horizon, &mut rng);
    let out = RunOut {
      evs: w.log.evs(),
      overlaps: w.log.overlaps().len(),
      choice_hash: w.choice_hash(),
      n_choices: w.choices.len(),
      max_ready: w.max_ready,
      steps: w.steps,
      live_tasks: w.arena.live(),
      pending_timers: crate::vtime::pending_count(),
      spawned: w.arena.spawned(),
    };
    w.teardown();
    out
  })
}
