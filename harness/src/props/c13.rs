//! C13 — cold pipelines are lazy and every subscription is independent.
use crate::ast::*;
use crate::build::cloneable;
use crate::gen::*;
use crate::log::*;
use crate::report::{Cfg, Report};
use crate::scripts::SRC_CALL_ID;
use crate::value::*;
use crate::vtime::{self, MS};
use crate::world::*;
use rxrust::prelude::*;
use serde_json::json;
use std::rc::Rc;

#[derive(Clone, Copy, Debug, PartialEq, Eq, Hash)]
pub enum How {
  Successive,
  /// as Successive, but every subscription is explicitly unsubscribed once it has run dry,
  /// before the next clone is subscribed
  SuccessiveUnsub,
  /// the next clone is subscribed a few steps after the previous one started
  Overlapping,
  /// the next clone is subscribed from inside the first item callback of the previous one
  Nested,
}

#[derive(Clone, Debug, PartialEq, Eq, Hash)]
pub struct Case {
  pub chain: Chain,
  pub subs: usize,
  pub how: How,
}

const FIN: u32 = 600;

fn cold_source(r: &mut Rng, depth: usize) -> Src {
  match r.below(14) {
    0 | 1 => Src::Iter((0..r.below(5)).map(|i| V::I((i % 3) as i64)).collect()),
    2 => Src::Of(V::I(1)),
    3 => Src::OfFn(V::I(2)),
    4 => Src::Start(V::I(0)),
    5 if depth > 0 => Src::Defer(Box::new(cold_chain(r, depth - 1, 1))),
    6 => Src::CreateSync(random_script(r, 4, 3, true)),
    7 => Src::Repeat(V::I(1), r.below(4)),
    8 => [Src::Empty, Src::Throw(9), Src::OfRes(Err(8)), Src::OfOpt(None)][r.below(4)].clone(),
    9 => Src::IterCount(310, 1 + r.below(5)),
    10 | 11 => Src::Interval([1, 3, 5][r.below(3)]),
    12 => Src::Stream(
      320,
      Scripted { items: (0..r.below(4)).map(|i| (r.below(2) as u8, Ok(V::I(i as i64)))).collect(), end_pending: r.below(2) as u8, endless: false, self_wake: true },
    ),
    _ => Src::FutureRes(321, Scripted { items: vec![(r.below(3) as u8, if r.chance(1, 4) { Err(5) } else { Ok(V::I(7)) })], end_pending: 0, endless: false, self_wake: true }),
  }
}

fn stateful_op(r: &mut Rng) -> Op {
  let d = [1u64, 2, 5][r.below(3)];
  let e = [Edge::Leading, Edge::Trailing, Edge::All][r.below(3)];
  match r.below(30) {
    0 => Op::Scan,
    1 => Op::Last,
    2 => Op::DefaultIfEmpty(V::I(4)),
    3 => Op::Distinct,
    4 => Op::DistinctUntilChanged,
    5 => Op::Skip(1 + r.below(2)),
    6 => Op::Take(1 + r.below(3)),
    7 => Op::Pairwise,
    8 => Op::BufferWithCount(1 + r.below(3)),
    9 => Op::Collect,
    10 => Op::StartWith(vec![V::I(5)]),
    11 => Op::SkipLast(1),
    12 => Op::TakeLast(2),
    13 => Op::Reduce,
    14 => Op::Count,
    15 => Op::Delay(d),
    16 => Op::Debounce(d),
    17 => Op::ThrottleTime(d, e),
    18 => Op::Throttle(d, e),
    19 => Op::BufferWithTime(d),
    20 => Op::BufferWithCountAndTime(2, d),
    21 => Op::ObserveOn,
    22 => Op::DelaySubscription(d),
    23 => Op::SubscribeOn,
    24 => Op::Scan,
    25 => Op::Tap(51),
    26 => Op::SkipWhile(Pred::Lt(1)),
    27 => Op::TakeWhile(Pred::Lt(2)),
    28 => Op::DistinctKey(KeyF::Mod(2)),
    _ => random_single_op(r, 3),
  }
}

fn cold_chain(r: &mut Rng, depth: usize, max_ops: usize) -> Chain {
  let mut c = Chain::new(cold_source(r, depth), vec![]);
  if matches!(c.src, Src::Interval(_)) {
    c.ops.push(Op::Take(1 + r.below(4)));
  }
  for _ in 0..r.below(max_ops + 1) {
    let op = if depth > 0 && r.chance(1, 6) {
      let other = Box::new(cold_chain(r, 0, 1));
      match r.below(7) {
        0 => Op::Merge(other),
        1 => Op::Zip(other),
        2 => Op::CombineLatest(other),
        3 => Op::WithLatestFrom(other),
        4 => Op::TakeUntil(other),
        5 => Op::SkipUntil(other),
        _ => Op::Sample(other),
      }
    } else {
      stateful_op(r)
    };
    c.ops.push(op);
  }
  c
}

pub fn random_case(r: &mut Rng, max_ops: usize) -> Case {
  let mut chain = cold_chain(r, 2, max_ops);
  // finalize only as the last operator: "the subscription ended" is then
  // exactly "the probe saw the terminal"
  if r.chance(1, 4) {
    chain.ops.push(Op::Finalize(FIN));
  }
  // one counter per tap/finalize position is not needed here: the same ids
  // are shared by all clones on purpose (we count per subscription window)
  let mut n = 0;
  for op in chain.ops.iter_mut() {
    if let Op::Tap(id) = op {
      n += 1;
      *id = 50 + n;
    }
  }
  Case { chain, subs: 2 + r.below(2), how: [How::Successive, How::SuccessiveUnsub, How::Overlapping, How::Nested][r.below(4)] }
}

pub struct Obs {
  pub lazy_violation: Option<String>,
  /// per subscription: (notification, time relative to its own start)
  pub traces: Vec<Vec<(u64, N)>>,
  pub calls: usize,
  /// polls of the scripted future that is the pipeline's own source (None: another source)
  pub future_polls: Option<usize>,
  pub closures_per_subscription: usize,
  pub finalize_marks: usize,
  /// successive subscriptions only: the number its stateful combine_latest combinator gave to its
  /// first call after each subscription began (must be 1 for every subscription)
  pub first_combine_call: Vec<i64>,
  pub ended_subscriptions: usize,
  pub events: usize,
  pub stateful: bool,
}

fn count_closures(c: &Chain) -> usize {
  let mut n = match &c.src {
    Src::OfFn(_) | Src::Start(_) | Src::CreateSync(_) => 1,
    Src::Defer(inner) => 1 + count_closures(inner),
    _ => 0,
  };
  for op in &c.ops {
    for s in op.sub_chains() {
      n += count_closures(s);
    }
  }
  n
}

pub fn observe(c: &Case) -> Result<Obs, String> {
  catch(|| {
    let mut rng = Rng::new(7);
    let mut w = World::new(Flavor::Local, 0);
    w.timer_ties_fifo = true; // deterministic FIFO scheduler model: clones must behave identically
    let cx = cloneable::Ctx { hot: vec![], stash: w.l.stash.clone(), sched: w.l.sched.clone(), log: w.log.clone(), base: w.l.base };
    // building and cloning must perform no work
    let o = cloneable::build(&c.chain, &cx);
    let clones: Vec<_> = (0..c.subs).map(|_| o.clone()).collect();
    drop(o);
    let work = w.log.len() + w.arena.spawned() + vtime::created() as usize;
    let lazy_violation = if work > 0 {
      Some(format!(
        "{} log events, {} spawned tasks, {} timers created before any subscription",
        w.log.len(),
        w.arena.spawned(),
        vtime::created()
      ))
    } else {
      None
    };
    let horizon = 400 * MS;
    let mut starts: Vec<u64> = vec![];
    let log = w.log.clone();
    let mut clones: Vec<Option<_>> = clones.into_iter().map(Some).collect();
    match c.how {
      How::Successive | How::SuccessiveUnsub => {
        for (j, cl) in clones.iter_mut().enumerate() {
          starts.push(vtime::now());
          log.mark(0, "subscribe", j as i64);
          let u = cl.take().unwrap().actual_subscribe(Probe::new(1 + j as u32, &log));
          w.drain(Policy::Fifo, horizon + vtime::now(), &mut rng);
          if c.how == How::SuccessiveUnsub {
            // giving up one subscription must not reach into the next clone's
            u.unsubscribe();
            w.drain(Policy::Fifo, horizon + vtime::now(), &mut rng);
          } else {
            std::mem::forget(u);
          }
        }
      }
      How::Overlapping => {
        for (j, cl) in clones.iter_mut().enumerate() {
          starts.push(vtime::now());
          log.mark(0, "subscribe", j as i64);
          std::mem::forget(cl.take().unwrap().actual_subscribe(Probe::new(1 + j as u32, &log)));
          // a few steps of the schedule, then the next clone joins
          for _ in 0..1 + j {
            w.quiesce(Policy::Fifo, &mut rng);
            w.fire_next_timer(&mut rng);
          }
          w.quiesce(Policy::Fifo, &mut rng);
        }
        w.drain(Policy::Fifo, horizon + vtime::now(), &mut rng);
      }
      How::Nested => {
        // clone j+1 is subscribed from inside the first `next` of clone j
        let cells: Vec<Rc<std::cell::RefCell<Option<_>>>> = clones.iter_mut().map(|c| Rc::new(std::cell::RefCell::new(c.take()))).collect();
        let starts_cell: Rc<std::cell::RefCell<Vec<(usize, u64)>>> = Rc::new(Default::default());
        for j in 0..cells.len() - 1 {
          let next = cells[j + 1].clone();
          let log2 = log.clone();
          let st = starts_cell.clone();
          set_local_cb(
            1 + j as u32,
            Rc::new(move |n: &N| {
              if matches!(n, N::Next(_)) {
                if let Some(cl) = next.borrow_mut().take() {
                  st.borrow_mut().push((j + 1, vtime::now()));
                  log2.mark(0, "subscribe", j as i64 + 1);
                  std::mem::forget(cl.actual_subscribe(Probe::new(2 + j as u32, &log2)));
                }
              }
            }),
          );
        }
        starts_cell.borrow_mut().push((0, vtime::now()));
        log.mark(0, "subscribe", 0);
        let first = cells[0].borrow_mut().take().unwrap();
        std::mem::forget(first.actual_subscribe(Probe::new(1, &log)));
        w.drain(Policy::Fifo, horizon + vtime::now(), &mut rng);
        let mut st = starts_cell.borrow().clone();
        st.sort();
        starts = st.into_iter().map(|(_, t)| t).collect();
      }
    }
    let evs = w.log.evs();
    let mut traces = vec![];
    for (j, s) in starts.iter().enumerate() {
      traces.push(
        evs
          .iter()
          .filter(|e| e.id == 1 + j as u32)
          .filter_map(|e| if let K::N(n) = &e.k { Some((e.vt - s, n.clone())) } else { None })
          .collect::<Vec<_>>(),
      );
    }
    let calls = evs.iter().filter(|e| e.id == SRC_CALL_ID).count();
    // a future that is the pipeline's own source is polled at least once by every subscription
    let future_polls = match &c.chain.src {
      Src::Future(id, _) | Src::FutureRes(id, _) => Some(evs.iter().filter(|e| e.id == *id && matches!(e.k, K::Mark("poll", _))).count()),
      _ => None,
    };
    let finalize_marks = evs.iter().filter(|e| e.id == FIN).count();
    let mut first_combine_call = vec![];
    if matches!(c.how, How::Successive | How::SuccessiveUnsub) {
      let mut waiting = false;
      for e in &evs {
        match e.k {
          K::Mark("subscribe", _) if e.id == 0 => waiting = true,
          K::Mark("combine_call", n) if e.id == crate::build::COMBINE_CALL_ID && waiting => {
            first_combine_call.push(n);
            waiting = false;
          }
          _ => {}
        }
      }
    }
    let ended = traces.iter().filter(|t| t.last().map_or(false, |(_, n)| n.is_terminal())).count();
    let stateful = c.chain.any_op(&|op| {
      !matches!(op, Op::Map(_) | Op::MapTo(_) | Op::Filter(_) | Op::FilterMap(..) | Op::Tap(_) | Op::BoxIt | Op::OnErrorMap(_) | Op::IgnoreElements)
    });
    let out = Obs {
      lazy_violation,
      traces,
      calls,
      closures_per_subscription: count_closures(&c.chain),
      future_polls,
      finalize_marks,
      first_combine_call,
      ended_subscriptions: ended,
      events: evs.len(),
      stateful,
    };
    w.teardown();
    out
  })
}

pub fn judge(c: &Case, o: &Result<Obs, String>) -> Option<(String, serde_json::Value)> {
  let o = match o {
    Err(p) => return Some(("panic".into(), json!({"panic": p}))),
    Ok(o) => o,
  };
  if let Some(w) = &o.lazy_violation {
    return Some(("work_before_subscription".into(), json!({"why": w})));
  }
  let started = o.traces.len();
  // every started subscription runs each source closure exactly once (a
  // closure that a chain never reaches, e.g. behind take_until's dead input, is not generated)
  if let Some(p) = o.future_polls {
    if c.how != How::Nested && p < started {
      return Some((
        "future_not_polled".into(),
        json!({"why": format!("{} subscriptions were started but the source future was polled only {} times in all (every subscription polls its future at least once)", started, p)}),
      ));
    }
  }
  if c.how != How::Nested && o.calls != o.closures_per_subscription * started {
    return Some((
      "closure_call_count".into(),
      json!({"calls": o.calls, "subscriptions": started, "closures_per_subscription": o.closures_per_subscription}),
    ));
  }
  // a combinator closure is operator state too: every subscription starts with a fresh copy
  if c.chain.ops.iter().filter(|op| matches!(op, Op::CombineLatest(_))).count() == 1 && o.first_combine_call.iter().any(|n| *n != 1) {
    return Some((
      "closure_state_shared".into(),
      json!({"why": "the combine_latest combinator numbers its own calls; after a new subscription began its first call did not carry number 1", "first_call_numbers": o.first_combine_call}),
    ));
  }
  for j in 1..o.traces.len() {
    if o.traces[j] != o.traces[0] {
      let same_values = o.traces[j].iter().map(|(_, n)| n).eq(o.traces[0].iter().map(|(_, n)| n));
      let kind = if same_values { "subscriptions_differ_in_timing" } else { "subscriptions_differ" };
      return Some((
        kind.into(),
        json!({"first": o.traces[0].iter().map(|(t, n)| json!([t, n.j()])).collect::<Vec<_>>(),
               "other_index": j,
               "other": o.traces[j].iter().map(|(t, n)| json!([t, n.j()])).collect::<Vec<_>>()}),
      ));
    }
  }
  // one finalize callback per ended subscription for every finalize in the chain
  let fins = c.chain.ops.iter().filter(|op| matches!(op, Op::Finalize(_))).count();
  if fins > 0 && started == c.subs && o.ended_subscriptions == started && o.finalize_marks != fins * started {
    return Some(("finalize_not_per_subscription".into(), json!({"finalize_calls": o.finalize_marks, "expected": fins * started})));
  }
  None
}

/// Independence under inputs that differ from one subscription to the next: a cold source that
/// reads the world when it is subscribed (the k-th subscription plays script k), one stateful
/// operator above it, three successive subscriptions of clones. Each subscription's output must be
/// what the list-semantics reference model gives for ITS script: state left behind by an earlier
/// subscription (which is invisible while all subscriptions see the same input) shows up here.
fn varying_input_battery(cfg: &Cfg, rep: &mut Report) {
  let it = |v: &[i64]| -> Vec<N> { v.iter().map(|x| N::Next(V::I(*x))).collect() };
  let mut scripts: Vec<Vec<N>> = vec![];
  for items in [vec![], vec![1], vec![1, 2], vec![2, 0, 1], vec![0, 0]] {
    for term in [Some(N::Complete), Some(N::Err(5)), None] {
      let mut s = it(&items);
      s.extend(term);
      scripts.push(s);
    }
  }
  let ops = crate::gen::single_op_variants(1);
  let mut k = 0usize;
  for op in &ops {
    for a in 0..scripts.len() {
      for b in 0..scripts.len() {
        k += 1;
        if a == b || !cfg.mine(k) {
          continue;
        }
        let id = format!("varying:{}", k);
        if !cfg.wants(&id) {
          continue;
        }
        let plays = vec![scripts[a].clone(), scripts[b].clone(), scripts[a].clone()];
        let chain = Chain::new(Src::Varying(plays.clone()), vec![op.clone()]);
        let expected: Option<Vec<Vec<Vec<N>>>> = plays.iter().map(|p| crate::model::allowed_outputs(&Chain::new(Src::CreateSync(p.clone()), vec![op.clone()]), &[])).collect();
        let Some(expected) = expected else { continue };
        rep.evaluations += 1;
        rep.count("subscriptions_fed_different_inputs", 1);
        rep.set("operators_covered", op.name());
        let got = catch(|| {
          let w = World::new(Flavor::Local, 0);
          let cx = cloneable::Ctx { hot: vec![], stash: w.l.stash.clone(), sched: w.l.sched.clone(), log: w.log.clone(), base: w.l.base };
          let o = cloneable::build(&chain, &cx);
          let clones: Vec<_> = (0..3).map(|_| o.clone()).collect();
          drop(o);
          let mut out = vec![];
          for (j, cl) in clones.into_iter().enumerate() {
            let u = cl.actual_subscribe(Probe::new(1 + j as u32, &w.log));
            out.push(w.log.notes(1 + j as u32));
            // an unterminated subscription is given up before the next one starts
            u.unsubscribe();
          }
          let ev = w.log.len();
          w.teardown();
          (out, ev)
        });
        match got {
          Err(p) => rep.violation("panic", &format!("{}[varying input]", op.name()), &id, json!({"chain": chain.show(), "panic": p})),
          Ok((out, ev)) => {
            rep.events += ev as u64;
            let bad = (0..3).find(|j| !expected[*j].contains(&out[*j]));
            if let Some(j) = bad {
              rep.violation(
                "subscription_depends_on_an_earlier_one",
                &format!("{}[varying input]", op.name()),
                &id,
                json!({"chain": chain.show(), "subscription": j, "its_input": jn(&plays[j]), "observed": jn(&out[j]), "expected_one_of": expected[j].iter().map(|e| jn(e)).collect::<Vec<_>>(),
                       "inputs_of_all_three": plays.iter().map(|p| jn(p)).collect::<Vec<_>>()}),
              );
            } else {
              rep.nontrivial.insert(hash64(&(op, a, b, "varying")));
            }
          }
        }
      }
    }
  }
}

/// Operators that take an `FnMut`: a closure with state of its own (it numbers its calls) belongs
/// to the subscription - clones of one operator value subscribed one after the other, or nested,
/// each start with the closure as it was written, so all subscriptions produce the same output.
fn stateful_closure_battery(rep: &mut Report) {
  use std::cell::RefCell;
  use std::rc::Rc;
  macro_rules! twice {
    ($name:expr, $build:expr) => {{
      rep.evaluations += 1;
      rep.count("operators_given_a_closure_with_state_of_its_own", 1);
      rep.set("operators_covered", $name);
      let outs: Vec<Rc<RefCell<Vec<String>>>> = (0..3).map(|_| Default::default()).collect();
      let o = $build;
      let clones = vec![o.clone(), o.clone(), o.clone()];
      drop(o);
      for (j, c) in clones.into_iter().enumerate() {
        let (a, b) = (outs[j].clone(), outs[j].clone());
        c.on_complete(move || b.borrow_mut().push("complete".into())).subscribe(move |v| a.borrow_mut().push(format!("{:?}", v)));
      }
      let first = outs[0].borrow().clone();
      rep.events += first.len() as u64 * 3;
      if outs.iter().any(|o| *o.borrow() != first) {
        rep.violation(
          "closure_state_shared",
          &format!("{}[stateful closure]", $name),
          &format!("closures:{}", $name),
          json!({"subscriptions": outs.iter().map(|o| o.borrow().clone()).collect::<Vec<_>>()}),
        );
      } else {
        rep.nontrivial.insert(hash64(&("closures", $name)));
      }
    }};
  }
  let src = || observable::from_iter(vec![1i64, 2, 3, 4]);
  twice!("map", src().map({
    let mut n = 0i64;
    move |v| {
      n += 1;
      v * 10 + n
    }
  }));
  twice!("filter_map", src().filter_map({
    let mut n = 0i64;
    move |v: i64| {
      n += 1;
      if n % 2 == 1 { Some(v + n) } else { None }
    }
  }));
  twice!("take_while", src().take_while({
    let mut n = 0;
    move |_| {
      n += 1;
      n < 3
    }
  }));
  twice!("skip_while", src().skip_while({
    let mut n = 0;
    move |_| {
      n += 1;
      n < 3
    }
  }));
}

pub fn run(cfg: &Cfg, rep: &mut Report) {
  if cfg.shard == 0 && cfg.only_case.as_deref().map_or(true, |c| c.starts_with("closures:")) {
    stateful_closure_battery(rep);
  }
  if cfg.only_case.as_deref().map_or(true, |c| c.starts_with("varying:")) {
    varying_input_battery(cfg, rep);
  }
  let total = cfg.n(400_000, 25_000_000);
  let max_ops = cfg.n(3, 5);
  let mut rng = Rng::new(cfg.seed ^ 0xC13);
  for i in 0..total {
    let mut r = rng.fork();
    if !cfg.mine(i) {
      continue;
    }
    let id = format!("cold:{}", i);
    if !cfg.wants(&id) {
      continue;
    }
    let c = random_case(&mut r, max_ops);
    rep.evaluations += 1;
    let o = observe(&c);
    for n in c.chain.api_names() {
      rep.set("operators_covered", n);
    }
    if let Ok(obs) = &o {
      rep.events += obs.events as u64;
      if obs.traces.len() >= 2 && obs.stateful {
        rep.nontrivial.insert(hash64(&c));
      }
      rep.count(&format!("{:?}", c.how).to_lowercase(), 1);
    }
    if let Some((kind, detail)) = judge(&c, &o) {
      let mut still = |ch: &Chain| {
        let c2 = Case { chain: ch.clone(), subs: c.subs, how: c.how };
        judge(&c2, &observe(&c2)).map_or(false, |(k, _)| k == kind)
      };
      // keep the source: shrinking to a hot input makes no sense for cold chains
      let mut cur = c.chain.clone();
      let mut j = 0;
      while j < cur.ops.len() {
        let mut cand = cur.clone();
        cand.ops.remove(j);
        if still(&cand) {
          cur = cand
        } else {
          j += 1
        }
      }
      let mut names: Vec<&str> = cur.ops.iter().map(|o| o.name()).collect();
      names.sort();
      names.dedup();
      let locus = if names.is_empty() { cur.src.name().to_string() } else { names.join("+") };
      rep.violation(&kind, &locus, &id, json!({"case": format!("{:?}", c), "chain": c.chain.show(), "shrunk_chain": cur.show(), "result": detail}));
    } else if let Ok(obs) = &o {
      rep.sample_some(6029, || {
        json!({"case": id, "chain": c.chain.show(), "how": format!("{:?}", c.how), "subscriptions": obs.traces.len(),
               "each_saw": obs.traces.first().map(|t| t.iter().map(|(t, n)| json!([t, n.j()])).collect::<Vec<_>>())})
      });
    }
  }
}
