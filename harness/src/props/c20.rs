//! C20 — group_by sends every item to exactly one group, in order.
use crate::ast::*;
use crate::log::*;
use crate::report::{Cfg, Report};
use crate::value::*;
use crate::world::*;
use rxrust::ops::group_by::KeyObservable;
use rxrust::prelude::*;
use serde_json::json;

#[derive(Clone, Debug, PartialEq, Eq, Hash)]
pub struct Case {
  pub key: KeyF,
  pub script: Vec<N>,
  pub threads_subject: bool,
  pub cold: bool,
  /// Some(n): a stateful discriminator (group_by takes an FnMut): the key of
  /// the i-th item handed to it is i / n, whatever the item is
  pub chunk: Option<i64>,
  /// the key type's `Hash` is coarser than its `Eq` (legal): keys collide in the hash
  pub coarse: bool,
  /// a second subscriber joins each group ahead of the probe and leaves at once (closed entry in front)
  pub bystander: bool,
  /// Some(d): a group is not subscribed at its announcement but only after d further source
  /// events (hot sources, plain keys only): it is owed the later items of its key and the terminal
  pub late: Option<usize>,
  /// the observer of the stream of groups reports finished as soon as any group's subscriber
  /// has received a terminal (what a flattening consumer does when an inner stream fails)
  pub outer_finishes: bool,
  /// Some(n): the observer of the stream of groups reports finished once it has been handed n
  /// groups (what take(n) on the groups stream does) - it keeps accepting what it is handed
  pub outer_takes: Option<usize>,
}

/// key whose hash only looks at the lowest bit
#[derive(Clone, Debug, PartialEq, Eq)]
pub struct CK(pub i64);
impl std::hash::Hash for CK {
  fn hash<H: std::hash::Hasher>(&self, h: &mut H) {
    (self.0 & 1).hash(h)
  }
}

/// outer observer: logs the announcement, then subscribes a probe to the group
struct Outer<S> {
  log: Log,
  bystander: bool,
  done: Option<std::sync::Arc<std::sync::atomic::AtomicBool>>,
  takes: Option<usize>,
  announced: usize,
  pending: Option<std::sync::Arc<std::sync::Mutex<Vec<(i64, KeyObservable<i64, S>)>>>>,
  _s: std::marker::PhantomData<S>,
}

thread_local! {
  /// early subscribers of late-mode cases: (key, unsubscribe)
  static EARLY: std::cell::RefCell<Vec<(i64, Box<dyn FnOnce()>)>> = const { std::cell::RefCell::new(Vec::new()) };
}

fn arm_done(done: &Option<std::sync::Arc<std::sync::atomic::AtomicBool>>, probe: u32) {
  if let Some(d) = done {
    let d = d.clone();
    set_local_cb(
      probe,
      std::rc::Rc::new(move |n: &N| {
        if n.is_terminal() {
          d.store(true, std::sync::atomic::Ordering::SeqCst);
        }
      }),
    );
  }
}

macro_rules! impl_outer {
  ($subj:ty) => {
    impl Observer<KeyObservable<i64, $subj>, E> for Outer<$subj> {
      fn next(&mut self, g: KeyObservable<i64, $subj>) {
        let key = g.key;
        self.log.mark(1, "group", key);
        self.announced += 1;
        if self.bystander && self.pending.is_none() {
          g.clone().actual_subscribe(Probe::new(300 + key as u32, &self.log)).unsubscribe();
        }
        if let Some(p) = &self.pending {
          if self.bystander {
            // an early subscriber that sees the group's first items and leaves when the late ones join
            let u = g.clone().actual_subscribe(Probe::new(300 + key as u32, &self.log));
            EARLY.with(|e| e.borrow_mut().push((key, Box::new(move || u.unsubscribe()))));
          }
          // subscribed later by the driver
          p.lock().unwrap().push((key, g));
          return;
        }
        arm_done(&self.done, 100 + key as u32);
        // attached as the group is announced, so it sees the group's first item
        g.actual_subscribe(Probe::new(100 + key as u32, &self.log));
      }
      fn error(self, e: E) {
        self.log.push(1, K::N(N::Err(e)));
      }
      fn complete(self) {
        self.log.push(1, K::N(N::Complete));
      }
      fn is_finished(&self) -> bool {
        self.done.as_ref().map_or(false, |d| d.load(std::sync::atomic::Ordering::SeqCst)) || self.takes.map_or(false, |n| self.announced >= n)
      }
    }
  };
}
impl_outer!(Subject<'static, V, E>);
impl_outer!(SubjectThreads<V, E>);

macro_rules! impl_outer_ck {
  ($subj:ty) => {
    impl Observer<KeyObservable<CK, $subj>, E> for Outer<$subj> {
      fn next(&mut self, g: KeyObservable<CK, $subj>) {
        let key = g.key.0;
        self.log.mark(1, "group", key);
        self.announced += 1;
        if self.bystander {
          g.clone().actual_subscribe(Probe::new(300 + key as u32, &self.log)).unsubscribe();
        }
        arm_done(&self.done, 100 + key as u32);
        g.actual_subscribe(Probe::new(100 + key as u32, &self.log));
      }
      fn error(self, e: E) {
        self.log.push(1, K::N(N::Err(e)));
      }
      fn complete(self) {
        self.log.push(1, K::N(N::Complete));
      }
      fn is_finished(&self) -> bool {
        self.done.as_ref().map_or(false, |d| d.load(std::sync::atomic::Ordering::SeqCst)) || self.takes.map_or(false, |n| self.announced >= n)
      }
    }
  };
}
impl_outer_ck!(Subject<'static, V, E>);
impl_outer_ck!(SubjectThreads<V, E>);

pub fn observe(c: &Case) -> Result<Vec<Ev>, String> {
  catch(|| {
    let log = Log::new();
    let key = c.key.clone();
    let chunk = c.chunk;
    let bystander = c.bystander;
    let coarse = c.coarse;
    let script = c.script.clone();
    EARLY.with(|e| e.borrow_mut().clear());
    let late = c.late;
    let done: Option<std::sync::Arc<std::sync::atomic::AtomicBool>> = if c.outer_finishes { Some(Default::default()) } else { None };
    macro_rules! go {
      ($subj:ty) => {{
        #[allow(clippy::type_complexity)]
        let pending: Option<std::sync::Arc<std::sync::Mutex<Vec<(i64, KeyObservable<i64, $subj>)>>>> =
          if late.is_some() && !coarse && !c.cold { Some(Default::default()) } else { None };
        if c.cold {
          let s2 = script.clone();
          create(move |mut s: Subscriber<_>| {
            for n in s2 {
              match n {
                N::Next(v) => s.next(v),
                N::Err(e) => s.clone().error(e),
                N::Complete => s.clone().complete(),
              }
            }
          })
          .group_by::<_, i64, $subj>({
            let mut calls = 0i64;
            move |v: &V| {
              calls += 1;
              match chunk {
                Some(n) => (calls - 1) / n,
                None => key.eval(v),
              }
            }
          })
          .actual_subscribe(Outer::<$subj> { log: log.clone(), bystander, done: done.clone(), takes: c.outer_takes, announced: 0, pending: pending.clone(), _s: Default::default() });
        } else if coarse {
          let mut src = Subject::<'static, V, E>::default();
          src
            .clone()
            .group_by::<_, CK, $subj>({
              let mut calls = 0i64;
              move |v: &V| {
                calls += 1;
                CK(match chunk {
                  Some(n) => (calls - 1) / n,
                  None => key.eval(v),
                })
              }
            })
            .actual_subscribe(Outer::<$subj> { log: log.clone(), bystander, done: done.clone(), takes: c.outer_takes, announced: 0, pending: pending.clone(), _s: Default::default() });
          for n in script.clone() {
            match n {
              N::Next(v) => src.next(v),
              N::Err(e) => src.clone().error(e),
              N::Complete => src.clone().complete(),
            }
          }
        } else {
          let mut src = Subject::<'static, V, E>::default();
          // half of these pipelines have a (transparent) map in front of group_by
          let up: rxrust::ops::box_it::BoxOp<'static, V, E> = if hash64(&c.script) % 2 == 0 { src.clone().map(|v: V| v).box_it() } else { src.clone().box_it() };
          up
            .group_by::<_, i64, $subj>({
              let mut calls = 0i64;
              move |v: &V| {
                calls += 1;
                match chunk {
                  Some(n) => (calls - 1) / n,
                  None => key.eval(v),
                }
              }
            })
            .actual_subscribe(Outer::<$subj> { log: log.clone(), bystander, done: done.clone(), takes: c.outer_takes, announced: 0, pending: pending.clone(), _s: Default::default() });
          // (key, events still to wait, handle)
          let mut waiting: Vec<(i64, usize, KeyObservable<i64, $subj>)> = vec![];
          for n in script {
            match n {
              N::Next(v) => src.next(v),
              N::Err(e) => src.clone().error(e),
              N::Complete => src.clone().complete(),
            }
            if let (Some(p), Some(d)) = (&pending, late) {
              // groups announced by this event start waiting; the others count down
              for w in waiting.iter_mut() {
                w.1 = w.1.saturating_sub(1);
              }
              for (k, g) in p.lock().unwrap().drain(..) {
                waiting.push((k, d, g));
              }
              let mut rest = vec![];
              for (k, left, g) in waiting.drain(..) {
                if left == 0 {
                  log.mark(1, "late_subscribe", k);
                  // the early subscriber of this group (if any) leaves, then TWO newcomers join at once
                  let early: Vec<Box<dyn FnOnce()>> = EARLY.with(|e| {
                    let mut v = e.borrow_mut();
                    let (mine, rest): (Vec<_>, Vec<_>) = v.drain(..).partition(|(kk, _)| *kk == k);
                    *v = rest;
                    mine.into_iter().map(|(_, u)| u).collect()
                  });
                  for u in early {
                    u();
                  }
                  arm_done(&done, 100 + k as u32);
                  g.clone().actual_subscribe(Probe::new(100 + k as u32, &log));
                  g.actual_subscribe(Probe::new(200 + k as u32, &log));
                } else {
                  rest.push((k, left, g));
                }
              }
              waiting = rest;
            }
          }
        }
      }};
    }
    if c.threads_subject {
      go!(SubjectThreads<V, E>)
    } else {
      go!(Subject<'static, V, E>)
    }
    log.evs()
  })
}

pub fn judge(c: &Case, o: &Result<Vec<Ev>, String>) -> Option<(String, serde_json::Value)> {
  let evs = match o {
    Err(p) => return Some(("panic".into(), json!({"panic": p}))),
    Ok(e) => e,
  };
  let src = crate::model::well_formed(c.script.clone());
  // model: partition
  let mut keys: Vec<i64> = vec![];
  let mut per: std::collections::BTreeMap<i64, Vec<N>> = Default::default();
  let mut term: Option<N> = None;
  let mut nth = 0i64;
  for n in &src {
    match n {
      N::Next(v) => {
        // the discriminator is applied once to every item, in source order
        let k = match c.chunk {
          Some(n) => nth / n,
          None => c.key.eval(v),
        };
        nth += 1;
        if !keys.contains(&k) {
          keys.push(k)
        }
        per.entry(k).or_default().push(N::Next(v.clone()));
      }
      t => term = Some(t.clone()),
    }
  }
  if let Some(t) = &term {
    for v in per.values_mut() {
      v.push(t.clone())
    }
  }
  // late subscription (hot source, plain keys): a group announced by source event a is subscribed
  // after event a+d; it is owed the items of its key that follow, and the terminal if that follows too
  let late = if !c.cold && !c.coarse { c.late } else { None };
  if let Some(d) = late {
    let mut first_at: std::collections::BTreeMap<i64, usize> = Default::default();
    let mut nth2 = 0i64;
    let mut keyed: Vec<Option<i64>> = vec![];
    for n in &src {
      match n {
        N::Next(v) => {
          let k = match c.chunk {
            Some(n) => nth2 / n,
            None => c.key.eval(v),
          };
          nth2 += 1;
          keyed.push(Some(k));
        }
        _ => keyed.push(None),
      }
    }
    for (i, k) in keyed.iter().enumerate() {
      if let Some(k) = k {
        first_at.entry(*k).or_insert(i);
      }
    }
    for (k, a) in &first_at {
      let sub_after = a + d; // subscribed once event index a+d has been processed
      let mut exp = vec![];
      if sub_after < src.len() {
        for (i, n) in src.iter().enumerate() {
          if i <= sub_after {
            continue;
          }
          match n {
            N::Next(v) if keyed[i] == Some(*k) => exp.push(N::Next(v.clone())),
            N::Next(_) => {}
            t => exp.push(t.clone()),
          }
        }
      }
      per.insert(*k, exp);
    }
  }
  let announced: Vec<i64> = evs.iter().filter_map(|e| if let K::Mark("group", k) = e.k { Some(k) } else { None }).collect();
  let show = |why: String| json!({"why": why, "script": jn(&c.script), "key": format!("{:?}", c.key)});
  if announced != keys {
    return Some(("wrong_groups".into(), show(format!("announced {:?}, distinct keys in first-appearance order {:?}", announced, keys))));
  }
  for k in &keys {
    let saw: Vec<N> = evs.iter().filter(|e| e.id == 100 + *k as u32).filter_map(|e| if let K::N(n) = &e.k { Some(n.clone()) } else { None }).collect();
    // once the consumer of the groups stream has finished (take(n) on it), a source that
    // consults is_finished may stop driving the pipeline and a Subject withholds its terminal:
    // the groups are then only owed a prefix of their items (announcements stay exact)
    let want = per.get(k).unwrap();
    // (no source used here consults is_finished before an item: every item is still owed, only
    // the terminal may be withheld)
    let items_only: Vec<N> = want.iter().filter(|n| !n.is_terminal()).cloned().collect();
    let relaxed_ok = c.outer_takes.is_some() && saw == items_only;
    if &saw != want && !relaxed_ok {
      let kind = if grammar_violation(&saw).is_some() { "group_malformed" } else { "group_wrong_items" };
      return Some((kind.into(), show(format!("group {} saw {:?}, expected {:?}", k, saw, per.get(k).unwrap()))));
    }
  }
  // late mode: the twin newcomer (probe 200+key) joined together with probe 100+key
  if late.is_some() {
    for k in &keys {
      let a: Vec<N> = evs.iter().filter(|e| e.id == 100 + *k as u32).filter_map(|e| if let K::N(n) = &e.k { Some(n.clone()) } else { None }).collect();
      let b: Vec<N> = evs.iter().filter(|e| e.id == 200 + *k as u32).filter_map(|e| if let K::N(n) = &e.k { Some(n.clone()) } else { None }).collect();
      if a != b {
        return Some(("group_wrong_items".into(), show(format!("two subscribers joined group {} at the same moment; one saw {:?}, the other {:?}", k, a, b))));
      }
    }
  }
  // no group probe for an unknown key
  for e in evs {
    if e.id >= 100 && e.id < 200 && !keys.contains(&((e.id - 100) as i64)) {
      return Some(("item_to_wrong_group".into(), show(format!("observer of key {} received {:?}", e.id - 100, e.k))));
    }
  }
  let outer: Vec<N> = evs.iter().filter(|e| e.id == 1).filter_map(|e| if let K::N(n) = &e.k { Some(n.clone()) } else { None }).collect();
  let want: Vec<N> = term.into_iter().collect();
  if outer != want && !(c.outer_takes.is_some() && outer.is_empty()) {
    return Some(("outer_wrong_terminal".into(), show(format!("stream of groups saw {:?}, expected {:?}", outer, want))));
  }
  None
}

/// flattening the groups back reproduces the source sequence (via the builder)
fn flatten_check(c: &Case) -> Option<(String, serde_json::Value)> {
  let flavor = if c.threads_subject { Flavor::Threads } else { Flavor::Local };
  let chain = Chain::new(Src::Hot(0), vec![Op::GroupByFlat(c.key.clone())]);
  let o = crate::props::c03::observe(flavor, &chain, &c.script);
  match o {
    Err(p) => Some(("panic".into(), json!({"panic": p}))),
    Ok(obs) => {
      let want = crate::model::well_formed(c.script.clone());
      if obs.out != want {
        Some(("flatten_mismatch".into(), json!({"observed": jn(&obs.out), "source": jn(&want)})))
      } else {
        None
      }
    }
  }
}

fn check(cfg: &Cfg, rep: &mut Report, id: &str, c: &Case) {
  if !cfg.wants(id) {
    return;
  }
  rep.evaluations += 1;
  let o = observe(c);
  if let Ok(evs) = &o {
    rep.events += evs.len() as u64;
    let groups = evs.iter().filter(|e| matches!(e.k, K::Mark("group", _))).count();
    let big = (0..4).any(|k| evs.iter().filter(|e| e.id == 100 + k && matches!(e.k, K::N(N::Next(_)))).count() >= 2);
    if groups >= 2 && big {
      rep.nontrivial.insert(hash64(c));
    }
  }
  rep.set("group_subject_types", if c.threads_subject { "SubjectThreads" } else { "Subject" });
  if c.chunk.is_some() {
    rep.count("cases_with_a_stateful_discriminator", 1);
  }
  if c.coarse && !c.cold {
    rep.count("cases_with_colliding_key_hashes", 1);
  }
  if c.bystander {
    rep.count("cases_with_a_closed_subscriber_ahead_in_each_group", 1);
  }
  if c.late.is_some() && !c.cold && !c.coarse {
    rep.count("cases_with_groups_subscribed_late", 1);
  }
  if c.outer_finishes {
    rep.count("cases_where_the_outer_observer_finishes_during_the_terminal", 1);
  }
  if c.outer_takes.is_some() {
    rep.count("cases_where_the_outer_observer_finishes_after_n_groups", 1);
  }
  let res = judge(c, &o).or_else(|| if !c.cold && c.chunk.is_none() && !c.coarse && !c.bystander && c.late.is_none() && !c.outer_finishes && c.outer_takes.is_none() { flatten_check(c) } else { None });
  if let Some((kind, detail)) = res {
    rep.violation(&kind, if c.threads_subject { "group_by[SubjectThreads]" } else { "group_by[Subject]" }, id, json!({"case": format!("{:?}", c), "result": detail}));
  } else if let Ok(evs) = &o {
    rep.sample_some(5009, || {
      json!({"case": id, "key": format!("{:?}", c.key), "script": jn(&c.script),
             "log": evs.iter().map(|e| format!("{}:{:?}", e.id, e.k)).collect::<Vec<_>>()})
    });
  }
}

/// a group's subscriber panics on one of its items (user code); the application catches the panic
/// around the source call and goes on emitting: no key may be announced a second time, the groups
/// keep receiving the later items of their keys, and the terminal reaches them. Local form.
fn panicking_group_subscriber_battery(rep: &mut Report) {
  use std::cell::RefCell;
  use std::rc::Rc;
  struct Picky {
    key: i64,
    log: Rc<RefCell<Vec<String>>>,
  }
  impl Observer<V, E> for Picky {
    fn next(&mut self, v: V) {
      if v.int() == 13 {
        panic!("a group's subscriber fails on an item");
      }
      self.log.borrow_mut().push(format!("g{} {}", self.key, v.int()));
    }
    fn error(self, e: E) {
      self.log.borrow_mut().push(format!("g{} error {}", self.key, e));
    }
    fn complete(self) {
      self.log.borrow_mut().push(format!("g{} complete", self.key));
    }
    fn is_finished(&self) -> bool {
      false
    }
  }
  struct Groups {
    log: Rc<RefCell<Vec<String>>>,
    /// the consumer of the stream of groups fails while it is handed key 1 for the first time
    fail_on_first_odd: bool,
  }
  impl Observer<KeyObservable<i64, Subject<'static, V, E>>, E> for Groups {
    fn next(&mut self, g: KeyObservable<i64, Subject<'static, V, E>>) {
      if self.fail_on_first_odd && g.key == 1 {
        self.fail_on_first_odd = false;
        self.log.borrow_mut().push("announcement of 1 failed".into());
        panic!("the consumer of the groups fails on an announcement");
      }
      self.log.borrow_mut().push(format!("announce {}", g.key));
      let key = g.key;
      std::mem::forget(g.actual_subscribe(Picky { key, log: self.log.clone() }));
    }
    fn error(self, e: E) {
      self.log.borrow_mut().push(format!("outer error {}", e));
    }
    fn complete(self) {
      self.log.borrow_mut().push("outer complete".into());
    }
    fn is_finished(&self) -> bool {
      false
    }
  }
  for (k, script) in [vec![1i64, 2, 13, 3, 4], vec![13, 1, 2, 15], vec![2, 4, 13, 13, 6, 1]].into_iter().enumerate() {
    rep.evaluations += 1;
    rep.count("cases_with_a_group_subscriber_that_panics", 1);
    let id = format!("panicking:{}", k);
    let log: Rc<RefCell<Vec<String>>> = Default::default();
    let mut src = Subject::<'static, V, E>::default();
    std::mem::forget(src.clone().group_by::<_, i64, Subject<'static, V, E>>(|v: &V| v.int() % 2).actual_subscribe(Groups { log: log.clone(), fail_on_first_odd: false }));
    for v in &script {
      let mut s2 = src.clone();
      let v = *v;
      let _ = std::panic::catch_unwind(std::panic::AssertUnwindSafe(move || s2.next(V::I(v))));
    }
    src.complete();
    // expected: every key announced once at its first appearance, every item but the poisonous
    // one delivered to the group of its key in order, both terminals
    let mut want: Vec<String> = vec![];
    let mut seen_keys: Vec<i64> = vec![];
    for v in &script {
      let key = v % 2;
      if !seen_keys.contains(&key) {
        seen_keys.push(key);
        want.push(format!("announce {}", key));
      }
      if *v != 13 {
        want.push(format!("g{} {}", key, v));
      }
    }
    let got = log.borrow().clone();
    rep.events += got.len() as u64;
    let items_got: Vec<&String> = got.iter().filter(|l| !l.contains("complete")).collect();
    let completes = got.iter().filter(|l| l.ends_with("complete")).count();
    if items_got != want.iter().collect::<Vec<_>>() || completes != seen_keys.len() + 1 {
      rep.violation("wrong_groups", "group_by[a group subscriber panics]", &id, json!({"script": script, "observed": got, "expected_before_the_terminals": want, "expected_terminals": seen_keys.len() + 1}));
    } else {
      rep.nontrivial.insert(hash64(&id));
    }
  }
  // the consumer of the stream of groups fails while it is handed a group (caught, the program
  // goes on): the item that carried the failed announcement is lost with it, the key is
  // announced again with its next item and that group gets everything from then on
  for (k, script) in [vec![2i64, 1, 3, 4, 5], vec![1, 1, 2], vec![2, 1, 4, 3]].into_iter().enumerate() {
    rep.evaluations += 1;
    rep.count("cases_with_a_group_subscriber_that_panics", 1);
    let id = format!("panicking:announce:{}", k);
    let log: Rc<RefCell<Vec<String>>> = Default::default();
    let mut src = Subject::<'static, V, E>::default();
    std::mem::forget(src.clone().group_by::<_, i64, Subject<'static, V, E>>(|v: &V| v.int() % 2).actual_subscribe(Groups { log: log.clone(), fail_on_first_odd: true }));
    for v in &script {
      let mut s2 = src.clone();
      let v = *v;
      let _ = std::panic::catch_unwind(std::panic::AssertUnwindSafe(move || s2.next(V::I(v))));
    }
    src.complete();
    let mut want: Vec<String> = vec![];
    let mut seen_keys: Vec<i64> = vec![];
    let mut failed_once = false;
    for v in &script {
      let key = v % 2;
      if key == 1 && !failed_once {
        failed_once = true;
        want.push("announcement of 1 failed".into());
        continue;
      }
      if !seen_keys.contains(&key) {
        seen_keys.push(key);
        want.push(format!("announce {}", key));
      }
      want.push(format!("g{} {}", key, v));
    }
    let got = log.borrow().clone();
    rep.events += got.len() as u64;
    let items_got: Vec<&String> = got.iter().filter(|l| !l.contains("complete")).collect();
    let completes = got.iter().filter(|l| l.ends_with("complete")).count();
    if items_got != want.iter().collect::<Vec<_>>() || completes != seen_keys.len() + 1 {
      rep.violation("wrong_groups", "group_by[the consumer of the groups panics on an announcement]", &id, json!({"script": script, "observed": got, "expected_before_the_terminals": want, "expected_terminals": seen_keys.len() + 1}));
    } else {
      rep.nontrivial.insert(hash64(&id));
    }
  }
}

pub fn run(cfg: &Cfg, rep: &mut Report) {
  if cfg.shard == 0 && cfg.only_case.as_deref().map_or(true, |c| c.starts_with("panicking:")) {
    panicking_group_subscriber_battery(rep);
  }
  let len = cfg.n(5, 7);
  let keys = [KeyF::Const, KeyF::Ident, KeyF::Mod(2), KeyF::Mod(3)];
  let mut idx = 0usize;
  // enumerated: every script over {0..3} up to len x terminal x key function
  let scripts = crate::gen::all_scripts(&[0, 1, 2, 3], len);
  for s in &scripts {
    for key in &keys {
      for threads_subject in [false, true] {
        for cold in [false, true] {
          idx += 1;
          if !cfg.mine(idx) {
            continue;
          }
          if cold && idx % 4 != 0 {
            continue;
          }
          check(cfg, rep, &format!("enum:{}", idx), &Case { key: key.clone(), script: s.clone(), threads_subject, cold, chunk: None, coarse: false, bystander: false, late: if !cold && idx % 5 == 0 { Some(idx % 3) } else { None }, outer_finishes: idx % 7 == 0, outer_takes: if idx % 6 == 0 { Some(1 + idx % 3) } else { None } });
          if *key == KeyF::Const {
            // the same scripts with the stateful discriminators in place of the constant one
            for n in [1i64, 2, 3] {
              check(cfg, rep, &format!("enum:{}:chunk{}", idx, n), &Case { key: key.clone(), script: s.clone(), threads_subject, cold, chunk: Some(n), coarse: !cold && idx % 2 == 0, bystander: idx % 3 == 0, late: None, outer_finishes: idx % 4 == 0, outer_takes: None });
            }
          }
        }
      }
    }
  }
  // random longer scripts with post-terminal events
  let total = cfg.n(200_000, 8_000_000);
  let mut rng = Rng::new(cfg.seed ^ 0xC20);
  for i in 0..total {
    let mut r = rng.fork();
    if !cfg.mine(i) {
      continue;
    }
    let c = Case {
      key: keys[r.below(4)].clone(),
      script: crate::gen::random_script(&mut r, cfg.n(8, 12), 4, true),
      threads_subject: r.chance(1, 2),
      cold: r.chance(1, 4),
      chunk: if r.chance(1, 5) { Some(1 + r.below(3) as i64) } else { None },
      coarse: r.chance(1, 3),
      bystander: r.chance(1, 3),
      late: if r.chance(1, 4) { Some(r.below(3)) } else { None },
      outer_finishes: r.chance(1, 4),
      outer_takes: if r.chance(1, 4) { Some(1 + r.below(3)) } else { None },
    };
    check(cfg, rep, &format!("rand:{}", i), &c);
  }
}
