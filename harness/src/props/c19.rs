//! C19 — scheduled tasks run at most once, never early, and stay cancelled.
//! Direct use of the public `Scheduler::schedule` API with OnceTask,
//! FutureTask and RepeatTask on the order-choosing executor.
use crate::ast::Scripted;
use crate::log::*;
use crate::report::{Cfg, Report};
use crate::scripts::{ItemFuture, SStream};
use crate::value::*;
use crate::vtime::MS;
use crate::world::*;
use rxrust::prelude::*;
use rxrust::scheduler::{FutureTask, NormalReturn, OnceTask, RepeatTask, Scheduler, SubscribeReturn};
use serde_json::json;
use std::cell::RefCell;
use std::rc::Rc;
use std::time::Duration;

#[derive(Clone, Debug, PartialEq, Eq, Hash)]
pub enum Kind {
  Once,
  /// one-shot whose result is a subscription (the delay_subscription shape)
  Subscribing,
  /// waits for a scripted future that is pending k polls
  Future(u8),
  /// (period ms, declines when seq reaches limit)
  Repeat(u64, usize),
  /// same, built with RepeatTask::with_first_delay (own first wait in us, armed at creation)
  RepeatFirst(u64, usize, u64),
}

#[derive(Clone, Debug, PartialEq, Eq, Hash)]
pub struct TaskSpec {
  pub kind: Kind,
  pub delay: Option<u64>,
  /// cancel the handle before this step of the schedule (None: never)
  pub cancel_at: Option<usize>,
}

#[derive(Clone, Debug, PartialEq, Eq, Hash)]
pub struct Case {
  pub tasks: Vec<TaskSpec>,
  pub threads: bool,
  pub policy: Policy,
  pub late: bool,
  pub seed: u64,
}

/// the subscription a subscribing task produces
pub struct Produced {
  id: u32,
  log: Log,
  closed: std::sync::Arc<std::sync::atomic::AtomicBool>,
}
impl Subscription for Produced {
  fn unsubscribe(self) {
    self.closed.store(true, std::sync::atomic::Ordering::SeqCst);
    self.log.mark(self.id, "produced_unsub", 0);
  }
  fn is_closed(&self) -> bool {
    self.closed.load(std::sync::atomic::Ordering::SeqCst)
  }
}

fn once_body((log, id): (Log, u32)) -> NormalReturn<()> {
  log.mark(id, "run", 0);
  crate::conc::yield_now();
  log.mark(id, "run_end", 0);
  NormalReturn::new(())
}
fn sub_body((log, id): (Log, u32)) -> SubscribeReturn<Produced> {
  log.mark(id, "run", 0);
  SubscribeReturn::new(Produced { id, log, closed: Default::default() })
}
fn fut_body(_v: V, (log, id): (Log, u32)) -> NormalReturn<()> {
  log.mark(id, "run", 0);
  NormalReturn::new(())
}
fn rep_body(args: &mut (Log, u32, usize), seq: usize) -> bool {
  args.0.mark(args.1, "rep", seq as i64);
  seq + 1 < args.2
}

type Cancel = Box<dyn FnOnce()>;
type Closed = Box<dyn Fn() -> Option<bool>>;

fn handle_fns<H: Subscription + 'static>(h: H) -> (Cancel, Closed) {
  let cell = Rc::new(RefCell::new(Some(h)));
  let c2 = cell.clone();
  (
    Box::new(move || {
      if let Some(h) = cell.borrow_mut().take() {
        h.unsubscribe()
      }
    }),
    Box::new(move || c2.borrow().as_ref().map(|h| h.is_closed())),
  )
}

fn spawn<S>(sched: &S, spec: &TaskSpec, id: u32, log: &Log) -> (Cancel, Closed)
where
  S: Scheduler<OnceTask<(Log, u32), NormalReturn<()>>>
    + Scheduler<OnceTask<(Log, u32), SubscribeReturn<Produced>>>
    + Scheduler<FutureTask<ItemFuture, (Log, u32), NormalReturn<()>>>
    + Scheduler<RepeatTask<(Log, u32, usize)>>,
{
  let delay = spec.delay.map(Duration::from_micros);
  log.mark(id, "scheduled", 0);
  match &spec.kind {
    Kind::Once => handle_fns(sched.schedule(OnceTask::new(once_body, (log.clone(), id)), delay)),
    Kind::Subscribing => handle_fns(sched.schedule(OnceTask::new(sub_body, (log.clone(), id)), delay)),
    Kind::Future(k) => {
      let s = Scripted { items: vec![(*k, Ok(V::I(1)))], end_pending: 0, endless: false, self_wake: true };
      let f = ItemFuture(SStream::new(400 + id, s, log));
      handle_fns(sched.schedule(FutureTask::new(f, fut_body, (log.clone(), id)), delay))
    }
    Kind::Repeat(p, lim) => {
      handle_fns(sched.schedule(RepeatTask::new(Duration::from_millis(*p), rep_body, (log.clone(), id, *lim)), delay))
    }
    Kind::RepeatFirst(p, lim, first) => {
      handle_fns(sched.schedule(
        RepeatTask::with_first_delay(Duration::from_micros(*first), Duration::from_millis(*p), rep_body, (log.clone(), id, *lim)),
        delay,
      ))
    }
  }
}

pub struct Obs {
  pub evs: Vec<Ev>,
  /// (task, seq stamp, closed?) samples
  pub closed_samples: Vec<(u32, u64, bool)>,
  pub cancels: Vec<(u32, u64, u64)>,
  pub choice_hash: u64,
  pub max_ready: usize,
}

pub fn observe(c: &Case) -> Result<Obs, String> {
  catch(|| {
    let mut rng = Rng::new(c.seed);
    let mut w = World::new(if c.threads { Flavor::Threads } else { Flavor::Local }, 0);
    let log = w.log.clone();
    let mut cancels_fn: Vec<Option<Cancel>> = vec![];
    let mut closed_fn: Vec<Closed> = vec![];
    for (i, t) in c.tasks.iter().enumerate() {
      let (cf, cl) = if c.threads { spawn(&w.t.sched, t, 10 + i as u32, &log) } else { spawn(&w.l.sched, t, 10 + i as u32, &log) };
      cancels_fn.push(Some(cf));
      closed_fn.push(cl);
    }
    let samples: RefCell<Vec<(u32, u64, bool)>> = RefCell::new(vec![]);
    let cancels: RefCell<Vec<(u32, u64, u64)>> = RefCell::new(vec![]);
    let cancels_fn = RefCell::new(cancels_fn);
    let mut on_step = |w: &mut World, step: usize, _: &mut Rng| {
      for (i, t) in c.tasks.iter().enumerate() {
        let id = 10 + i as u32;
        if t.cancel_at == Some(step) {
          if let Some(f) = cancels_fn.borrow_mut()[i].take() {
            let a = w.log.mark(id, "cancel_call", 0);
            f();
            let b = w.log.mark(id, "cancel_ret", 0);
            cancels.borrow_mut().push((id, a, b));
          }
        }
        if let Some(cl) = closed_fn[i]() {
          samples.borrow_mut().push((id, crate::log::stamp(), cl));
        }
      }
    };
    let horizon = 120 * MS;
    if c.late {
      w.drive_late(&[], c.policy, horizon, &mut rng, &mut on_step);
    } else {
      w.drive_prompt(&[], c.policy, horizon, &mut rng, &mut on_step);
    }
    w.drain(c.policy, horizon, &mut rng);
    on_step(&mut w, usize::MAX, &mut rng);
    let evs = w.log.evs();
    let out = Obs {
      evs,
      closed_samples: samples.into_inner(),
      cancels: cancels.into_inner(),
      choice_hash: w.choice_hash(),
      max_ready: w.max_ready,
    };
    w.teardown();
    out
  })
}

pub fn judge(c: &Case, o: &Result<Obs, String>) -> Option<(String, String, serde_json::Value)> {
  let o = match o {
    Err(p) => return Some(("panic".into(), "scheduler".into(), json!({"panic": p}))),
    Ok(o) => o,
  };
  for (i, t) in c.tasks.iter().enumerate() {
    let id = 10 + i as u32;
    let kname = match t.kind {
      Kind::Once => "once_task",
      Kind::Subscribing => "subscribing_task",
      Kind::Future(_) => "future_task",
      Kind::Repeat(..) | Kind::RepeatFirst(..) => "repeat_task",
    };
    let evs: Vec<&Ev> = o.evs.iter().filter(|e| e.id == id).collect();
    let show = |why: String| {
      json!({"why": why, "task": format!("{:?}", t),
             "log": evs.iter().map(|e| format!("{}@{}ns:{:?}", e.seq, e.vt, e.k)).collect::<Vec<_>>()})
    };
    let sched_vt = evs.iter().find(|e| matches!(e.k, K::Mark("scheduled", _))).map_or(0, |e| e.vt);
    let delay = t.delay.unwrap_or(0) * 1000;
    let runs: Vec<&&Ev> = evs.iter().filter(|e| matches!(e.k, K::Mark("run", _) | K::Mark("rep", _))).collect();
    let cancel = o.cancels.iter().find(|(cid, _, _)| *cid == id);
    match &t.kind {
      Kind::Repeat(p, lim) | Kind::RepeatFirst(p, lim, _) => {
        let seqs: Vec<i64> = runs.iter().filter_map(|e| if let K::Mark("rep", s) = e.k { Some(s) } else { None }).collect();
        if seqs.iter().enumerate().any(|(i, s)| *s != i as i64) {
          return Some(("wrong_sequence_numbers".into(), kname.into(), show(format!("sequence numbers {:?}", seqs))));
        }
        if seqs.len() > *lim {
          return Some(("ran_after_declining".into(), kname.into(), show(format!("ran {} times, declined at {}", seqs.len(), lim))));
        }
        // never before the delay has elapsed; later runs at least one period apart
        let mut prev: Option<u64> = None;
        for r in &runs {
          let first = match &t.kind {
            Kind::RepeatFirst(_, _, f) => *f * 1000,
            // RepeatTask::new arms one period at creation
            _ => p * MS,
          };
          let lo = match prev {
            None => sched_vt + delay.max(first),
            Some(p0) => p0 + p * MS,
          };
          if r.vt < lo {
            return Some(("ran_early".into(), kname.into(), show(format!("run at {}ns, not before {}ns", r.vt, lo))));
          }
          prev = Some(r.vt);
        }
      }
      _ => {
        if runs.len() > 1 {
          return Some(("ran_twice".into(), kname.into(), show("one-shot body ran more than once".into())));
        }
        if let Some(r) = runs.first() {
          if r.vt < sched_vt + delay {
            return Some(("ran_early".into(), kname.into(), show(format!("ran at {}ns, scheduled at {}ns with delay {}ns", r.vt, sched_vt, delay))));
          }
        }
      }
    }
    if let Some((_, _call, ret)) = cancel {
      if let Some(r) = runs.iter().find(|e| e.seq > *ret) {
        return Some(("ran_after_cancel".into(), kname.into(), show(format!("body started at stamp {} after unsubscribe() returned at {}", r.seq, ret))));
      }
      if t.kind == Kind::Subscribing {
        let ran_before = runs.iter().any(|e| e.seq < *ret);
        let produced_unsub = evs.iter().any(|e| matches!(e.k, K::Mark("produced_unsub", _)));
        if ran_before && !produced_unsub {
          return Some(("produced_subscription_left_open".into(), kname.into(), show("the handle was cancelled after the task had produced its subscription, which was not unsubscribed".into())));
        }
      }
    }
    // a handle that reported closed: its task can no longer act
    for (sid, stamp, closed) in &o.closed_samples {
      if *sid == id && *closed {
        // a subscribing task acts through the subscription it produced for as long as that is open
        if matches!(t.kind, Kind::Subscribing) {
          let ran = runs.iter().any(|e| e.seq < *stamp);
          let produced_closed = evs.iter().any(|e| e.seq < *stamp && matches!(e.k, K::Mark("produced_unsub", _)));
          if ran && !produced_closed {
            return Some(("closed_while_its_subscription_is_open".into(), kname.into(), show(format!("is_closed()==true at stamp {} although the subscription the task produced had not been unsubscribed", stamp))));
          }
        }
        if let Some(r) = runs.iter().find(|e| e.seq > *stamp) {
          return Some(("closed_but_still_acting".into(), kname.into(), show(format!("is_closed()==true at stamp {}, body ran at stamp {}", stamp, r.seq))));
        }
      }
    }
  }
  None
}

pub fn random_case(r: &mut Rng) -> Case {
  let n = 1 + r.below(4);
  let tasks = (0..n)
    .map(|_| TaskSpec {
      kind: match r.below(6) {
        0 | 1 => Kind::Once,
        2 => Kind::Subscribing,
        3 => Kind::Future(r.below(3) as u8),
        4 => Kind::RepeatFirst([1, 5][r.below(2)], 1 + r.below(4), [0, 400, 2000][r.below(3)]),
        _ => Kind::Repeat([1, 5][r.below(2)], 1 + r.below(4)),
      },
      // microseconds: none, zero, sub-millisecond, 1 ms, 5 ms
      delay: [None, Some(0), Some(400), Some(999), Some(1000), Some(5000)][r.below(6)],
      cancel_at: if r.chance(2, 3) { Some(r.below(12)) } else { None },
    })
    .collect();
  Case { tasks, threads: r.chance(1, 3), policy: if r.chance(1, 2) { Policy::Fifo } else { Policy::Any }, late: r.chance(1, 2), seed: r.next() }
}

/// A third-party scheduler written against the public API: it runs a task inline when it is
/// scheduled (polls it to completion on the spot; timers are virtual and not used here) and hands
/// back `TaskHandle::value_handle(output)`. A subscribing task's handle obtained that way must
/// still cancel the subscription it made, report it open while it is, and stay cancelled.
#[derive(Clone)]
struct InlineScheduler;
impl<T> Scheduler<T> for InlineScheduler
where
  T: std::future::Future + 'static,
{
  fn schedule(&self, task: T, _delay: Option<Duration>) -> rxrust::scheduler::TaskHandle<T::Output> {
    let mut task = Box::pin(task);
    let w = futures::task::noop_waker();
    let mut cx = std::task::Context::from_waker(&w);
    match task.as_mut().poll(&mut cx) {
      std::task::Poll::Ready(out) => rxrust::scheduler::TaskHandle::value_handle(out),
      std::task::Poll::Pending => panic!("harness: the inline scheduler is only given tasks that finish at once"),
    }
  }
}

fn inline_scheduler_battery(rep: &mut Report) {
  for via_guard in [false, true] {
    rep.evaluations += 1;
    rep.count("subscribing_tasks_on_a_third_party_inline_scheduler", 1);
    let id = format!("inline:{}", via_guard);
    let log = Log::new();
    let mut hot = Subject::<'static, V, E>::default();
    let h = hot.clone().subscribe_on(InlineScheduler).actual_subscribe(Probe::new(1, &log));
    hot.next(V::I(1));
    let open_reported_closed = h.is_closed();
    if via_guard {
      drop(h.unsubscribe_when_dropped());
    } else {
      h.unsubscribe();
    }
    hot.next(V::I(2));
    hot.next(V::I(3));
    let got = log.notes(1);
    rep.events += got.len() as u64 + 1;
    if open_reported_closed {
      rep.violation("closed_but_still_acting", "subscribing_task[inline scheduler]", &id, json!({"why": "is_closed() == true while the subscription made by the task was delivering"}));
    } else if got != vec![N::Next(V::I(1))] {
      rep.violation("delivery_after_cancel", "subscribing_task[inline scheduler]", &id, json!({"why": "unsubscribe() on the handle of a subscribing task did not cancel the subscription the task had made", "observed": jn(&got), "expected": jn(&[N::Next(V::I(1))])}));
    } else {
      rep.nontrivial.insert(hash64(&id));
    }
  }
}

pub fn run(cfg: &Cfg, rep: &mut Report) {
  if cfg.shard == 0 && cfg.only_case.as_deref().map_or(true, |c| c.starts_with("inline:")) {
    inline_scheduler_battery(rep);
  }
  let total = cfg.n(500_000, 20_000_000);
  let mut rng = Rng::new(cfg.seed ^ 0xC19);
  for i in 0..total {
    let mut r = rng.fork();
    if !cfg.mine(i) {
      continue;
    }
    let id = format!("task:{}", i);
    if !cfg.wants(&id) {
      continue;
    }
    let c = random_case(&mut r);
    rep.evaluations += 1;
    let o = observe(&c);
    if let Ok(obs) = &o {
      rep.events += obs.evs.len() as u64;
      // non-trivial: a cancellation fell while the task was pending (after scheduling, before completion)
      for (cid, call, _) in &obs.cancels {
        let ran_before = obs.evs.iter().any(|e| e.id == *cid && e.seq < *call && matches!(e.k, K::Mark("run", _)));
        let t = &c.tasks[(*cid - 10) as usize];
        let finished = match t.kind {
          Kind::Repeat(_, lim) | Kind::RepeatFirst(_, lim, _) => obs.evs.iter().filter(|e| e.id == *cid && e.seq < *call && matches!(e.k, K::Mark("rep", _))).count() >= lim,
          _ => ran_before,
        };
        if !finished {
          rep.nontrivial.insert(hash64(&c));
          rep.count("cancellations_while_pending", 1);
        } else {
          rep.count("cancellations_after_completion", 1);
        }
      }
      rep.distinct("distinct_schedules", obs.choice_hash ^ hash64(&c.tasks));
      for t in &c.tasks {
        rep.set("task_kinds_covered", &format!("{:?}", t.kind).split('(').next().unwrap().to_string());
      }
    }
    if let Some((kind, locus, detail)) = judge(&c, &o) {
      rep.violation(&kind, &locus, &id, json!({"case": format!("{:?}", c), "result": detail}));
    } else if let Ok(obs) = &o {
      rep.sample_some(8111, || {
        json!({"case": id, "tasks": format!("{:?}", c.tasks), "policy": format!("{:?}", c.policy), "late": c.late,
               "log": obs.evs.iter().filter(|e| e.id >= 10 && e.id < 20).map(|e| format!("task{}@{}ns:{:?}", e.id - 10, e.vt, e.k)).collect::<Vec<_>>()})
      });
    }
  }

  // thread part: worker threads run the bodies while another thread cancels the handles (baton scheduler)
  super::thr::task_campaign(cfg, rep, cfg.n(12_000, 600_000));
}
