//! C16 — ending a stream early retires the producers that feed it.
use super::common::*;
use crate::ast::*;
use crate::gen::*;
use crate::log::K;
use crate::report::{Cfg, Report};
use crate::value::*;
use crate::vtime::MS;
use crate::world::*;
use serde_json::json;

const TAP: u32 = 77;
const PID: u32 = 310;
const CAP: usize = 1500;

#[derive(Clone, Debug, PartialEq, Eq, Hash)]
pub enum Prod {
  Interval(u64),
  Iter,
  Stream,
}

#[derive(Clone, Debug, PartialEq, Eq, Hash)]
pub struct Case {
  pub prod: Prod,
  /// None: producer is the main input; Some(op name): producer is the
  /// secondary / notifier input of that two-input operator over a hot main
  pub secondary: Option<&'static str>,
  pub middle: Vec<Op>,
  /// secondary position only: the main input is cold and terminates at subscription
  /// (1 = throw, 2 = empty) instead of a hot subject followed by a cutter
  pub main_cold: u8,
  pub cutter: Op,
  pub flavor: Flavor,
  pub policy: Policy,
  pub seed: u64,
}

fn prod_chain(p: &Prod, middle: &[Op], seed: u64) -> Chain {
  let src = match p {
    Prod::Interval(ms) => Src::Interval(*ms),
    // an even cap makes the counting iterator report its exact remaining length (like a Vec or
    // a range), an odd one leaves size_hint() at its default (like a filter / from_fn iterator)
    Prod::Iter => Src::IterCount(PID, CAP + (seed % 2) as usize),
    // odd seeds: a stream with a backlog (six items ready in a row between two pending spells),
    // so that several items are ready at the moment the stream is ended
    Prod::Stream if seed % 2 == 1 => Src::Stream(
      PID,
      Scripted {
        items: vec![(1, Ok(V::I(0))), (0, Ok(V::I(1))), (0, Ok(V::I(2))), (0, Ok(V::I(3))), (0, Ok(V::I(4))), (0, Ok(V::I(5))), (0, Ok(V::I(6))), (2, Ok(V::I(7)))],
        end_pending: 0,
        endless: true,
        self_wake: true,
      },
    ),
    Prod::Stream => Src::Stream(
      PID,
      Scripted { items: vec![(1, Ok(V::I(0))), (0, Ok(V::I(1))), (2, Ok(V::I(2)))], end_pending: 0, endless: true, self_wake: true },
    ),
  };
  let mut ops = vec![Op::Tap(TAP)];
  ops.extend(middle.iter().cloned());
  Chain::new(src, ops)
}

pub fn chain_of(c: &Case) -> Chain {
  match c.secondary {
    None => {
      let mut ch = prod_chain(&c.prod, &c.middle, c.seed);
      ch.ops.push(c.cutter.clone());
      ch
    }
    Some(op) if op.starts_with("inner-of-") => {
      // the producer is an inner observable of a flattening operator over a hot outer
      let inner = prod_chain(&c.prod, &c.middle, c.seed);
      let fl = match op {
        "inner-of-flat_map" => Op::FlatMap(vec![inner]),
        "inner-of-concat_map" => Op::ConcatMap(vec![inner]),
        // three inner producers, one running and two waiting for its slot when the stream ends
        "inner-of-concat_map[2 queued]" => Op::ConcatMap(vec![inner.clone(), inner.clone(), inner]),
        "inner-of-merge_all(1)[2 queued]" => Op::MergeAll(1, vec![inner.clone(), inner.clone(), inner]),
        _ => Op::MergeAll(2, vec![inner]),
      };
      Chain::new(Src::Hot(0), vec![fl, c.cutter.clone()])
    }
    Some(op) if c.main_cold > 0 => {
      let sec = prod_chain(&c.prod, &c.middle, c.seed);
      let main = if c.main_cold == 1 { Src::Throw(7) } else { Src::Empty };
      Chain::new(main, vec![crate::props::c04::mk_op(op, sec)])
    }
    Some(op) => {
      let sec = prod_chain(&c.prod, &c.middle, c.seed);
      Chain::new(Src::Hot(0), vec![crate::props::c04::mk_op(op, sec), c.cutter.clone()])
    }
  }
}

fn cutters(r: &mut Rng) -> Op {
  match r.below(9) {
    0 | 1 => Op::Take(1 + r.below(3)),
    2 => Op::First,
    3 => Op::FirstOr(V::I(9)),
    4 => Op::ElementAt(r.below(3)),
    5 => Op::TakeWhile(Pred::Lt(2)),
    6 => Op::TakeWhileIncl(Pred::Lt(1)),
    7 => Op::Contains(V::I(r.range(0, 2))),
    _ => Op::All(Pred::Lt(2)),
  }
}

/// every catalogue operator once in the middle position (sweep)
pub fn middle_sweep() -> Vec<Op> {
  let mut v = single_op_variants(1);
  v.retain(|op| {
    !matches!(
      op,
      Op::IgnoreElements | Op::Last | Op::LastOr(_) | Op::TakeLast(_) | Op::Reduce | Op::ReduceInitial(_) | Op::Count | Op::Sum | Op::Min | Op::Max | Op::Collect | Op::Filter(Pred::False) | Op::FilterMap(Pred::False, _) | Op::SkipWhile(Pred::True) | Op::Take(0) | Op::Tap(_)
    )
  });
  v.extend([
    Op::Status,
    Op::Delay(1),
    Op::ObserveOn,
    Op::Debounce(1),
    Op::ThrottleTime(1, Edge::Leading),
    Op::ThrottleTime(1, Edge::Trailing),
    Op::ThrottleTime(2, Edge::All),
    Op::BufferWithTime(3),
    Op::BufferWithCountAndTime(2, 5),
    Op::Merge(Box::new(Chain::new(Src::Of(V::I(1)), vec![]))),
    Op::Zip(Box::new(Chain::new(Src::Iter((0..50).map(V::I).collect()), vec![]))),
    Op::CombineLatest(Box::new(Chain::new(Src::Of(V::I(1)), vec![]))),
    Op::WithLatestFrom(Box::new(Chain::new(Src::Of(V::I(1)), vec![]))),
    Op::SkipUntil(Box::new(Chain::new(Src::Of(V::I(1)), vec![]))),
    Op::TakeUntil(Box::new(Chain::new(Src::Never, vec![]))),
    Op::FlatMap(vec![Chain::new(Src::Of(V::I(1)), vec![])]),
    Op::ConcatMap(vec![Chain::new(Src::Iter(vec![V::I(0), V::I(1)]), vec![])]),
    Op::MergeAll(2, vec![Chain::new(Src::Of(V::I(2)), vec![])]),
    Op::GroupByFlat(KeyF::Mod(2)),
    Op::Finalize(601),
    Op::Share,
    Op::Spy(41),
  ]);
  v
}

pub struct Obs {
  pub term: Option<(u64, u64)>,
  pub ticks_after_period: usize,
  pub pulls_after: usize,
  pub polls_after: usize,
  pub pending_timers: usize,
  pub live_tasks: usize,
  pub events: usize,
  pub had_work_left: bool,
}

pub fn observe(c: &Case) -> Result<Obs, String> {
  let period = match c.prod {
    Prod::Interval(p) => p * MS,
    _ => 5 * MS,
  };
  // the hot main input (secondary position) keeps emitting small items
  let mut acts = vec![];
  if c.secondary.map_or(false, |o| o.starts_with("inner-of-")) {
    // one outer item: exactly one inner producer exists when the cutter fires
    // (inners subscribed by later outer items are new producers, not the ones
    // that were feeding the subscriber when the stream ended)
    acts.push(TAct { t: 2 * MS, act: Act::In(0, N::Next(V::I(0))) });
    if c.secondary.map_or(false, |o| o.ends_with("queued]")) {
      // ... except where two more are queued behind it on purpose: only one runs at a time
      acts.push(TAct { t: 2 * MS, act: Act::In(0, N::Next(V::I(1))) });
      acts.push(TAct { t: 2 * MS, act: Act::In(0, N::Next(V::I(2))) });
    }
  } else if c.secondary.is_some() {
    for i in 0..30u64 {
      acts.push(TAct { t: (2 + i * 3) * MS, act: Act::In(0, N::Next(V::I((i % 3) as i64))) });
    }
  }
  let pipe = Pipe { chain: chain_of(c), n_hot: 1, acts, horizon: 200 * MS };
  let out = run_pipe(c.flavor, &pipe, c.policy, false, c.seed, &mut |_, _, _| {})?;
  let term = out
    .evs
    .iter()
    .find(|e| e.id == 1 && matches!(&e.k, K::N(n) if n.is_terminal()))
    .map(|e| (e.seq, e.vt));
  let (mut ticks_after_period, mut pulls_after, mut polls_after) = (0, 0, 0);
  let mut had_work_left = false;
  if let Some((tseq, tvt)) = term {
    for e in &out.evs {
      if e.seq > tseq {
        match e.k {
          K::Mark("tap", _) if e.id == TAP => {
            had_work_left = true;
            if e.vt > tvt + period {
              ticks_after_period += 1
            }
          }
          K::Mark("pull", _) => pulls_after += 1,
          K::Mark("poll", _) => polls_after += 1,
          _ => {}
        }
      }
    }
  }
  Ok(Obs {
    term,
    ticks_after_period,
    pulls_after,
    polls_after,
    pending_timers: out.pending_timers,
    live_tasks: out.live_tasks,
    events: out.evs.len(),
    had_work_left,
  })
}

pub fn judge(c: &Case, o: &Result<Obs, String>) -> Option<(String, serde_json::Value)> {
  let o = match o {
    Err(p) => return Some(("panic".into(), json!({"panic": p}))),
    Ok(o) => o,
  };
  o.term?;
  let show = |why: String| {
    json!({"why": why, "ticks_more_than_one_period_after_terminal": o.ticks_after_period, "pulls_after_terminal": o.pulls_after,
           "polls_after_terminal": o.polls_after, "pending_timers_at_end": o.pending_timers, "live_tasks_at_end": o.live_tasks})
  };
  match c.prod {
    Prod::Interval(_) => {
      if o.ticks_after_period > 0 || o.pending_timers > 0 || o.live_tasks > 0 {
        return Some(("producer_not_retired".into(), show("the periodic producer is still alive more than one period after the stream ended (run-until-idle would not terminate)".into())));
      }
    }
    // (where two more inner producers wait behind the running one, the hand-over may still start
    // them after the end: each instance is allowed its one look)
    Prod::Iter => {
      if o.pulls_after > if c.secondary.map_or(false, |s| s.ends_with("queued]")) { 3 } else { 1 } {
        return Some(("producer_not_retired".into(), show("the iterator is still being pulled after the stream ended".into())));
      }
    }
    Prod::Stream => {
      if o.polls_after > if c.secondary.map_or(false, |s| s.ends_with("queued]")) { 6 } else { 2 } || o.live_tasks > 0 {
        return Some(("producer_not_retired".into(), show("the stream is still being polled after the stream ended".into())));
      }
    }
  }
  None
}

fn prod_name(p: &Prod) -> &'static str {
  match p {
    Prod::Interval(_) => "interval",
    Prod::Iter => "from_iter",
    Prod::Stream => "from_stream",
  }
}

fn check(cfg: &Cfg, rep: &mut Report, id: &str, c: &Case) {
  if !cfg.wants(id) {
    return;
  }
  rep.evaluations += 1;
  let o = observe(c);
  for op in &c.middle {
    rep.set("middle_operators_covered", op.name());
  }
  rep.set("cutters_covered", c.cutter.name());
  rep.set("positions_covered", c.secondary.unwrap_or("main"));
  if let Ok(obs) = &o {
    rep.events += obs.events as u64;
    if obs.term.is_some() {
      rep.count("cases_where_the_cutter_fired", 1);
      rep.nontrivial.insert(hash64(c));
    }
  }
  if let Some((kind, detail)) = judge(c, &o) {
    // locus: producer, position, and the middle operators that matter
    let mut cur = c.clone();
    // canonical form first: same producer and position, nothing in the middle, take(1) as cutter
    {
      let mut cand = c.clone();
      cand.middle.clear();
      cand.cutter = Op::Take(1);
      if judge(&cand, &observe(&cand)).map_or(false, |(k, _)| k == kind) {
        cur = cand;
      }
    }
    let mut j = 0;
    while j < cur.middle.len() {
      let mut cand = cur.clone();
      cand.middle.remove(j);
      if judge(&cand, &observe(&cand)).map_or(false, |(k, _)| k == kind) {
        cur = cand
      } else {
        j += 1
      }
    }
    let mut names: Vec<&str> = cur.middle.iter().map(|o| o.name()).collect();
    names.sort();
    names.dedup();
    let pos = match c.secondary {
      None => "main".to_string(),
      Some(op) => format!("secondary-of-{}", op),
    };
    // canonical loci: a multicast point hides the producer behind a Subject
    // (one class whatever the producer/position); otherwise position plus
    // the middle operators that matter, and the producer when nothing else does
    let locus = if names.contains(&"share") {
      "via-share".to_string()
    } else if names.is_empty() && c.secondary.is_none() {
      format!("{}[main]", prod_name(&c.prod))
    } else if names.is_empty() {
      pos
    } else {
      format!("{}+{}", pos, names.join("+"))
    };
    rep.violation(&kind, &locus, id, json!({"case": format!("{:?}", c), "chain": chain_of(c).show(), "result": detail}));
  } else if let Ok(obs) = &o {
    rep.sample_some(3001, || {
      json!({"case": id, "chain": chain_of(c).show(), "terminal_at_ns": obs.term.map(|t| t.1),
             "pulls_after_terminal": obs.pulls_after, "polls_after_terminal": obs.polls_after,
             "pending_timers_at_end": obs.pending_timers, "live_tasks_at_end": obs.live_tasks})
    });
  }
}

pub fn run(cfg: &Cfg, rep: &mut Report) {
  let prods = [Prod::Interval(5), Prod::Interval(1), Prod::Iter, Prod::Stream];
  let two = ["skip_until", "take_until", "sample", "buffer", "with_latest_from", "merge", "zip", "combine_latest", "inner-of-flat_map", "inner-of-concat_map", "inner-of-merge_all", "inner-of-concat_map[2 queued]", "inner-of-merge_all(1)[2 queued]"];
  let mut idx = 0usize;
  let mut rng = Rng::new(cfg.seed ^ 0xC16);
  // sweep: every middle operator x every producer x a few cutters, producer in main position
  for m in middle_sweep() {
    for p in &prods {
      for k in 0..3 {
        idx += 1;
        let mut r = rng.fork();
        if !cfg.mine(idx) {
          continue;
        }
        let cutter = match k {
          0 => Op::Take(2),
          1 => Op::First,
          _ => cutters(&mut r),
        };
        let c = Case { prod: p.clone(), secondary: None, middle: vec![m.clone()], main_cold: 0, cutter, flavor: Flavor::Local, policy: Policy::Fifo, seed: r.next() };
        check(cfg, rep, &format!("sweep:{}", idx), &c);
      }
    }
  }
  // the stream is ended from the side (a merged sibling satisfies the cutter,
  // a take_until notifier fires) while an operator above the producer forwards
  // nothing: the producer must still learn that the stream is over
  let swallow = [
    Op::SkipUntil(Box::new(Chain::new(Src::Never, vec![]))),
    Op::Filter(Pred::False),
    Op::FilterMap(Pred::False, MapF::Add(1)),
    Op::SkipWhile(Pred::True),
    Op::Skip(100_000),
    Op::IgnoreElements,
    Op::Last,
    Op::TakeLast(2),
    Op::Reduce,
    Op::Count,
    Op::Collect,
    Op::SkipLast(100_000),
    Op::Sample(Box::new(Chain::new(Src::Never, vec![]))),
    Op::Buffer(Box::new(Chain::new(Src::Never, vec![]))),
    // a debounce longer than the producer's period: a value is always pending, nothing gets through
    Op::Debounce(50),
  ];
  let side = [
    Op::Merge(Box::new(Chain::new(Src::Of(V::I(1)), vec![]))),
    Op::Merge(Box::new(Chain::new(Src::Timer(V::I(1), 2), vec![]))),
    Op::TakeUntil(Box::new(Chain::new(Src::Of(V::I(1)), vec![]))),
    Op::TakeUntil(Box::new(Chain::new(Src::Timer(V::I(1), 2), vec![]))),
  ];
  for d in &swallow {
    for t in &side {
      for p in &prods {
        for flavor in [Flavor::Local, Flavor::Threads] {
          idx += 1;
          let mut r = rng.fork();
          if !cfg.mine(idx) {
            continue;
          }
          let c = Case { prod: p.clone(), secondary: None, middle: vec![d.clone(), t.clone()], main_cold: 0, cutter: Op::Take(1), flavor, policy: Policy::Fifo, seed: r.next() };
          rep.count("ended_from_the_side_cases", 1);
          check(cfg, rep, &format!("side:{}", idx), &c);
        }
      }
    }
  }
  // producer as secondary / notifier input of every two-input operator
  for op in two {
    for p in &prods {
      for flavor in [Flavor::Local, Flavor::Threads] {
        for k in 0..4 {
          idx += 1;
          let mut r = rng.fork();
          if !cfg.mine(idx) {
            continue;
          }
          let cutter = if k == 0 { Op::Take(1) } else { cutters(&mut r) };
          let c = Case { prod: p.clone(), secondary: Some(op), middle: vec![], main_cold: 0, cutter, flavor, policy: Policy::Fifo, seed: r.next() };
          check(cfg, rep, &format!("sec:{}", idx), &c);
        }
      }
    }
  }
  // the main input ends the stream at subscription time (throw / empty): the producer in the
  // other input is subscribed to a stream that is already over (or ends before it gets going)
  for op in two.iter().filter(|o| !o.starts_with("inner-of-")) {
    for p in &prods {
      for flavor in [Flavor::Local, Flavor::Threads] {
        for main_cold in [1u8, 2] {
          idx += 1;
          let mut r = rng.fork();
          if !cfg.mine(idx) {
            continue;
          }
          let c = Case { prod: p.clone(), secondary: Some(op), middle: vec![], main_cold, cutter: Op::Take(1), flavor, policy: Policy::Fifo, seed: r.next() };
          rep.count("main_input_over_at_subscription_cases", 1);
          check(cfg, rep, &format!("seccold:{}", idx), &c);
        }
      }
    }
  }
  // random chains
  let total = cfg.n(60_000, 3_000_000);
  let sweep = middle_sweep();
  for i in 0..total {
    let mut r = rng.fork();
    if !cfg.mine(i) {
      continue;
    }
    let n = r.below(cfg.n(3, 5));
    let middle: Vec<Op> = (0..n).map(|_| sweep[r.below(sweep.len())].clone()).collect();
    let c = Case {
      prod: prods[r.below(prods.len())].clone(),
      secondary: if r.chance(1, 3) { Some(two[r.below(two.len())]) } else { None },
      middle,
      main_cold: 0,
      cutter: cutters(&mut r),
      flavor: if r.chance(1, 3) { Flavor::Threads } else { Flavor::Local },
      policy: if r.chance(1, 2) { Policy::Fifo } else { Policy::Any },
      seed: r.next(),
    };
    check(cfg, rep, &format!("rand:{}", i), &c);
  }

  // thread part: interval(1ms).take(k) ticking on 1-2 worker threads that fire
  // the virtual timers, optionally with an unsubscribing thread
  let n = cfg.n(4_000, 200_000);
  super::thr::systematic_families(cfg, rep, 0xC16A, &[23, 23, 23], &|_, _| {}, &|o, s| super::thr::interval_oracle(o, s));
  super::thr::campaign(cfg, rep, "thr", n, 0xC16F, &mut |r: &mut Rng| super::thr::random_scen(r, 23), &|o, s| super::thr::interval_oracle(o, s));
  super::thr::free_campaign(cfg, rep, cfg.n(1_000, 100_000), 0xC16E, &mut |r: &mut Rng| super::thr::random_scen(r, 23), &|o, s| super::thr::interval_oracle(o, s));
}
