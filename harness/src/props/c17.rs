//! C17 — is_closed() is sound and composites tear down late additions.
use super::common::*;
use crate::ast::*;
use crate::gen::*;
use crate::log::*;
use crate::report::{Cfg, Report};
use crate::value::*;
use crate::world::*;
use rxrust::prelude::*;
use serde_json::json;
use std::cell::RefCell;

/// (stamp, is_closed) samples of the returned subscription, one per step
pub fn run_sampled(flavor: Flavor, pipe: &Pipe, policy: Policy, late: bool, seed: u64) -> (Result<RunOut, String>, Vec<(u64, bool)>) {
  let samples: RefCell<Vec<(u64, bool)>> = RefCell::new(vec![]);
  let out = run_pipe(flavor, pipe, policy, late, seed, &mut |w, _, _| {
    if let Some(c) = w.is_closed(0) {
      samples.borrow_mut().push((stamp(), c));
    }
  });
  (out, samples.into_inner())
}

fn judge(out: &Result<RunOut, String>, samples: &[(u64, bool)]) -> Option<(String, serde_json::Value)> {
  let Ok(run) = out else { return None };
  let first_closed = samples.iter().find(|(_, c)| *c).map(|(s, _)| *s);
  let Some(fc) = first_closed else { return None };
  if let Some(ev) = run.evs.iter().find(|e| e.id == 1 && e.seq > fc && matches!(e.k, K::N(_))) {
    return Some((
      "closed_then_delivery".into(),
      json!({"why": format!("is_closed() returned true at stamp {}, then {:?} was delivered at stamp {} (vt {}ns)", fc, ev.k, ev.seq, ev.vt)}),
    ));
  }
  if let Some((s, _)) = samples.iter().find(|(s, c)| *s > fc && !*c) {
    return Some(("closed_flipped".into(), json!({"why": format!("is_closed() returned true at stamp {} and false again at stamp {}", fc, s)})));
  }
  None
}

// ---- direct histories on the two composite subscription types -------------

#[derive(Clone, Debug, PartialEq, Eq, Hash)]
pub enum Hop {
  Append,
  AppendNested,
  Unsub,
  Clone,
  Sample,
  Retain,
}

struct Tracked {
  id: u32,
  log: Log,
}
impl Subscription for Tracked {
  fn unsubscribe(self) {
    self.log.mark(self.id, "child_unsub", 0);
  }
  fn is_closed(&self) -> bool {
    false
  }
}

macro_rules! composite_history {
  ($multi:ty, $boxed:ident, $h:expr) => {{
    let log = Log::new();
    let mut handles: Vec<$multi> = vec![<$multi>::default()];
    let mut unsubscribed: Option<u64> = None;
    let mut problems: Vec<(String, String)> = vec![];
    let mut next_id = 10u32;
    let mut appended_before: Vec<u32> = vec![];
    let mut late_appends = 0usize;
    for op in $h {
      match op {
        Hop::Append | Hop::AppendNested => {
          next_id += 1;
          let id = next_id;
          let child = Tracked { id, log: log.clone() };
          let h = handles.last_mut().unwrap();
          if *op == Hop::AppendNested {
            let mut inner = <$multi>::default();
            inner.append($boxed::new(child));
            h.append($boxed::new(inner));
          } else {
            h.append($boxed::new(child));
          }
          let after = stamp();
          if unsubscribed.is_some() {
            late_appends += 1;
            // appended to an already unsubscribed composite: torn down at once
            let done = log.marks(id, "child_unsub").iter().any(|(s, _)| *s < after);
            if !done {
              problems.push((
                "late_append_left_running".into(),
                format!("subscription {} appended after unsubscribe() was not unsubscribed by the time append returned", id),
              ));
            }
          } else {
            appended_before.push(id);
          }
        }
        Hop::Unsub => {
          if unsubscribed.is_none() && handles.len() > 1 {
            let h = handles.remove(0);
            h.unsubscribe();
            unsubscribed = Some(stamp());
            for id in &appended_before {
              if log.marks(*id, "child_unsub").len() != 1 {
                problems.push(("child_not_unsubscribed_once".into(), format!("child {} unsubscribed {} times", id, log.marks(*id, "child_unsub").len())));
              }
            }
          }
        }
        Hop::Clone => {
          let c = handles.last().unwrap().clone();
          handles.push(c);
        }
        Hop::Retain => handles.last_mut().unwrap().retain(),
        Hop::Sample => {}
      }
      // after unsubscribe() any remaining handle reports closed
      if unsubscribed.is_some() {
        for (i, h) in handles.iter().enumerate() {
          if !h.is_closed() {
            problems.push(("handle_open_after_unsubscribe".into(), format!("remaining handle #{} reports open after unsubscribe()", i)));
          }
        }
      }
    }
    (problems, log.len() + $h.len(), late_appends)
  }};
}

pub fn composite_case(threads: bool, h: &[Hop]) -> Result<(Vec<(String, String)>, usize, usize), String> {
  catch(|| {
    if threads {
      composite_history!(MultiSubscriptionThreads, BoxSubscriptionThreads, h)
    } else {
      composite_history!(MultiSubscription<'static>, BoxSubscription, h)
    }
  })
}

pub fn run(cfg: &Cfg, rep: &mut Report) {
  // (a) direct histories on the composite subscriptions
  let total_h = cfg.n(150_000, 8_000_000);
  let mut rng = Rng::new(cfg.seed ^ 0xC17);
  for i in 0..total_h {
    let mut r = rng.fork();
    if !cfg.mine(i) {
      continue;
    }
    let id = format!("comp:{}", i);
    if !cfg.wants(&id) {
      continue;
    }
    let n = 2 + r.below(cfg.n(7, 12));
    let h: Vec<Hop> = (0..n)
      .map(|_| match r.below(10) {
        0..=2 => Hop::Append,
        3 => Hop::AppendNested,
        4 | 5 => Hop::Clone,
        6 | 7 => Hop::Unsub,
        8 => Hop::Retain,
        _ => Hop::Sample,
      })
      .collect();
    let threads = r.chance(1, 2);
    rep.evaluations += 1;
    rep.set("subscription_types_covered", if threads { "MultiSubscriptionThreads" } else { "MultiSubscription" });
    match composite_case(threads, &h) {
      Err(p) => rep.violation("panic", "composite", &id, json!({"history": format!("{:?}", h), "panic": p})),
      Ok((problems, events, late)) => {
        rep.events += events as u64;
        if late > 0 {
          rep.count("appends_after_unsubscribe", late as u64);
          rep.nontrivial.insert(hash64(&(threads, &h)));
        }
        if let Some((kind, why)) = problems.first() {
          rep.violation(kind, if threads { "MultiSubscriptionThreads" } else { "MultiSubscription" }, &id, json!({"history": format!("{:?}", h), "why": why}));
        } else {
          rep.sample_some(9973, || json!({"case": id, "type": if threads { "MultiSubscriptionThreads" } else { "MultiSubscription" }, "history": format!("{:?}", h)}));
        }
      }
    }
  }
  // (b) is_closed() sampled after every step of random pipelines
  let total = cfg.n(300_000, 15_000_000);
  let mut gcfg = GenCfg::full(cfg.n(3, 5), cfg.n(8, 14));
  gcfg.sched_pct = 35;
  gcfg.spies = false;
  for i in 0..total {
    let mut r = rng.fork();
    if !cfg.mine(i) {
      continue;
    }
    let id = format!("pipe:{}", i);
    if !cfg.wants(&id) {
      continue;
    }
    let pipe = random_pipe(&mut r, &gcfg);
    let flavor = if r.chance(1, 3) { Flavor::Threads } else { Flavor::Local };
    let policy = if r.chance(1, 2) { Policy::Fifo } else { Policy::Any };
    let late = r.chance(1, 2);
    let seed = r.next();
    rep.evaluations += 1;
    let (out, samples) = run_sampled(flavor, &pipe, policy, late, seed);
    for n in pipe.chain.api_names() {
      rep.set("operators_covered", n);
      let kind = match n {
        "from_iter" | "of" | "of_fn" | "of_option" | "of_result" | "start" | "empty" | "never" | "throw" | "repeat" => "unit ()",
        "subject" | "create" => "Subscriber",
        "merge" | "zip" | "combine_latest" | "with_latest_from" | "take_until" | "skip_until" | "sample" | "buffer" | "debounce" | "throttle" | "throttle_time" | "buffer_with_time" | "buffer_with_count_and_time" => "ZipSubscription",
        "delay" | "observe_on" | "merge_all" | "concat_all" | "flat_map" | "concat_map" | "flatten" => "MultiSubscription",
        "interval" | "interval_at" | "timer" | "timer_at" | "from_future" | "from_future_result" | "from_stream" | "from_stream_result" => "TaskHandle<NormalReturn>",
        "subscribe_on" | "delay_subscription" => "TaskHandle<SubscribeReturn>",
        "share" => "RefCountSubscription",
        "finalize" => "FinalizerSubscription",
        _ => "",
      };
      if !kind.is_empty() {
        rep.set("subscription_types_covered", kind);
      }
    }
    rep.set("subscription_types_covered", if flavor == Flavor::Threads { "BoxSubscriptionThreads" } else { "BoxSubscription" });
    if let Ok(run) = &out {
      rep.events += samples.len() as u64 + run.evs.len() as u64;
      let saw_false = samples.iter().any(|(_, c)| !*c);
      let saw_true = samples.iter().any(|(_, c)| *c);
      if saw_false && saw_true {
        rep.nontrivial.insert(hash64(&(&pipe, flavor, seed)));
      }
      if saw_true {
        rep.count("runs_where_is_closed_returned_true", 1);
      }
    } else {
      rep.count("cases_panicked", 1);
    }
    if let Some((kind, detail)) = judge(&out, &samples) {
      let k2 = kind.clone();
      let mut still = |c: &Chain| {
        let mut p2 = pipe.clone();
        p2.chain = c.clone();
        let (o, s) = run_sampled(flavor, &p2, policy, late, seed);
        judge(&o, &s).map_or(false, |(k, _)| k == k2)
      };
      let small = shrink_chain(&pipe.chain, &mut still);
      rep.violation(&kind, &locus_of(&small), &id, json!({"chain": pipe.chain.show(), "shrunk_chain": small.show(), "flavor": format!("{:?}", flavor), "acts": format!("{:?}", pipe.acts), "result": detail}));
    } else {
      rep.sample_some(7027, || json!({"case": id, "chain": pipe.chain.show(), "is_closed_samples": samples.iter().map(|(_, c)| *c).collect::<Vec<_>>()}));
    }
  }

  // (c) the small subscription types, driven directly
  if cfg.shard == 0 && cfg.only_case.is_none() {
    direct_battery(rep);
  }
}

/// child with a controllable closed flag that counts its unsubscriptions
struct Child {
  id: u32,
  log: Log,
  closed: std::rc::Rc<std::cell::Cell<bool>>,
}
impl Subscription for Child {
  fn unsubscribe(self) {
    self.closed.set(true);
    self.log.mark(self.id, "child_unsub", 0);
  }
  fn is_closed(&self) -> bool {
    self.closed.get()
  }
}

fn direct_battery(rep: &mut Report) {
  use rxrust::rc::MutRc;
  use std::cell::Cell;
  use std::rc::Rc;
  let mut fail = |rep: &mut Report, kind: &str, ty: &str, why: String| {
    rep.violation(kind, ty, &format!("direct:{}", ty), json!({"why": why}));
  };
  for (ca, cb) in [(false, false), (false, true), (true, false), (true, true)] {
    rep.evaluations += 1;
    rep.count("direct_subscription_cases", 1);
    let log = Log::new();
    let (fa, fb) = (Rc::new(Cell::new(ca)), Rc::new(Cell::new(cb)));
    let z = ZipSubscription::new(Child { id: 1, log: log.clone(), closed: fa.clone() }, Child { id: 2, log: log.clone(), closed: fb.clone() });
    rep.set("subscription_types_covered", "ZipSubscription");
    // closed only if nothing can come through either half
    if z.is_closed() && !(ca && cb) {
      fail(rep, "closed_while_a_half_is_open", "ZipSubscription", format!("is_closed()==true with halves closed=({}, {})", ca, cb));
    }
    z.unsubscribe();
    if log.marks(1, "child_unsub").len() != 1 || log.marks(2, "child_unsub").len() != 1 {
      fail(rep, "child_not_unsubscribed_once", "ZipSubscription", "unsubscribe() must unsubscribe both halves exactly once".into());
    }
    rep.events += log.len() as u64;
  }
  {
    rep.evaluations += 1;
    rep.count("direct_subscription_cases", 1);
    rep.set("subscription_types_covered", "SubscriptionGuard");
    let log = Log::new();
    let f = Rc::new(Cell::new(false));
    {
      let _g = Child { id: 1, log: log.clone(), closed: f.clone() }.unsubscribe_when_dropped();
      if !log.marks(1, "child_unsub").is_empty() {
        fail(rep, "guard_unsubscribed_early", "SubscriptionGuard", "unsubscribed before the guard was dropped".into());
      }
    }
    if log.marks(1, "child_unsub").len() != 1 {
      fail(rep, "guard_did_not_unsubscribe", "SubscriptionGuard", "dropping the guard must unsubscribe exactly once".into());
    }
    rep.events += log.len() as u64;
  }
  {
    rep.evaluations += 1;
    rep.count("direct_subscription_cases", 1);
    rep.set("subscription_types_covered", "MutRc<Option<S>>");
    let log = Log::new();
    let f = Rc::new(Cell::new(false));
    let h1: MutRc<Option<Child>> = MutRc::own(Some(Child { id: 1, log: log.clone(), closed: f }));
    let h2 = h1.clone();
    let h3 = h1.clone();
    if h2.is_closed() {
      fail(rep, "closed_flipped", "MutRc<Option<S>>", "open handle reports closed".into());
    }
    h1.unsubscribe();
    if !h2.is_closed() {
      fail(rep, "handle_open_after_unsubscribe", "MutRc<Option<S>>", "remaining clone reports open after unsubscribe()".into());
    }
    h2.unsubscribe();
    if log.marks(1, "child_unsub").len() != 1 {
      fail(rep, "child_not_unsubscribed_once", "MutRc<Option<S>>", "two handles, one child unsubscription expected".into());
    }
    let _ = h3;
    rep.events += log.len() as u64;
  }
  {
    rep.evaluations += 1;
    rep.count("direct_subscription_cases", 1);
    rep.set("subscription_types_covered", "BoxSubscription");
    let log = Log::new();
    let f = Rc::new(Cell::new(false));
    let b = BoxSubscription::new(Child { id: 1, log: log.clone(), closed: f.clone() });
    if b.is_closed() {
      fail(rep, "closed_flipped", "BoxSubscription", "boxed open child reports closed".into());
    }
    f.set(true);
    if !b.is_closed() {
      fail(rep, "handle_open_after_unsubscribe", "BoxSubscription", "boxed closed child reports open".into());
    }
    f.set(false);
    b.unsubscribe();
    if log.marks(1, "child_unsub").len() != 1 {
      fail(rep, "child_not_unsubscribed_once", "BoxSubscription", "boxed unsubscribe must reach the child once".into());
    }
    rep.events += log.len() as u64;
  }
}
