//! C17 — is_closed() is sound and composites tear down late additions.
use super::common::*;
use crate::ast::*;
use crate::gen::*;
use crate::log::*;
use crate::report::{Cfg, Report};
use crate::value::*;
use crate::world::*;
use rxrust::prelude::*;
use serde_json::json;
use std::cell::RefCell;

/// (stamp, is_closed) samples of the returned subscription, one per step
pub fn run_sampled(flavor: Flavor, pipe: &Pipe, policy: Policy, late: bool, seed: u64) -> (Result<RunOut, String>, Vec<(u64, bool)>) {
  let samples: RefCell<Vec<(u64, bool)>> = RefCell::new(vec![]);
  let out = run_pipe(flavor, pipe, policy, late, seed, &mut |w, _, _| {
    if let Some(c) = w.is_closed(0) {
      samples.borrow_mut().push((stamp(), c));
    }
  });
  (out, samples.into_inner())
}

fn judge(out: &Result<RunOut, String>, samples: &[(u64, bool)]) -> Option<(String, serde_json::Value)> {
  let Ok(run) = out else { return None };
  let first_closed = samples.iter().find(|(_, c)| *c).map(|(s, _)| *s);
  let Some(fc) = first_closed else { return None };
  if let Some(ev) = run.evs.iter().find(|e| e.id == 1 && e.seq > fc && matches!(e.k, K::N(_))) {
    return Some((
      "closed_then_delivery".into(),
      json!({"why": format!("is_closed() returned true at stamp {}, then {:?} was delivered at stamp {} (vt {}ns)", fc, ev.k, ev.seq, ev.vt)}),
    ));
  }
  if let Some((s, _)) = samples.iter().find(|(s, c)| *s > fc && !*c) {
    return Some(("closed_flipped".into(), json!({"why": format!("is_closed() returned true at stamp {} and false again at stamp {}", fc, s)})));
  }
  None
}

// ---- direct histories on the two composite subscription types -------------

#[derive(Clone, Debug, PartialEq, Eq, Hash)]
pub enum Hop {
  Append,
  AppendNested,
  /// a child whose own unsubscribe() appends one more child to the composite
  /// (what a finalizer / a completing inner does in the middle of a teardown)
  AppendReentrant,
  /// append an EMPTY nested composite and keep a handle to it
  AppendNestedEmpty,
  /// append one more child to the most recent kept nested composite
  AppendToNested,
  Unsub,
  Clone,
  Sample,
  Retain,
}

struct Tracked {
  id: u32,
  log: Log,
}
impl Subscription for Tracked {
  fn unsubscribe(self) {
    self.log.mark(self.id, "child_unsub", 0);
  }
  fn is_closed(&self) -> bool {
    false
  }
}

/// child that appends `id + 500` to (its clone of) the composite while it is being unsubscribed
struct Reentrant<M> {
  id: u32,
  log: Log,
  comp: M,
  add: fn(&mut M, Tracked),
}
impl<M> Subscription for Reentrant<M> {
  fn unsubscribe(mut self) {
    self.log.mark(self.id, "child_unsub", 0);
    let late = Tracked { id: self.id + 500, log: self.log.clone() };
    (self.add)(&mut self.comp, late);
    self.log.mark(self.id, "reentrant_append_returned", 0);
  }
  fn is_closed(&self) -> bool {
    false
  }
}

macro_rules! composite_history {
  ($multi:ty, $boxed:ident, $h:expr) => {{
    let log = Log::new();
    let mut handles: Vec<$multi> = vec![<$multi>::default()];
    let mut unsubscribed: Option<u64> = None;
    let mut problems: Vec<(String, String)> = vec![];
    let mut next_id = 10u32;
    let mut appended_before: Vec<u32> = vec![];
    let mut late_appends = 0usize;
    let mut reentrant: Vec<u32> = vec![];
    let mut nested: Vec<$multi> = vec![];
    for op in $h {
      match op {
        Hop::Append | Hop::AppendNested => {
          next_id += 1;
          let id = next_id;
          let child = Tracked { id, log: log.clone() };
          let h = handles.last_mut().unwrap();
          if *op == Hop::AppendNested {
            let mut inner = <$multi>::default();
            inner.append($boxed::new(child));
            h.append($boxed::new(inner));
          } else {
            h.append($boxed::new(child));
          }
          let after = stamp();
          if unsubscribed.is_some() {
            late_appends += 1;
            // appended to an already unsubscribed composite: torn down at once
            let done = log.marks(id, "child_unsub").iter().any(|(s, _)| *s < after);
            if !done {
              problems.push((
                "late_append_left_running".into(),
                format!("subscription {} appended after unsubscribe() was not unsubscribed by the time append returned", id),
              ));
            }
          } else {
            appended_before.push(id);
          }
        }
        Hop::AppendNestedEmpty => {
          // also after the unsubscribe: the (vacuously closed) empty composite is itself a late
          // addition then, and whatever is appended to it through the kept handle must not be left running
          let inner = <$multi>::default();
          handles.last_mut().unwrap().append($boxed::new(inner.clone()));
          nested.push(inner);
        }
        Hop::AppendToNested => {
          if let Some(inner) = nested.last_mut() {
            next_id += 1;
            let id = next_id;
            inner.append($boxed::new(Tracked { id, log: log.clone() }));
            let after = stamp();
            if unsubscribed.is_some() {
              late_appends += 1;
              let done = log.marks(id, "child_unsub").iter().any(|(s, _)| *s < after);
              if !done {
                problems.push((
                  "late_append_left_running".into(),
                  format!("subscription {} appended to a nested composite after the parent's unsubscribe() was not unsubscribed by the time append returned", id),
                ));
              }
            } else {
              appended_before.push(id);
            }
          }
        }
        Hop::AppendReentrant => {
          if unsubscribed.is_none() {
            next_id += 1;
            let id = next_id;
            let comp = handles.last().unwrap().clone();
            let child = Reentrant { id, log: log.clone(), comp, add: |m: &mut $multi, t: Tracked| m.append($boxed::new(t)) };
            handles.last_mut().unwrap().append($boxed::new(child));
            appended_before.push(id);
            reentrant.push(id);
          }
        }
        Hop::Unsub => {
          if unsubscribed.is_none() && handles.len() > 1 {
            let h = handles.remove(0);
            h.unsubscribe();
            unsubscribed = Some(stamp());
            // children appended in the middle of the teardown belong to a
            // composite that reports closed from now on: they must not be left running
            for id in &reentrant {
              if log.marks(*id, "child_unsub").len() == 1 && log.marks(*id + 500, "child_unsub").len() != 1 {
                problems.push((
                  "append_during_teardown_left_running".into(),
                  format!("child {} appended by child {}'s unsubscribe() while the composite was being torn down was unsubscribed {} times; the composite reports closed", id + 500, id, log.marks(*id + 500, "child_unsub").len()),
                ));
              }
            }
            for id in &appended_before {
              if log.marks(*id, "child_unsub").len() != 1 {
                problems.push(("child_not_unsubscribed_once".into(), format!("child {} unsubscribed {} times", id, log.marks(*id, "child_unsub").len())));
              }
            }
          }
        }
        Hop::Clone => {
          let c = handles.last().unwrap().clone();
          handles.push(c);
        }
        Hop::Retain => handles.last_mut().unwrap().retain(),
        Hop::Sample => {
          // asking must not change anything
          for h in handles.iter() {
            let _ = h.is_closed();
          }
        }
      }
      // after unsubscribe() any remaining handle reports closed
      if unsubscribed.is_some() {
        for (i, h) in handles.iter().enumerate() {
          if !h.is_closed() {
            problems.push(("handle_open_after_unsubscribe".into(), format!("remaining handle #{} reports open after unsubscribe()", i)));
          }
        }
      }
    }
    (problems, log.len() + $h.len(), late_appends)
  }};
}

pub fn composite_case(threads: bool, h: &[Hop]) -> Result<(Vec<(String, String)>, usize, usize), String> {
  catch(|| {
    if threads {
      composite_history!(MultiSubscriptionThreads, BoxSubscriptionThreads, h)
    } else {
      composite_history!(MultiSubscription<'static>, BoxSubscription, h)
    }
  })
}

pub fn run(cfg: &Cfg, rep: &mut Report) {
  // (a) direct histories on the composite subscriptions
  let total_h = cfg.n(150_000, 8_000_000);
  let mut rng = Rng::new(cfg.seed ^ 0xC17);
  for i in 0..total_h {
    let mut r = rng.fork();
    if !cfg.mine(i) {
      continue;
    }
    let id = format!("comp:{}", i);
    if !cfg.wants(&id) {
      continue;
    }
    let n = 2 + r.below(cfg.n(7, 12));
    let h: Vec<Hop> = (0..n)
      .map(|_| match r.below(10) {
        0 => Hop::Append,
        1 => [Hop::Append, Hop::AppendNestedEmpty, Hop::AppendToNested, Hop::AppendToNested][r.below(4)].clone(),
        2 => Hop::AppendReentrant,
        3 => Hop::AppendNested,
        4 | 5 => Hop::Clone,
        6 | 7 => Hop::Unsub,
        8 => Hop::Retain,
        _ => Hop::Sample,
      })
      .collect();
    let threads = r.chance(1, 2);
    rep.evaluations += 1;
    rep.set("subscription_types_covered", if threads { "MultiSubscriptionThreads" } else { "MultiSubscription" });
    match composite_case(threads, &h) {
      Err(p) => rep.violation("panic", "composite", &id, json!({"history": format!("{:?}", h), "panic": p})),
      Ok((problems, events, late)) => {
        rep.events += events as u64;
        if h.contains(&Hop::AppendReentrant) && h.contains(&Hop::Unsub) {
          rep.count("histories_with_an_append_during_teardown", 1);
        }
        if h.contains(&Hop::AppendToNested) && h.contains(&Hop::Unsub) {
          rep.count("histories_with_a_child_added_to_a_nested_composite", 1);
        }
        if late > 0 {
          rep.count("appends_after_unsubscribe", late as u64);
          rep.nontrivial.insert(hash64(&(threads, &h)));
        }
        if let Some((kind, why)) = problems.first() {
          rep.violation(kind, if threads { "MultiSubscriptionThreads" } else { "MultiSubscription" }, &id, json!({"history": format!("{:?}", h), "why": why}));
        } else {
          rep.sample_some(9973, || json!({"case": id, "type": if threads { "MultiSubscriptionThreads" } else { "MultiSubscription" }, "history": format!("{:?}", h)}));
        }
      }
    }
  }
  // (b) is_closed() sampled after every step of random pipelines
  let total = cfg.n(300_000, 15_000_000);
  let mut gcfg = GenCfg::full(cfg.n(3, 5), cfg.n(8, 14));
  gcfg.sched_pct = 35;
  gcfg.spies = false;
  for i in 0..total {
    let mut r = rng.fork();
    if !cfg.mine(i) {
      continue;
    }
    let id = format!("pipe:{}", i);
    if !cfg.wants(&id) {
      continue;
    }
    let pipe = random_pipe(&mut r, &gcfg);
    let flavor = if r.chance(1, 3) { Flavor::Threads } else { Flavor::Local };
    let policy = if r.chance(1, 2) { Policy::Fifo } else { Policy::Any };
    let late = r.chance(1, 2);
    let seed = r.next();
    rep.evaluations += 1;
    let (out, samples) = run_sampled(flavor, &pipe, policy, late, seed);
    for n in pipe.chain.api_names() {
      rep.set("operators_covered", n);
      let kind = match n {
        "from_iter" | "of" | "of_fn" | "of_option" | "of_result" | "start" | "empty" | "never" | "throw" | "repeat" => "unit ()",
        "subject" | "create" => "Subscriber",
        "merge" | "zip" | "combine_latest" | "with_latest_from" | "take_until" | "skip_until" | "sample" | "buffer" | "debounce" | "throttle" | "throttle_time" | "buffer_with_time" | "buffer_with_count_and_time" => "ZipSubscription",
        "delay" | "observe_on" | "merge_all" | "concat_all" | "flat_map" | "concat_map" | "flatten" => "MultiSubscription",
        "interval" | "interval_at" | "timer" | "timer_at" | "from_future" | "from_future_result" | "from_stream" | "from_stream_result" => "TaskHandle<NormalReturn>",
        "subscribe_on" | "delay_subscription" => "TaskHandle<SubscribeReturn>",
        "share" => "RefCountSubscription",
        "finalize" => "FinalizerSubscription",
        _ => "",
      };
      if !kind.is_empty() {
        rep.set("subscription_types_covered", kind);
      }
    }
    rep.set("subscription_types_covered", if flavor == Flavor::Threads { "BoxSubscriptionThreads" } else { "BoxSubscription" });
    if let Ok(run) = &out {
      rep.events += samples.len() as u64 + run.evs.len() as u64;
      let saw_false = samples.iter().any(|(_, c)| !*c);
      let saw_true = samples.iter().any(|(_, c)| *c);
      if saw_false && saw_true {
        rep.nontrivial.insert(hash64(&(&pipe, flavor, seed)));
      }
      if saw_true {
        rep.count("runs_where_is_closed_returned_true", 1);
      }
    } else {
      rep.count("cases_panicked", 1);
    }
    if let Some((kind, detail)) = judge(&out, &samples) {
      let k2 = kind.clone();
      let mut still = |c: &Chain| {
        let mut p2 = pipe.clone();
        p2.chain = c.clone();
        let (o, s) = run_sampled(flavor, &p2, policy, late, seed);
        judge(&o, &s).map_or(false, |(k, _)| k == k2)
      };
      let small = shrink_chain(&pipe.chain, &mut still);
      rep.violation(&kind, &locus_of(&small), &id, json!({"chain": pipe.chain.show(), "shrunk_chain": small.show(), "flavor": format!("{:?}", flavor), "acts": format!("{:?}", pipe.acts), "result": detail}));
    } else {
      rep.sample_some(7027, || json!({"case": id, "chain": pipe.chain.show(), "is_closed_samples": samples.iter().map(|(_, c)| *c).collect::<Vec<_>>()}));
    }
  }

  // (d) MultiSubscriptionThreads: unsubscribe() on one thread racing with
  // append() on another (and is_closed() on a third), scheduled at the hooked lock points
  {
    let n = cfg.n(6_000, 400_000);
    let mut rng = Rng::new(cfg.seed ^ 0xC17D);
    let mut abandoned = 0;
    for i in 0..n {
      let mut r = rng.fork();
      if !cfg.mine(i) {
        continue;
      }
      let id = format!("race:{}", i);
      if !cfg.wants(&id) || abandoned >= 20 {
        continue;
      }
      rep.evaluations += 1;
      rep.count("composite_thread_races", 1);
      let strategy = super::thr::strategy_for(&mut r);
      let (problem, out) = composite_race(r.below(3), 1 + r.below(3), r.next(), strategy.clone());
      rep.events += out.points;
      rep.distinct("distinct_composite_race_schedules", hash64(&out.trace));
      if out.switches > 0 {
        rep.nontrivial.insert(hash64(&("race", &out.trace)));
      }
      if out.timed_out || out.livelock {
        abandoned += 1;
        rep.inconclusive.push(format!("{}: schedule abandoned", id));
        continue;
      }
      if let Some(d) = &out.deadlock {
        rep.violation("deadlock", "MultiSubscriptionThreads[unsubscribe || append]", &id, json!({"waits": format!("{:?}", d)}));
      } else if let Some((kind, why)) = problem {
        rep.violation(&kind, "MultiSubscriptionThreads[unsubscribe || append]", &id, json!({"why": why, "strategy": format!("{:?}", strategy), "schedule": out.trace.iter().map(|t| t.to_string()).collect::<String>()}));
      }
    }
  }

  // (e) task handles under real concurrency: unsubscribe() racing with the
  // worker that runs the scheduled task (observe_on / delay / subscribe_on with
  // managed workers). After unsubscribe() returned every remaining handle
  // reports closed, hence nothing may begin on the probe any more.
  {
    let n = cfg.n(6_000, 300_000);
    let fams = [12usize, 13, 18, 15, 16, 17, 24, 25];
    let prep = |s: &mut super::thr::Scen, r: &mut Rng| {
      if !s.threads.iter().flatten().any(|op| matches!(op, super::thr::TOp::Unsub(0))) {
        let t = r.below(s.threads.len());
        let p = r.below(s.threads[t].len() + 1);
        s.threads[t].insert(p, super::thr::TOp::Unsub(0));
      }
    };
    super::thr::systematic_families(cfg, rep, 0xC17A, &fams, &prep, &|o, _| super::thr::after_unsub(o));
    super::thr::campaign(cfg, rep, "thr", n, 0xC17F, &mut |r: &mut Rng| {
      let f = fams[r.below(fams.len())];
      let mut s = super::thr::random_scen(r, f);
      prep(&mut s, r);
      s
    }, &|o, _| super::thr::after_unsub(o));
  }

  // (f) is_closed() asked from a second thread while the source thread emits and terminates
  // and a worker runs the scheduled tasks
  {
    let n = cfg.n(6_000, 300_000);
    let mut rng = Rng::new(cfg.seed ^ 0xC17F0);
    let mut abandoned = 0;
    for i in 0..n {
      let mut r = rng.fork();
      if !cfg.mine(i) {
        continue;
      }
      let id = format!("closedrace:{}", i);
      if !cfg.wants(&id) || abandoned >= 20 {
        continue;
      }
      rep.evaluations += 1;
      rep.count("is_closed_sampling_races", 1);
      let strategy = super::thr::strategy_for(&mut r);
      let (problem, out, name) = super::thr::closed_sampling_race(r.below(4), r.below(3), r.chance(1, 3), r.next(), strategy.clone());
      rep.events += out.points;
      rep.distinct("distinct_is_closed_race_schedules", hash64(&(name, &out.trace)));
      if out.switches > 0 {
        rep.nontrivial.insert(hash64(&("closedrace", name, &out.trace)));
      }
      if out.timed_out || out.livelock {
        abandoned += 1;
        rep.inconclusive.push(format!("{}: schedule abandoned", id));
        continue;
      }
      if let Some(d) = &out.deadlock {
        rep.violation("deadlock", &format!("{}[is_closed || terminal]", name), &id, json!({"waits": format!("{:?}", d)}));
      } else if let Some((kind, why)) = problem {
        rep.violation(&kind, &format!("{}[is_closed || terminal]", name), &id, json!({"why": why, "strategy": format!("{:?}", strategy), "schedule_length": out.trace.len()}));
      }
    }
  }

  // (g) a subject is a subscription too: is_closed() asked on a clone of a SubjectThreads from
  // one thread while others emit, terminate, subscribe and unsubscribe
  {
    let n = cfg.n(6_000, 300_000);
    super::thr::systematic_families(cfg, rep, 0xC17B, &[0, 0, 0], &|_, _| {}, &|o, _| super::thr::terminal_consistency(o));
    super::thr::campaign(cfg, rep, "thrsubj", n, 0xC17C, &mut |r: &mut Rng| super::thr::random_scen(r, 0), &|o, _| super::thr::terminal_consistency(o));
  }

  // (c) the small subscription types, driven directly
  if cfg.shard == 0 && cfg.only_case.is_none() {
    direct_battery(rep);
  }
}

/// child with a controllable closed flag that counts its unsubscriptions
struct Child {
  id: u32,
  log: Log,
  closed: std::rc::Rc<std::cell::Cell<bool>>,
}
impl Subscription for Child {
  fn unsubscribe(self) {
    self.closed.set(true);
    self.log.mark(self.id, "child_unsub", 0);
  }
  fn is_closed(&self) -> bool {
    self.closed.get()
  }
}

fn direct_battery(rep: &mut Report) {
  use rxrust::rc::MutRc;
  use std::cell::Cell;
  use std::rc::Rc;
  let mut fail = |rep: &mut Report, kind: &str, ty: &str, why: String| {
    rep.violation(kind, ty, &format!("direct:{}", ty), json!({"why": why}));
  };
  for (ca, cb) in [(false, false), (false, true), (true, false), (true, true)] {
    rep.evaluations += 1;
    rep.count("direct_subscription_cases", 1);
    let log = Log::new();
    let (fa, fb) = (Rc::new(Cell::new(ca)), Rc::new(Cell::new(cb)));
    let z = ZipSubscription::new(Child { id: 1, log: log.clone(), closed: fa.clone() }, Child { id: 2, log: log.clone(), closed: fb.clone() });
    rep.set("subscription_types_covered", "ZipSubscription");
    // closed only if nothing can come through either half
    if z.is_closed() && !(ca && cb) {
      fail(rep, "closed_while_a_half_is_open", "ZipSubscription", format!("is_closed()==true with halves closed=({}, {})", ca, cb));
    }
    z.unsubscribe();
    if log.marks(1, "child_unsub").len() != 1 || log.marks(2, "child_unsub").len() != 1 {
      fail(rep, "child_not_unsubscribed_once", "ZipSubscription", "unsubscribe() must unsubscribe both halves exactly once".into());
    }
    rep.events += log.len() as u64;
  }
  {
    rep.evaluations += 1;
    rep.count("direct_subscription_cases", 1);
    rep.set("subscription_types_covered", "SubscriptionGuard");
    let log = Log::new();
    let f = Rc::new(Cell::new(false));
    {
      let _g = Child { id: 1, log: log.clone(), closed: f.clone() }.unsubscribe_when_dropped();
      if !log.marks(1, "child_unsub").is_empty() {
        fail(rep, "guard_unsubscribed_early", "SubscriptionGuard", "unsubscribed before the guard was dropped".into());
      }
    }
    if log.marks(1, "child_unsub").len() != 1 {
      fail(rep, "guard_did_not_unsubscribe", "SubscriptionGuard", "dropping the guard must unsubscribe exactly once".into());
    }
    rep.events += log.len() as u64;
  }
  {
    rep.evaluations += 1;
    rep.count("direct_subscription_cases", 1);
    rep.set("subscription_types_covered", "MutRc<Option<S>>");
    let log = Log::new();
    let f = Rc::new(Cell::new(false));
    let h1: MutRc<Option<Child>> = MutRc::own(Some(Child { id: 1, log: log.clone(), closed: f }));
    let h2 = h1.clone();
    let h3 = h1.clone();
    if h2.is_closed() {
      fail(rep, "closed_flipped", "MutRc<Option<S>>", "open handle reports closed".into());
    }
    h1.unsubscribe();
    if !h2.is_closed() {
      fail(rep, "handle_open_after_unsubscribe", "MutRc<Option<S>>", "remaining clone reports open after unsubscribe()".into());
    }
    h2.unsubscribe();
    if log.marks(1, "child_unsub").len() != 1 {
      fail(rep, "child_not_unsubscribed_once", "MutRc<Option<S>>", "two handles, one child unsubscription expected".into());
    }
    let _ = h3;
    rep.events += log.len() as u64;
  }
  {
    rep.evaluations += 1;
    rep.count("direct_subscription_cases", 1);
    rep.set("subscription_types_covered", "BoxSubscription");
    let log = Log::new();
    let f = Rc::new(Cell::new(false));
    let b = BoxSubscription::new(Child { id: 1, log: log.clone(), closed: f.clone() });
    if b.is_closed() {
      fail(rep, "closed_flipped", "BoxSubscription", "boxed open child reports closed".into());
    }
    f.set(true);
    if !b.is_closed() {
      fail(rep, "handle_open_after_unsubscribe", "BoxSubscription", "boxed closed child reports open".into());
    }
    f.set(false);
    b.unsubscribe();
    if log.marks(1, "child_unsub").len() != 1 {
      fail(rep, "child_not_unsubscribed_once", "BoxSubscription", "boxed unsubscribe must reach the child once".into());
    }
    rep.events += log.len() as u64;
  }
  // a guard over a composite that happens to be idle (no child yet, or all children finished:
  // vacuously closed) when the guard is dropped: the drop is still the unsubscription, so a child
  // appended afterwards through another handle is torn down at once and every handle reports closed
  for threads in [false, true] {
    rep.evaluations += 1;
    rep.count("direct_subscription_cases", 1);
    rep.set("subscription_types_covered", "SubscriptionGuard");
    let log = Log::new();
    let ty = if threads { "SubscriptionGuard<MultiSubscriptionThreads>" } else { "SubscriptionGuard<MultiSubscription>" };
    let (closed_after, late_unsubs) = if threads {
      let comp = MultiSubscriptionThreads::default();
      let mut other = comp.clone();
      drop(comp.unsubscribe_when_dropped());
      other.append(BoxSubscriptionThreads::new(Tracked { id: 21, log: log.clone() }));
      (other.is_closed(), log.marks(21, "child_unsub").len())
    } else {
      let comp = MultiSubscription::default();
      let mut other = comp.clone();
      drop(comp.unsubscribe_when_dropped());
      other.append(BoxSubscription::new(Tracked { id: 21, log: log.clone() }));
      (other.is_closed(), log.marks(21, "child_unsub").len())
    };
    rep.events += log.len() as u64 + 1;
    if !closed_after || late_unsubs != 1 {
      fail(rep, "late_append_left_running", ty, format!("a guard over a composite without children yet was dropped; a child appended afterwards through a clone was unsubscribed {} times and the clone reports closed={}", late_unsubs, closed_after));
    }
  }
  // the handle of subscribe_on / delay_subscription whose subscribing task died half way: the
  // first branch of a merge (a live subject) is wired when the second branch, user code in a
  // `create`, panics. The scheduler keeps the payload inside the handle; the subject branch
  // keeps delivering, so the handle may not claim to be closed.
  for delayed in [false, true] {
    rep.evaluations += 1;
    rep.count("direct_subscription_cases", 1);
    rep.set("subscription_types_covered", "TaskHandle<SubscribeReturn>");
    let mut pool = futures::executor::LocalPool::new();
    let log = Log::new();
    let mut live = Subject::<'static, V, E>::default();
    let dying = observable::create(|_s: Subscriber<_>| -> () { panic!("user code fails while the pipeline is being wired") });
    let src = live.clone().merge(dying);
    let probe = Probe::new(1, &log);
    let handle = if delayed {
      src.delay_subscription(Duration::from_millis(1), pool.spawner()).actual_subscribe(probe)
    } else {
      src.subscribe_on(pool.spawner()).actual_subscribe(probe)
    };
    // timers are virtual here: run what is runnable, let the clock pass the delay, run again
    pool.run_until_stalled();
    crate::vtime::advance_to(crate::vtime::now() + 5_000_000);
    pool.run_until_stalled();
    let reported_closed = handle.is_closed();
    live.next(V::I(1));
    live.next(V::I(2));
    pool.run_until_stalled();
    let got = log.notes(1).len();
    if got == 2 {
      rep.count("half_wired_handles_that_kept_delivering", 1);
    }
    if reported_closed && got > 0 {
      fail(rep, "delivery_after_is_closed", "TaskHandle<SubscribeReturn>", format!("is_closed()==true after the subscribing task died, then {} item(s) were delivered through the half-wired pipeline (delay_subscription: {})", got, delayed));
    }
    rep.events += log.len() as u64 + 1;
  }
}

/// `pre` children appended up front; thread 0 unsubscribes the composite,
/// thread 1 appends `late` more children, thread 2 samples is_closed().
/// At the end the composite reports closed, so every child must have been
/// unsubscribed exactly once, and is_closed() never went back to false.
pub fn composite_race(pre: usize, late: usize, seed: u64, strategy: crate::conc::Strategy) -> (Option<(String, String)>, crate::conc::BatonOutcome) {
  use std::sync::{Arc, Mutex};
  let log = Log::new();
  let mut comp = MultiSubscriptionThreads::default();
  let mut ids = vec![];
  for k in 0..pre {
    let id = 11 + k as u32;
    comp.append(BoxSubscriptionThreads::new(Tracked { id, log: log.clone() }));
    ids.push(id);
  }
  for k in 0..late {
    ids.push(21 + k as u32);
  }
  let samples: Arc<Mutex<Vec<bool>>> = Default::default();
  let mut bodies: Vec<Box<dyn FnOnce() + Send>> = vec![];
  {
    let c = comp.clone();
    bodies.push(Box::new(move || c.unsubscribe()));
  }
  {
    let (mut c, log) = (comp.clone(), log.clone());
    bodies.push(Box::new(move || {
      for k in 0..late {
        c.append(BoxSubscriptionThreads::new(Tracked { id: 21 + k as u32, log: log.clone() }));
      }
    }));
  }
  {
    let (c, samples) = (comp.clone(), samples.clone());
    bodies.push(Box::new(move || {
      for _ in 0..3 {
        let v = c.is_closed();
        samples.lock().unwrap_or_else(|e| e.into_inner()).push(v);
      }
    }));
  }
  let out = crate::conc::baton_run(seed, strategy, bodies);
  if out.deadlock.is_some() || out.timed_out || out.livelock {
    std::mem::forget(comp);
    return (None, out);
  }
  let mut problem = None;
  if let Some((t, p)) = out.panics.first() {
    problem = Some(("panic".to_string(), format!("thread {} panicked: {}", t, p)));
  }
  if problem.is_none() && !comp.is_closed() {
    problem = Some(("handle_open_after_unsubscribe".into(), "unsubscribe() returned on one clone; another clone still reports open".into()));
  }
  if problem.is_none() {
    for id in &ids {
      let n = log.marks(*id, "child_unsub").len();
      if n != 1 {
        problem = Some((
          "child_left_running_in_closed_composite".into(),
          format!("child {} was unsubscribed {} times although unsubscribe() and every append() have returned and the composite reports closed", id, n),
        ));
        break;
      }
    }
  }
  // a live composite without children reports closed (vacuously: nothing can be
  // delivered through it) until its first child is appended; monotonicity is
  // demanded from the moment it holds an open child, i.e. when pre >= 1
  if problem.is_none() && pre >= 1 {
    let s = samples.lock().unwrap_or_else(|e| e.into_inner()).clone();
    if s.windows(2).any(|w| w[0] && !w[1]) {
      problem = Some(("is_closed_went_back_to_false".into(), format!("is_closed() samples {:?}", s)));
    }
  }
  (problem, out)
}
