//! C11 — publish/connect and share subscribe the source once and multicast.
use crate::log::*;
use crate::report::{Cfg, Report};
use crate::value::*;
use crate::vtime::MS;
use crate::world::*;
use rxrust::prelude::*;
use serde_json::json;
use std::convert::Infallible;
use std::time::Duration;

#[derive(Clone, Debug, PartialEq, Eq, Hash)]
pub enum Hop {
  Sub(usize),
  /// subscribe through `take(1)`: a subscriber that finishes by itself after its first item
  /// but keeps its handle until it is unsubscribed (hot sources only)
  SubTake(usize),
  /// subscribe through `start_with([0]).first()`: the subscriber is already finished when the
  /// share itself gets subscribed; it keeps its handle until it is unsubscribed
  SubDone(usize),
  Unsub(usize),
  Emit,
  SrcComplete,
  /// the hot source fails
  SrcError,
  Connect,
  /// let one period of virtual time pass (interval source) and run the executor
  Tick,
}

#[derive(Clone, Copy, Debug, PartialEq, Eq, Hash)]
pub enum Mode {
  Share,
  ShareThreads,
  Publish,
}

#[derive(Clone, Copy, Debug, PartialEq, Eq, Hash)]
pub enum SrcKind {
  Hot,
  /// `defer`red cold source that emits 1,2 (no completion) at subscription
  ColdSync,
  Interval,
}

#[derive(Clone, Debug, PartialEq, Eq, Hash)]
pub struct Case {
  pub mode: Mode,
  pub src: SrcKind,
  pub h: Vec<Hop>,
}

const TAP: u32 = 70;
const SUBCNT: u32 = 71;

pub struct Obs {
  pub evs: Vec<Ev>,
  pub expected: Vec<Vec<N>>,
  pub problems: Vec<(String, String)>,
  pub overlapped_and_left_before_end: bool,
}

pub fn observe(c: &Case) -> Result<Obs, String> {
  catch(|| {
    let mut rng = Rng::new(1);
    let mut w = World::new(Flavor::Local, 0);
    w.timer_ties_fifo = true;
    let log = w.log.clone();
    let sched = w.l.sched.clone();
    let sched_t = w.t.sched.clone();
    // sources (hot ones are driven through these handles)
    let mut hot_l = Subject::<'static, V, E>::default();
    let mut hot_t = SubjectThreads::<V, E>::default();
    let l2 = log.clone();
    let l3 = log.clone();
    // model
    let mut active = [false; 3];
    let mut ever = [false; 3];
    let mut expected: Vec<Vec<N>> = vec![vec![]; 3];
    let mut connected = false;
    let mut src_done = false;
    let mut ever_joined = false;
    let mut all_left_at: Option<u64> = None;
    let mut problems: Vec<(String, String)> = vec![];
    let mut item = 100i64;
    let mut subs: Vec<Option<BoxSubscription<'static>>> = vec![None, None, None];
    let mut subs_t: Vec<Option<BoxSubscriptionThreads>> = vec![None, None, None];
    let mut overlapped = false;
    let mut left_before_end = false;
    let mut rejoined = [false; 3];
    let mut taker = [false; 3];
    let mut rejoin_at: Option<u64> = None;

    // the pipelines under test
    macro_rules! tapped_local {
      () => {{
        let (la, lb) = (l2.clone(), l3.clone());
        let b: rxrust::ops::box_it::BoxOp<'static, V, E> = match c.src {
          SrcKind::Hot => hot_l.clone().tap(move |v: &V| { la.mark(TAP, "tap", v.int()); }).box_it(),
          SrcKind::ColdSync => {
            let lc = lb.clone();
            defer(move || {
              lc.mark(SUBCNT, "source_subscribed", 0);
              create(|mut s: Subscriber<_>| {
                s.next(V::I(1));
                s.next(V::I(2));
              })
            })
            .tap(move |v: &V| { la.mark(TAP, "tap", v.int()); })
            .box_it()
          }
          SrcKind::Interval => interval(Duration::from_millis(5), sched.clone())
            .map(|i: usize| V::I(i as i64))
            .on_error_map(|_: Infallible| -> E { unreachable!() })
            .tap(move |v: &V| { la.mark(TAP, "tap", v.int()); })
            .box_it(),
        };
        b
      }};
    }
    let share_l = if c.mode == Mode::Share { Some(tapped_local!().share()) } else { None };
    let mut publish_l = if c.mode == Mode::Publish { Some(tapped_local!().publish::<Subject<'static, V, E>>()) } else { None };
    let share_t = if c.mode == Mode::ShareThreads {
      let la = l2.clone();
      let b: rxrust::ops::box_it::BoxOpThreads<V, E> = match c.src {
        SrcKind::Interval => interval(Duration::from_millis(5), sched_t.clone())
          .map(|i: usize| V::I(i as i64))
          .on_error_map(|_: Infallible| -> E { unreachable!() })
          .tap(move |v: &V| { la.mark(TAP, "tap", v.int()); })
          .box_it(),
        _ => hot_t.clone().tap(move |v: &V| { la.mark(TAP, "tap", v.int()); }).box_it(),
      };
      Some(b.share_threads())
    } else {
      None
    };
    let fork = publish_l.as_ref().map(|p| p.fork());

    for hop in &c.h {
      match hop {
        Hop::Sub(k) | Hop::SubTake(k) | Hop::SubDone(k) => {
          if active[*k] || subs[*k].is_some() || subs_t[*k].is_some() || ever[*k] {
            continue; // one subscription per subscriber slot
          }
          let take1 = matches!(hop, Hop::SubTake(_));
          let done_on_arrival = matches!(hop, Hop::SubDone(_));
          if (take1 || done_on_arrival) && (c.src != SrcKind::Hot || c.mode == Mode::Publish) {
            continue;
          }
          ever[*k] = true;
          if all_left_at.is_some() {
            // re-joining after the count dropped to zero: whether the share reconnects is
            // unspecified; only hot sources are re-joined here, and the re-joined subscriber is
            // owed exactly the emissions that the shared source is seen to make (upstream tap)
            if c.src != SrcKind::Hot || c.mode == Mode::Publish || src_done {
              continue;
            }
            if rejoin_at.is_none() {
              rejoin_at = Some(log.mark(0, "rejoined", *k as i64));
            }
            rejoined[*k] = true;
          }
          let probe = Probe::new(1 + *k as u32, &log);
          let was_connected = connected;
          let mut done_now = false;
          match c.mode {
            Mode::Share if done_on_arrival => {
              subs[*k] = Some(BoxSubscription::new(share_l.as_ref().unwrap().clone().start_with(vec![V::I(0)]).first().actual_subscribe(probe)));
              connected = true;
              done_now = true;
            }
            Mode::ShareThreads if done_on_arrival => {
              subs_t[*k] = Some(BoxSubscriptionThreads::new(share_t.as_ref().unwrap().clone().start_with(vec![V::I(0)]).first().actual_subscribe(probe)));
              connected = true;
              done_now = true;
            }
            Mode::Share if take1 => {
              subs[*k] = Some(BoxSubscription::new(share_l.as_ref().unwrap().clone().take(1).actual_subscribe(probe)));
              connected = true;
              taker[*k] = true;
            }
            Mode::ShareThreads if take1 => {
              subs_t[*k] = Some(BoxSubscriptionThreads::new(share_t.as_ref().unwrap().clone().take(1).actual_subscribe(probe)));
              connected = true;
              taker[*k] = true;
            }
            Mode::Share => {
              subs[*k] = Some(BoxSubscription::new(share_l.as_ref().unwrap().clone().actual_subscribe(probe)));
              connected = true;
            }
            Mode::ShareThreads => {
              subs_t[*k] = Some(BoxSubscriptionThreads::new(share_t.as_ref().unwrap().clone().actual_subscribe(probe)));
              connected = true;
            }
            Mode::Publish => {
              subs[*k] = Some(BoxSubscription::new(fork.as_ref().unwrap().clone().actual_subscribe(probe)));
            }
          }
          if active.iter().any(|a| *a) {
            overlapped = true;
          }
          active[*k] = !src_done;
          if done_now {
            // it has seen its cached item and completed by itself; only its handle remains
            expected[*k].push(N::Next(V::I(0)));
            expected[*k].push(N::Complete);
            active[*k] = false;
            rejoined[*k] = false;
          }
          ever_joined = true;
          if !was_connected && connected && c.src == SrcKind::ColdSync {
            // the synchronous source emitted during the connecting subscription
            expected[*k].push(N::Next(V::I(1)));
            expected[*k].push(N::Next(V::I(2)));
          }
        }
        Hop::Connect => {
          if let Some(p) = publish_l.take() {
            // before connect() the source must not have been subscribed
            let n = log.marks(SUBCNT, "source_subscribed").len() + log.marks(TAP, "tap").len();
            if n > 0 {
              problems.push(("source_subscribed_before_connect".into(), format!("{} source events before connect()", n)));
            }
            std::mem::forget(p.connect());
            connected = true;
            if c.src == SrcKind::ColdSync {
              for k in 0..3 {
                if active[k] {
                  expected[k].push(N::Next(V::I(1)));
                  expected[k].push(N::Next(V::I(2)));
                }
              }
            }
          }
        }
        Hop::Unsub(k) => {
          let had = match c.mode {
            Mode::ShareThreads => subs_t[*k].take().map(|s| s.unsubscribe()).is_some(),
            _ => subs[*k].take().map(|s| s.unsubscribe()).is_some(),
          };
          if had {
            active[*k] = false;
            if !src_done {
              left_before_end = true;
            }
            let held = subs.iter().any(|x| x.is_some()) || subs_t.iter().any(|x| x.is_some());
            if ever_joined && !active.iter().any(|a| *a) && !held && all_left_at.is_none() && c.mode != Mode::Publish && connected {
              all_left_at = Some(log.mark(0, "last_subscriber_left", 0));
            }
          }
        }
        Hop::Emit => {
          if c.src != SrcKind::Hot || src_done {
            continue;
          }
          item += 1;
          if connected {
            for k in 0..3 {
              if active[k] && !rejoined[k] {
                expected[k].push(N::Next(V::I(item)));
                if taker[k] {
                  expected[k].push(N::Complete);
                }
              }
            }
          }
          log.mark(0, "emit", item);
          if c.mode == Mode::ShareThreads {
            hot_t.next(V::I(item))
          } else {
            hot_l.next(V::I(item))
          }
          // a re-joined subscriber: present at this emission iff the shared source made it
          if log.marks(TAP, "tap").iter().any(|(_, v)| *v == item) {
            for k in 0..3 {
              if active[k] && rejoined[k] {
                expected[k].push(N::Next(V::I(item)));
                if taker[k] {
                  expected[k].push(N::Complete);
                }
              }
            }
          }
          // a taker is done after its first item (its handle stays until it is unsubscribed)
          for k in 0..3 {
            if taker[k] && active[k] && expected[k].last() == Some(&N::Complete) {
              active[k] = false;
            }
          }
        }
        Hop::SrcComplete | Hop::SrcError => {
          if c.src != SrcKind::Hot || src_done || rejoin_at.is_some() {
            continue;
          }
          let fails = *hop == Hop::SrcError;
          src_done = true;
          if connected {
            for k in 0..3 {
              if active[k] {
                expected[k].push(if fails { N::Err(7) } else { N::Complete });
                active[k] = false;
              }
            }
          }
          match (c.mode == Mode::ShareThreads, fails) {
            (true, false) => hot_t.clone().complete(),
            (true, true) => hot_t.clone().error(7),
            (false, false) => hot_l.clone().complete(),
            (false, true) => hot_l.clone().error(7),
          }
        }
        Hop::Tick => {
          if c.src != SrcKind::Interval {
            continue;
          }
          let target = crate::vtime::now() + 5 * MS;
          let taps_before_tick = log.marks(TAP, "tap").len();
          log.mark(0, "tick", 0);
          // due-stepping: fire what falls due within the period, run tasks
          loop {
            w.quiesce(Policy::Fifo, &mut rng);
            match crate::vtime::next_due() {
              Some(d) if d <= target => {
                w.fire_next_timer(&mut rng);
              }
              _ => break,
            }
          }
          crate::vtime::set_now(target);
          // a connected publish() keeps its source subscribed whether or not anybody listens
          // (its connection handle is kept alive and never unsubscribed here): one period, one tick
          let taps_now = log.marks(TAP, "tap").len();
          if c.mode == Mode::Publish && connected && taps_now == taps_before_tick {
            problems.push(("source_retired_while_connected".into(), format!("a full period passed on the connected publish() and the interval source did not tick (ticks so far: {})", taps_now)));
          }
        }
      }
      w.quiesce(Policy::Fifo, &mut rng);
    }
    // source subscribed at most once (cold source counter)
    let n_sub = log.marks(SUBCNT, "source_subscribed").len();
    if n_sub > 1 {
      problems.push(("source_subscribed_twice".into(), format!("the source was subscribed {} times", n_sub)));
    }
    if connected && c.src == SrcKind::ColdSync && n_sub != 1 {
      problems.push(("source_not_subscribed_once".into(), format!("the source was subscribed {} times after connecting", n_sub)));
    }
    let evs = log.evs();
    // after the last subscriber left: the source is no longer driven
    if let Some(left) = all_left_at {
      match c.src {
        SrcKind::Hot => {
          // (a later re-join may legitimately drive the source again)
          let until = rejoin_at.unwrap_or(u64::MAX);
          let later_taps = evs.iter().filter(|e| e.id == TAP && e.seq > left && e.seq < until).count();
          if later_taps > 0 {
            problems.push((
              "source_driven_after_last_leave".into(),
              format!("{} upstream tap calls after the last subscriber's unsubscribe() returned", later_taps),
            ));
          }
        }
        SrcKind::Interval => {
          // one period later the periodic source must be gone
          let left_vt = evs.iter().find(|e| e.seq == left).map_or(0, |e| e.vt);
          let later = evs.iter().filter(|e| e.id == TAP && e.vt > left_vt + 5 * MS).count();
          if later > 0 {
            problems.push((
              "source_driven_after_last_leave".into(),
              format!("{} ticks of the shared interval more than one period after the last subscriber left", later),
            ));
          }
        }
        _ => {}
      }
    }
    // interval: what each subscriber should have seen = ticks tapped while it was active
    if c.src == SrcKind::Interval {
      for k in 0..3 {
        expected[k].clear();
      }
      let mut act = [false; 3];
      for e in &evs {
        match &e.k {
          K::Mark("tap", v) if e.id == TAP => {
            for k in 0..3 {
              if act[k] {
                expected[k].push(N::Next(V::I(*v)));
              }
            }
          }
          K::Mark("probe_active", k) => act[*k as usize] = true,
          K::Mark("probe_inactive", k) => act[*k as usize] = false,
          _ => {}
        }
      }
    }
    let obs = Obs { evs, expected, problems, overlapped_and_left_before_end: overlapped && left_before_end };
    std::mem::forget(subs);
    std::mem::forget(subs_t);
    w.teardown();
    obs
  })
}

pub fn judge(c: &Case, o: &Result<Obs, String>) -> Option<(String, serde_json::Value)> {
  let o = match o {
    Err(p) => return Some(("panic".into(), json!({"panic": p}))),
    Ok(o) => o,
  };
  if c.src != SrcKind::Interval {
    for k in 0..3 {
      let saw: Vec<N> = o.evs.iter().filter(|e| e.id == 1 + k as u32).filter_map(|e| if let K::N(n) = &e.k { Some(n.clone()) } else { None }).collect();
      if saw != o.expected[k] {
        let kind = if saw.len() < o.expected[k].len() { "subscriber_missed_emission" } else { "subscriber_wrong_emissions" };
        return Some((kind.into(), json!({"subscriber": k, "saw": jn(&saw), "expected": jn(&o.expected[k])})));
      }
    }
  } else {
    // every tick tapped upstream between a subscriber's subscribe and unsubscribe reaches it exactly once
    for k in 0..3u32 {
      let saw: Vec<i64> = o.evs.iter().filter(|e| e.id == 1 + k).filter_map(|e| if let K::N(N::Next(v)) = &e.k { Some(v.int()) } else { None }).collect();
      let mut d = saw.clone();
      d.dedup();
      if d.len() != saw.len() || saw.windows(2).any(|w| w[1] != w[0] + 1) {
        return Some(("subscriber_wrong_emissions".into(), json!({"subscriber": k, "saw": saw})));
      }
    }
  }
  if let Some((k, why)) = o.problems.first() {
    return Some((k.clone(), json!({"why": why})));
  }
  None
}

pub fn random_case(r: &mut Rng, max_len: usize) -> Case {
  let mode = [Mode::Share, Mode::Share, Mode::ShareThreads, Mode::Publish][r.below(4)];
  let src = match mode {
    Mode::ShareThreads => [SrcKind::Hot, SrcKind::Interval][r.below(2)],
    _ => [SrcKind::Hot, SrcKind::Hot, SrcKind::ColdSync, SrcKind::Interval][r.below(4)],
  };
  let n = 3 + r.below(max_len - 2);
  let mut h = vec![];
  for _ in 0..n {
    h.push(match r.below(12) {
      0 | 1 => Hop::Sub(r.below(3)),
      2 => match r.below(4) { 0 | 1 => Hop::SubTake(r.below(3)), 2 => Hop::SubDone(r.below(3)), _ => Hop::Sub(r.below(3)) },
      3 | 4 => Hop::Unsub(r.below(3)),
      5..=8 => {
        if src == SrcKind::Interval {
          Hop::Tick
        } else {
          Hop::Emit
        }
      }
      9 => if r.chance(1, 2) { Hop::SrcComplete } else { Hop::SrcError },
      10 if mode == Mode::Publish => Hop::Connect,
      _ => {
        if src == SrcKind::Interval {
          Hop::Tick
        } else {
          Hop::Emit
        }
      }
    });
  }
  Case { mode, src, h }
}

/// Subscribers that join a share from inside another subscriber's callback: while the share is
/// connecting to a synchronous cold source (the emission happens inside the connecting
/// subscription), or during an emission of a hot source. Nobody re-enters the *source*; the share
/// is simply subscribed again, which is what concat_all / merge_all do by themselves when an inner
/// observable that is a share() completes and the next inner is a clone of it.
/// Expected: no panic, no self-deadlock; the first subscriber sees everything; a subscriber that
/// joined during item i sees exactly the items after i; the source is subscribed once.
fn reentrant_join_case(threads: bool, src: u8, join_at: usize, joiners: usize) -> Result<(Vec<Vec<N>>, Vec<Vec<N>>, usize, usize), String> {
  use std::rc::Rc;
  catch(|| {
    clear_local_cbs();
    let log = Log::new();
    let mut hot_l = Subject::<'static, V, E>::default();
    let mut hot_t = SubjectThreads::<V, E>::default();
    let lc = log.clone();
    let items = vec![V::I(1), V::I(2), V::I(3)];
    let cold_items = items.clone();
    // src: 0 = cold, emits 1,2,3 at subscription and stays open; 1 = cold, emits 1,2,3 and completes; 2 = hot
    let completes = src == 1;
    let local: rxrust::ops::box_it::BoxOp<'static, V, E> = match src {
      2 => hot_l.clone().box_it(),
      _ => {
        let lc = lc.clone();
        defer(move || {
          lc.mark(SUBCNT, "source_subscribed", 0);
          let its = cold_items.clone();
          create(move |mut s: Subscriber<_>| {
            for v in its.iter() {
              s.next(v.clone());
            }
            if completes {
              s.complete();
            }
          })
        })
        .box_it()
      }
    };
    let lc2 = log.clone();
    let cold_items_t = items.clone();
    let thr: rxrust::ops::box_it::BoxOpThreads<V, E> = match src {
      2 => hot_t.clone().box_it(),
      _ => defer(move || {
        lc2.mark(SUBCNT, "source_subscribed", 0);
        let its = cold_items_t.clone();
        create(move |mut s: SubscriberThreads<_>| {
          for v in its.iter() {
            s.next(v.clone());
          }
          if completes {
            s.complete();
          }
        })
      })
      .box_it(),
    };
    let share_l = local.share();
    let share_t = thr.share_threads();
    // subscriber 1 subscribes `joiners` more probes (2, 3) when its item number `join_at`
    // arrives (join_at == 3: when its completion arrives)
    let seen = Rc::new(std::cell::Cell::new(0usize));
    {
      let (log, share_l, share_t, seen) = (log.clone(), share_l.clone(), share_t.clone(), seen.clone());
      set_local_cb(
        1,
        Rc::new(move |n: &N| {
          let now = seen.get();
          seen.set(now + 1);
          let fire = match n {
            N::Next(_) => now == join_at,
            _ => join_at == 3,
          };
          if fire {
            for j in 0..joiners {
              let probe = Probe::new(2 + j as u32, &log);
              log.mark(0, "joined", 2 + j as i64);
              if threads {
                std::mem::forget(share_t.clone().actual_subscribe(probe));
              } else {
                std::mem::forget(share_l.clone().actual_subscribe(probe));
              }
            }
          }
        }),
      );
    }
    if threads {
      std::mem::forget(share_t.clone().actual_subscribe(Probe::new(1, &log)));
    } else {
      std::mem::forget(share_l.clone().actual_subscribe(Probe::new(1, &log)));
    }
    if src == 2 {
      for v in items.iter() {
        if threads {
          hot_t.next(v.clone());
        } else {
          hot_l.next(v.clone());
        }
      }
      // a hot source also completes in the `join on completion` cases
      if join_at == 3 {
        if threads {
          hot_t.clone().complete();
        } else {
          hot_l.clone().complete();
        }
      }
    }
    clear_local_cbs();
    let got: Vec<Vec<N>> = (1..=3u32).map(|id| log.notes(id)).collect();
    // model
    let mut full: Vec<N> = items.iter().cloned().map(N::Next).collect();
    if completes || (src == 2 && join_at == 3) {
      full.push(N::Complete);
    }
    let joined = seen.get() > join_at.min(full.len());
    let late: Vec<N> = if joined && join_at < 3 { full[join_at + 1..].to_vec() } else { vec![] };
    let mut expected = vec![full.clone(), vec![], vec![]];
    for j in 0..joiners {
      expected[1 + j] = late.clone();
    }
    let n_src = log.marks(SUBCNT, "source_subscribed").len();
    Ok::<_, String>((got, expected, n_src, log.len()))
  })
  .and_then(|r| r)
}

/// publish() without connect(): forks are subscribed, the connectable value itself is subscribed
/// (it is an Observable too, and subscribing it consumes it, so connect() can never be called),
/// the hot source emits: the source must not have been subscribed at all.
fn unconnected_publish_case(cold: bool, self_first: bool) -> Result<(usize, usize, usize), String> {
  catch(|| {
    let log = Log::new();
    let mut hot = Subject::<'static, V, E>::default();
    let (la, lb) = (log.clone(), log.clone());
    let src: rxrust::ops::box_it::BoxOp<'static, V, E> = if cold {
      defer(move || {
        lb.mark(SUBCNT, "source_subscribed", 0);
        create(|mut s: Subscriber<_>| {
          s.next(V::I(1));
          s.next(V::I(2));
        })
      })
      .tap(move |v: &V| { la.mark(TAP, "tap", v.int()); })
      .box_it()
    } else {
      hot.clone().tap(move |v: &V| { la.mark(TAP, "tap", v.int()); }).box_it()
    };
    let p = src.publish::<Subject<'static, V, E>>();
    let f = p.fork();
    if self_first {
      std::mem::forget(p.actual_subscribe(Probe::new(2, &log)));
      std::mem::forget(f.clone().actual_subscribe(Probe::new(1, &log)));
    } else {
      std::mem::forget(f.clone().actual_subscribe(Probe::new(1, &log)));
      std::mem::forget(p.actual_subscribe(Probe::new(2, &log)));
    }
    hot.next(V::I(5));
    hot.next(V::I(6));
    (log.marks(SUBCNT, "source_subscribed").len(), log.marks(TAP, "tap").len(), log.notes(1).len() + log.notes(2).len())
  })
}

/// one subscriber of a share / publish panics on an item (user code); the program catches the panic
/// around the source's call and the source emits again: the other subscribers, and the one that
/// panicked, are still present and still receive. Local form (a panic poisons the mutexes of the
/// thread-safe one).
fn panicking_subscriber_case(publish: bool) -> Result<(Vec<String>, Vec<String>), String> {
  use std::cell::RefCell;
  use std::rc::Rc;
  struct Picky(Rc<RefCell<Vec<String>>>, &'static str);
  impl Observer<V, E> for Picky {
    fn next(&mut self, v: V) {
      if v.int() == 13 && self.1 == "a" {
        panic!("a subscriber fails on an item");
      }
      self.0.borrow_mut().push(format!("{} {}", self.1, v.int()));
    }
    fn error(self, e: E) {
      self.0.borrow_mut().push(format!("{} error {}", self.1, e));
    }
    fn complete(self) {
      self.0.borrow_mut().push(format!("{} complete", self.1));
    }
    fn is_finished(&self) -> bool {
      false
    }
  }
  catch(|| {
    let log: Rc<RefCell<Vec<String>>> = Default::default();
    let mut hot = Subject::<'static, V, E>::default();
    let src: rxrust::ops::box_it::BoxOp<'static, V, E> = hot.clone().box_it();
    if publish {
      let p = src.publish::<Subject<'static, V, E>>();
      let f = p.fork();
      std::mem::forget(f.clone().actual_subscribe(Picky(log.clone(), "b")));
      std::mem::forget(f.clone().actual_subscribe(Picky(log.clone(), "a")));
      std::mem::forget(f.clone().actual_subscribe(Picky(log.clone(), "c")));
      std::mem::forget(p.connect());
    } else {
      let sh = src.share();
      std::mem::forget(sh.clone().actual_subscribe(Picky(log.clone(), "b")));
      std::mem::forget(sh.clone().actual_subscribe(Picky(log.clone(), "a")));
      std::mem::forget(sh.clone().actual_subscribe(Picky(log.clone(), "c")));
    }
    for v in [1i64, 13, 2, 3] {
      let mut h = hot.clone();
      let _ = std::panic::catch_unwind(std::panic::AssertUnwindSafe(move || h.next(V::I(v))));
    }
    hot.complete();
    let got = log.borrow().clone();
    // b precedes a and always gets 13; c comes after a: the panic unwinds out of the fan-out,
    // so whether c still gets item 13 is not demanded - everything else is
    let want: Vec<String> = ["b 1", "a 1", "c 1", "b 13", "b 2", "a 2", "c 2", "b 3", "a 3", "c 3", "b complete", "a complete", "c complete"].iter().map(|x| x.to_string()).collect();
    (got.into_iter().filter(|l| l != "c 13").collect::<Vec<_>>(), want)
  })
}

pub fn run(cfg: &Cfg, rep: &mut Report) {
  if cfg.shard == 0 && cfg.only_case.as_deref().map_or(true, |c| c.starts_with("panicking:")) {
    for publish in [false, true] {
      let id = format!("panicking:{}", publish);
      rep.evaluations += 1;
      rep.count("multicasts_with_a_subscriber_that_panics_on_an_item", 1);
      let locus = if publish { "publish[a subscriber panicked on an item]" } else { "share[a subscriber panicked on an item]" };
      match panicking_subscriber_case(publish) {
        Err(p) => rep.violation("panic", locus, &id, json!({"panic": p})),
        Ok((got, want)) => {
          rep.events += got.len() as u64;
          if got != want {
            rep.violation("subscriber_missed_emission", locus, &id, json!({"observed": got, "expected": want}));
          } else {
            rep.nontrivial.insert(hash64(&id));
          }
        }
      }
    }
  }
  if cfg.shard == 0 && cfg.only_case.as_deref().map_or(true, |c| c.starts_with("unconnected:")) {
    for cold in [false, true] {
      for self_first in [false, true] {
        let id = format!("unconnected:{}:{}", cold, self_first);
        rep.evaluations += 1;
        rep.events += 2;
        rep.count("publish_cases_never_connected", 1);
        match unconnected_publish_case(cold, self_first) {
          Err(p) => rep.violation("panic", "publish[never connected]", &id, json!({"panic": p})),
          Ok((subs, taps, delivered)) => {
            if subs + taps + delivered > 0 {
              rep.violation("source_subscribed_before_connect", "publish[never connected]", &id, json!({"why": "connect() was never called (forks and the connectable itself were subscribed)", "source_subscriptions": subs, "source_items_seen_upstream": taps, "notifications_delivered": delivered}));
            } else {
              rep.nontrivial.insert(hash64(&id));
            }
          }
        }
      }
    }
  }
  if cfg.shard == 0 && cfg.only_case.as_deref().map_or(true, |c| c.starts_with("rejoin:")) {
    for threads in [false, true] {
      for src in 0..3u8 {
        for join_at in 0..4usize {
          for joiners in 1..3usize {
            let id = format!("rejoin:{}:{}:{}:{}", threads, src, join_at, joiners);
            if !cfg.wants(&id) {
              continue;
            }
            rep.evaluations += 1;
            rep.count("joins_from_inside_a_subscriber_callback", 1);
            let locus = format!("{}[join-in-callback]", if threads { "share_threads" } else { "share" });
            let src_name = ["cold, stays open", "cold, completes", "hot"][src as usize];
            match reentrant_join_case(threads, src, join_at, joiners) {
              Err(p) => {
                let kind = if p.starts_with(crate::conc::SELF_DEADLOCK) { "deadlock" } else { "panic" };
                rep.violation(kind, &locus, &id, json!({"source": src_name, "join_at_item": join_at, "joiners": joiners, "what": p}));
              }
              Ok((got, expected, n_src, events)) => {
                rep.events += events as u64;
                rep.nontrivial.insert(hash64(&(threads, src, join_at, joiners)));
                if src != 2 && n_src != 1 {
                  rep.violation("source_subscribed_more_than_once", &locus, &id, json!({"source_subscriptions": n_src}));
                } else if got[0] != expected[0] {
                  rep.violation("wrong_delivery", &locus, &id, json!({"who": "the first subscriber", "observed": jn(&got[0]), "expected": jn(&expected[0])}));
                } else if join_at < 3 {
                  // who joins on the completion of the source is owed nothing in particular
                  for j in 0..joiners {
                    if got[1 + j] != expected[1 + j] {
                      rep.violation("wrong_delivery", &locus, &id, json!({"who": format!("subscriber {} joined during item {}", 2 + j, join_at + 1), "observed": jn(&got[1 + j]), "expected": jn(&expected[1 + j])}));
                      break;
                    }
                  }
                }
              }
            }
          }
        }
      }
    }
  }
  let total = cfg.n(600_000, 20_000_000);
  let max_len = cfg.n(10, 18);
  let mut rng = Rng::new(cfg.seed ^ 0xC11);
  for i in 0..total {
    let mut r = rng.fork();
    if !cfg.mine(i) {
      continue;
    }
    let id = format!("mc:{}", i);
    if !cfg.wants(&id) {
      continue;
    }
    let c = random_case(&mut r, max_len);
    rep.evaluations += 1;
    let o = observe(&c);
    rep.set("modes_covered", &format!("{:?}/{:?}", c.mode, c.src));
    if let Ok(obs) = &o {
      rep.events += obs.evs.len() as u64;
      if obs.overlapped_and_left_before_end {
        rep.nontrivial.insert(hash64(&c));
      }
      if obs.evs.iter().any(|e| matches!(e.k, K::Mark("rejoined", _))) {
        rep.count("histories_with_a_rejoin_after_everybody_left", 1);
      }
      if obs.evs.iter().any(|e| matches!(e.k, K::Mark("last_subscriber_left", _))) {
        rep.count("histories_where_the_last_subscriber_left", 1);
      }
    }
    if let Some((kind, detail)) = judge(&c, &o) {
      let mut cur = c.clone();
      let mut j = 0;
      while j < cur.h.len() {
        let mut cand = cur.clone();
        cand.h.remove(j);
        if judge(&cand, &observe(&cand)).map_or(false, |(k, _)| k == kind) {
          cur = cand
        } else {
          j += 1
        }
      }
      let name = match c.mode {
        Mode::Share => "share",
        Mode::ShareThreads => "share_threads",
        Mode::Publish => "publish",
      };
      rep.violation(&kind, name, &id, json!({"case": format!("{:?}", c), "shrunk_history": format!("{:?}", cur.h), "result": detail}));
    } else if let Ok(obs) = &o {
      rep.sample_some(7013, || {
        json!({"case": id, "mode": format!("{:?}", c.mode), "source": format!("{:?}", c.src), "history": format!("{:?}", c.h),
               "subscribers_saw": (0..3).map(|k| jn(&obs.evs.iter().filter(|e| e.id == 1 + k).filter_map(|e| if let K::N(n) = &e.k { Some(n.clone()) } else { None }).collect::<Vec<_>>())).collect::<Vec<_>>()})
      });
    }
  }

  // thread part: 2-3 subscribers on one share_threads(), emissions racing with
  // subscribers leaving and joining (baton scheduler at the hooked lock points,
  // then free-running OS threads)
  let n = cfg.n(12_000, 600_000);
  let orc = |o: &super::thr::Outcome, _: &super::thr::Scen| super::thr::share_oracle(o);
  super::thr::systematic_families(cfg, rep, 0xC11A, &[20, 20, 20], &|_, _| {}, &orc);
  super::thr::campaign(cfg, rep, "thr", n, 0xC11F, &mut |r: &mut Rng| super::thr::random_scen(r, 20), &orc);
  super::thr::free_campaign(cfg, rep, cfg.n(2_000, 200_000), 0xC11E, &mut |r: &mut Rng| super::thr::random_scen(r, 20), &orc);
}
