//! C08 — time and async sources emit exactly what and when they promise.
use super::common::*;
use crate::ast::*;
use crate::gen::Pipe;
use crate::report::{Cfg, Report};
use crate::value::*;
use crate::vtime::MS;
use crate::world::*;
use serde_json::json;

#[derive(Clone, Debug, PartialEq, Eq, Hash)]
pub struct Case {
  pub src: Src,
  pub take: usize,
  pub flavor: Flavor,
  pub policy: Policy,
  pub late: bool,
  pub seed: u64,
  pub wakes: Vec<TAct>,
  /// ns the clock moves between subscription and the executor's first run
  pub gap: u64,
}

fn scripted(r: &mut Rng, allow_err: bool, max_items: usize) -> Scripted {
  let n = r.below(max_items + 1);
  let mut items: Vec<(u8, Result<V, E>)> = (0..n).map(|i| (r.below(3) as u8, Ok(V::I(10 + i as i64)))).collect();
  if allow_err && r.chance(1, 3) {
    let pos = r.below(items.len() + 1);
    items.insert(pos, (r.below(3) as u8, Err(33)));
  }
  Scripted { items, end_pending: r.below(3) as u8, endless: false, self_wake: r.chance(1, 2) }
}

pub fn random_case(r: &mut Rng) -> Case {
  let p = [1u64, 7, 100][r.below(3)];
  let src = match r.below(12) {
    0 => Src::Interval(p),
    // periods below and between whole milliseconds
    1 => if r.chance(1, 2) { Src::IntervalUs([250u64, 500, 1500][r.below(3)]) } else { Src::Interval(p) },
    2 => Src::IntervalAt(*r.pick(&[-20i64, 0, 10, 250, 3_600_000]), p),
    3 => if r.chance(1, 2) { Src::IntervalAtUs(*r.pick(&[-20i64, 0, 10, 250]), [250u64, 500, 1500][r.below(3)]) } else { Src::IntervalAt(*r.pick(&[-20i64, 0, 10, 250, 3_600_000]), p) },
    4 => if r.chance(1, 3) { Src::TimerUs(V::I(5), [400, 900, 999, 1500][r.below(4)]) } else { Src::Timer(V::I(5), [0, 1, 7, 100][r.below(4)]) },
    5 => Src::TimerAt(V::I(5), *r.pick(&[-20i64, 0, 10, 3_600_000])),
    6 => Src::Future(301, scripted(r, false, 1)),
    7 => Src::FutureRes(301, scripted(r, true, 1)),
    8 | 9 => {
      let long = r.chance(1, 6);
      Src::Stream(301, long_or_short(r, false, long))
    }
    _ => {
      let long = r.chance(1, 6);
      Src::StreamRes(301, long_or_short(r, true, long))
    }
  };
  let timed = matches!(src, Src::Interval(_) | Src::IntervalUs(_) | Src::IntervalAt(..) | Src::IntervalAtUs(..) | Src::Timer(..) | Src::TimerUs(..) | Src::TimerAt(..));
  let gap = if timed && r.chance(1, 3) { [p * MS / 2, p * MS - 1, p * MS, 3 * p * MS + 1, 3 * MS][r.below(5)] } else { 0 };
  let mut wakes = vec![];
  if let Src::Future(id, s) | Src::FutureRes(id, s) | Src::Stream(id, s) | Src::StreamRes(id, s) = &src {
    if !s.self_wake {
      let mut t = 0;
      for _ in 0..20 {
        t += [0u64, 1, 3][r.below(3)] * MS;
        wakes.push(TAct { t, act: Act::Wake(*id) });
      }
    }
  }
  Case {
    src,
    take: 1 + r.below(4),
    flavor: [Flavor::Local, Flavor::Threads, Flavor::Local, Flavor::LocalPool][r.below(4)],
    policy: if r.chance(1, 2) { Policy::Fifo } else { Policy::Any },
    late: r.chance(1, 2),
    seed: r.next(),
    wakes,
    gap,
  }
}

/// long streams: runs of up to 100 items that are all ready at once
fn long_or_short(r: &mut Rng, allow_err: bool, long: bool) -> Scripted {
  if !long {
    return scripted(r, allow_err, 4);
  }
  let n = 20 + r.below(81);
  let sparse = r.chance(1, 2);
  let mut items: Vec<(u8, Result<V, E>)> =
    (0..n).map(|i| (if sparse && r.chance(1, 25) { 1 } else { 0 }, Ok(V::I(10 + i as i64)))).collect();
  if allow_err && r.chance(1, 3) {
    let pos = r.below(items.len() + 1);
    items.insert(pos, (0, Err(33)));
  }
  Scripted { items, end_pending: r.below(2) as u8, endless: false, self_wake: r.chance(1, 2) }
}

pub struct Obs {
  pub timed: Vec<(u64, N)>,
  pub eps: u64,
  pub polls: usize,
  pub was_pending: bool,
  pub choice_hash: u64,
}

pub fn observe(c: &Case) -> Result<Obs, String> {
  let periodic = matches!(c.src, Src::Interval(_) | Src::IntervalUs(_) | Src::IntervalAt(..) | Src::IntervalAtUs(..));
  let ops = if periodic { vec![Op::Take(c.take)] } else { vec![] };
  let horizon = 4_000_000 * MS; // beyond the one-hour instants
  let pipe = Pipe { chain: Chain::new(c.src.clone(), ops), n_hot: 1, acts: c.wakes.clone(), horizon };
  let t0 = std::time::Instant::now();
  let out = run_pipe_gap(c.flavor, &pipe, c.policy, c.late, c.seed, c.gap, &mut |_, _, _| {})?;
  let eps = t0.elapsed().as_nanos() as u64 + 1_000_000; // real time the case took, plus 1ms slack for the builder
  let polls = out.evs.iter().filter(|e| matches!(e.k, crate::log::K::Mark("poll", _))).count();
  let was_pending = polls >= 2;
  Ok(Obs { timed: timed_of(&out.evs, 1), eps, polls, was_pending, choice_hash: out.choice_hash })
}

/// what the scripted future/stream yields: items up to the first error
fn relay_expectation(s: &Scripted, is_future: bool) -> Vec<N> {
  let mut v = vec![];
  for (_, it) in &s.items {
    match it {
      Ok(x) => {
        v.push(N::Next(x.clone()));
        if is_future {
          break;
        }
      }
      Err(e) => {
        v.push(N::Err(*e));
        return v;
      }
    }
  }
  if is_future && v.is_empty() {
    v.push(N::Next(V::U));
  }
  v.push(N::Complete);
  v
}

pub fn judge(c: &Case, o: &Result<Obs, String>) -> Option<(String, String, serde_json::Value)> {
  let o = match o {
    Err(p) => return Some(("panic".into(), c.src.name().into(), json!({"panic": p}))),
    Ok(o) => o,
  };
  let notes: Vec<N> = o.timed.iter().map(|(_, n)| n.clone()).collect();
  let times: Vec<u64> = o.timed.iter().filter(|(_, n)| matches!(n, N::Next(_))).map(|(t, _)| *t).collect();
  let exact = !c.late; // due-stepping: the executor runs as each timer falls due
  let bad = |kind: &str, why: String| {
    Some((kind.to_string(), c.src.name().to_string(), json!({"why": why, "observed": o.timed.iter().map(|(t, n)| json!([t, n.j()])).collect::<Vec<_>>()})))
  };
  match &c.src {
    Src::Interval(p) | Src::IntervalUs(p) | Src::IntervalAt(_, p) | Src::IntervalAtUs(_, p) => {
      let p = if matches!(c.src, Src::IntervalUs(_) | Src::IntervalAtUs(..)) { *p * (MS / 1000) } else { *p * MS };
      let mut want: Vec<N> = (0..c.take as i64).map(|i| N::Next(V::I(i))).collect();
      want.push(N::Complete);
      if notes != want {
        return bad("wrong_values", format!("expected 0..{} then complete", c.take));
      }
      // first tick
      // g: the executor's first run; a tick due before it happens at it
      let g = c.gap;
      let (lo, hi): (u64, u64) = match &c.src {
        Src::Interval(_) | Src::IntervalUs(_) => (p.max(g), p.max(g)),
        Src::IntervalAt(off, _) | Src::IntervalAtUs(off, _) if *off > 0 => {
          let off = *off as u64 * MS;
          (off.saturating_sub(o.eps).max(g), off.max(g))
        }
        // an instant that already passed: the first value is due at once,
        // i.e. at the executor's first run
        _ => (g, g),
      };
      if times[0] < lo {
        return bad("early_tick", format!("first tick at {}ns, not before {}ns", times[0], lo));
      }
      if exact && times[0] > hi {
        return bad("late_first_tick", format!("first tick at {}ns although the executor ran as timers fell due; due by {}ns", times[0], hi));
      }
      for w in times.windows(2) {
        if w[1] < w[0] + p {
          return bad("early_tick", format!("tick at {}ns less than one period after the previous one at {}ns", w[1], w[0]));
        }
        if exact && w[1] != w[0] + p {
          return bad("late_tick", format!("tick at {}ns is not exactly one period after {}ns", w[1], w[0]));
        }
      }
      None
    }
    Src::Timer(v, _) | Src::TimerUs(v, _) | Src::TimerAt(v, _) => {
      if notes != vec![N::Next(v.clone()), N::Complete] {
        return bad("wrong_values", "timer must emit its item once and complete".into());
      }
      let g = c.gap;
      let (lo, hi): (u64, u64) = match &c.src {
        Src::Timer(_, d) => ((*d * MS).max(g), (*d * MS).max(g)),
        Src::TimerUs(_, d) => ((*d * 1000).max(g), (*d * 1000).max(g)),
        Src::TimerAt(_, off) if *off > 0 => ((*off as u64 * MS).saturating_sub(o.eps).max(g), (*off as u64 * MS).max(g)),
        _ => (g, g),
      };
      if times[0] < lo {
        return bad("early_tick", format!("timer fired at {}ns, due {}ns", times[0], lo));
      }
      // the statement bounds timers from below only; the delay of a one-shot
      // task is armed when the executor first polls it, so after an idle gap
      // it legitimately fires later than subscription + delay
      if exact && g == 0 && times[0] > hi {
        return bad("late_tick", format!("timer fired at {}ns, due {}ns", times[0], hi));
      }
      None
    }
    Src::Future(_, s) | Src::FutureRes(_, s) => {
      let want = relay_expectation(s, true);
      if notes != want {
        return bad("wrong_relay", format!("expected {:?}", want));
      }
      None
    }
    Src::Stream(_, s) | Src::StreamRes(_, s) => {
      let want = relay_expectation(s, false);
      if notes != want {
        return bad("wrong_relay", format!("expected {:?}", want));
      }
      None
    }
    _ => None,
  }
}

pub fn run(cfg: &Cfg, rep: &mut Report) {
  let total = cfg.n(500_000, 30_000_000);
  let mut rng = Rng::new(cfg.seed ^ 0xC08);
  for i in 0..total {
    let mut r = rng.fork();
    if !cfg.mine(i) {
      continue;
    }
    let id = format!("src:{}", i);
    if !cfg.wants(&id) {
      continue;
    }
    let c = random_case(&mut r);
    rep.evaluations += 1;
    let o = observe(&c);
    rep.set("sources_covered", c.src.name());
    if c.flavor == Flavor::LocalPool {
      rep.count("runs_on_the_real_LocalPool", 1);
    }
    if let Ok(obs) = &o {
      rep.events += obs.timed.len() as u64;
      let ticks = obs.timed.iter().filter(|(_, n)| matches!(n, N::Next(_))).count();
      if ticks >= 2 || obs.was_pending {
        rep.nontrivial.insert(hash64(&c));
      }
      rep.distinct("distinct_schedules", obs.choice_hash ^ hash64(&c.src));
      rep.count(if c.late { "late_schedule_runs" } else { "due_stepping_runs" }, 1);
      if c.gap > 0 {
        rep.count("runs_with_idle_gap_before_first_poll", 1);
      }
      if obs.timed.len() > 32 {
        rep.count("long_stream_runs", 1);
      }
    }
    if let Some((kind, locus, detail)) = judge(&c, &o) {
      let cls = match &c.src {
        Src::IntervalAt(off, p) | Src::IntervalAt(off, p) if *off > 0 && (*off as u64) < *p => "[instant<period]",
        Src::IntervalAt(off, _) if *off > 0 => "[instant>=period]",
        Src::IntervalAt(..) => "[past instant]",
        Src::IntervalAtUs(off, _) if *off > 0 => "[future instant][period in microseconds]",
        Src::IntervalAtUs(..) => "[past instant][period in microseconds]",
        Src::IntervalUs(_) => "[period in microseconds]",
        _ => "",
      };
      let cls = format!("{}{}", cls, if c.gap > 0 { "[idle gap before the first run]" } else { "" });
      rep.violation(&kind, &format!("{}{}", locus, cls), &id, json!({"case": format!("{:?}", c), "result": detail}));
    } else if let Ok(obs) = &o {
      rep.sample_some(5003, || {
        json!({"case": id, "source": format!("{:?}", c.src), "take": c.take, "late_schedule": c.late,
               "policy": format!("{:?}", c.policy),
               "observed_at_ns": obs.timed.iter().map(|(t, n)| json!([t, n.j()])).collect::<Vec<_>>()})
      });
    }
  }

  // thread part: interval(1ms).take(k) ticking on 1-2 worker threads that fire
  // the virtual timers, optionally with an unsubscribing thread
  let n = cfg.n(4_000, 200_000);
  super::thr::systematic_families(cfg, rep, 0xC08A, &[23, 23, 23], &|_, _| {}, &|o, s| super::thr::interval_oracle(o, s));
  super::thr::campaign(cfg, rep, "thr", n, 0xC08F, &mut |r: &mut Rng| super::thr::random_scen(r, 23), &|o, s| super::thr::interval_oracle(o, s));
  super::thr::free_campaign(cfg, rep, cfg.n(1_000, 100_000), 0xC08E, &mut |r: &mut Rng| super::thr::random_scen(r, 23), &|o, s| super::thr::interval_oracle(o, s));
}
