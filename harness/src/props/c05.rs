//! C05 — flattening delivers every inner item once and honours the limit.
use crate::ast::*;
use crate::log::*;
use crate::report::{Cfg, Report};
use crate::value::*;
use crate::world::*;
use serde_json::json;

#[derive(Clone, Debug, PartialEq, Eq, Hash)]
pub enum Inner {
  /// emits its script synchronously at subscription
  Cold(Vec<N>),
  /// hot subject driven later by the explorer
  Hot,
}

#[derive(Clone, Copy, Debug, PartialEq, Eq, Hash)]
pub enum Spelling {
  MergeAll(usize),
  ConcatAll,
  Flatten,
  FlatMap,
  ConcatMap,
}

impl Spelling {
  pub fn limit(&self) -> usize {
    match self {
      Spelling::MergeAll(n) => *n,
      Spelling::ConcatAll | Spelling::ConcatMap => 1,
      _ => usize::MAX,
    }
  }
  pub fn name(&self) -> &'static str {
    match self {
      Spelling::MergeAll(_) => "merge_all",
      Spelling::ConcatAll => "concat_all",
      Spelling::Flatten => "flatten",
      Spelling::FlatMap => "flat_map",
      Spelling::ConcatMap => "concat_map",
    }
  }
}

#[derive(Clone, Debug, PartialEq, Eq, Hash)]
pub struct Case {
  pub flavor: Flavor,
  pub sp: Spelling,
  pub inners: Vec<Inner>,
  /// (0 = outer, i+1 = hot inner i, notification)
  pub timeline: Vec<(usize, N)>,
}

const SPY_BASE: u32 = 20;

pub fn chain_of(c: &Case) -> Chain {
  let table: Vec<Chain> = c
    .inners
    .iter()
    .enumerate()
    .map(|(i, inn)| match inn {
      Inner::Cold(s) => Chain::new(Src::CreateSync(s.clone()), vec![Op::Spy(SPY_BASE + i as u32)]),
      Inner::Hot => Chain::new(Src::Hot(i + 1), vec![Op::Spy(SPY_BASE + i as u32)]),
    })
    .collect();
  let op = match c.sp {
    Spelling::MergeAll(n) => Op::MergeAll(n, table),
    Spelling::ConcatAll => Op::ConcatAll(table),
    Spelling::Flatten => Op::Flatten(table),
    Spelling::FlatMap => Op::FlatMap(table),
    Spelling::ConcatMap => Op::ConcatMap(table),
  };
  Chain::new(Src::Hot(0), vec![op])
}

/// exact sequential model of merge_all(n) over cold and hot inners
pub fn model(c: &Case) -> Vec<N> {
  model_with(c, &[], &mut vec![])
}

/// `choices[k]` picks which waiting inner is started at the k-th start from
/// the queue (always 0 = FIFO for concat semantics); `fanout` records the
/// queue length at every such point.
pub fn model_with(c: &Case, choices: &[usize], fanout: &mut Vec<usize>) -> Vec<N> {
  struct M<'a> {
    c: &'a Case,
    n: usize,
    running: Vec<usize>,
    queue: Vec<usize>,
    outer_done: bool,
    out: Vec<N>,
    done: bool,
    started: Vec<bool>,
    choices: &'a [usize],
    fanout: Vec<usize>,
  }
  impl<'a> M<'a> {
    fn start(&mut self, i: usize) {
      if self.done {
        return;
      }
      self.running.push(i);
      self.started[i] = true;
      if let Inner::Cold(s) = &self.c.inners[i] {
        for n in crate::model::well_formed(s.clone()) {
          self.inner(i, &n);
        }
      }
    }
    fn inner(&mut self, i: usize, n: &N) {
      if self.done || !self.running.contains(&i) {
        return;
      }
      match n {
        N::Next(v) => self.out.push(N::Next(v.clone())),
        N::Err(e) => {
          self.out.push(N::Err(*e));
          self.done = true;
        }
        N::Complete => {
          self.running.retain(|x| *x != i);
          if !self.queue.is_empty() {
            // which waiting inner starts next is only specified for concat (limit 1): FIFO
            let k = self.fanout.len();
            let pick = if self.n <= 1 { 0 } else { self.choices.get(k).cloned().unwrap_or(0).min(self.queue.len() - 1) };
            self.fanout.push(if self.n <= 1 { 1 } else { self.queue.len() });
            let j = self.queue.remove(pick);
            self.start(j);
          } else if self.outer_done && self.running.is_empty() {
            self.out.push(N::Complete);
            self.done = true;
          }
        }
      }
    }
  }
  let mut m = M {
    c,
    n: c.sp.limit(),
    running: vec![],
    queue: vec![],
    outer_done: false,
    out: vec![],
    done: false,
    started: vec![false; c.inners.len()],
    choices,
    fanout: vec![],
  };
  let mut ended = vec![false; c.inners.len() + 1];
  for (who, n) in &c.timeline {
    if m.done {
      break;
    }
    if ended[*who] {
      continue;
    }
    if n.is_terminal() {
      ended[*who] = true;
    }
    if *who == 0 {
      match n {
        N::Next(v) => {
          let i = (v.int().rem_euclid(c.inners.len() as i64)) as usize;
          if m.running.len() < m.n {
            m.start(i)
          } else {
            m.queue.push(i)
          }
        }
        N::Complete => {
          m.outer_done = true;
          if m.running.is_empty() && m.queue.is_empty() {
            m.out.push(N::Complete);
            m.done = true;
          }
        }
        N::Err(e) => {
          m.out.push(N::Err(*e));
          m.done = true;
        }
      }
    } else {
      // a hot inner that is not subscribed right now loses the event
      let i = *who - 1;
      if n.is_terminal() && !m.running.contains(&i) {
        // the subject terminated before/without being subscribed: a later
        // subscription to it receives nothing, not even the terminal
        ended[*who] = true;
      }
      m.inner(i, n);
    }
  }
  *fanout = m.fanout.clone();
  m.out
}

/// every output the model allows (all start orders of waiting inners when the limit is >= 2)
pub fn model_all(c: &Case) -> Vec<Vec<N>> {
  let mut outs = vec![];
  let mut choices: Vec<usize> = vec![];
  loop {
    let mut fan = vec![];
    let o = model_with(c, &choices, &mut fan);
    if !outs.contains(&o) {
      outs.push(o);
    }
    // odometer over the recorded fan-outs
    let mut cur: Vec<usize> = (0..fan.len()).map(|i| choices.get(i).cloned().unwrap_or(0)).collect();
    let mut i = cur.len();
    loop {
      if i == 0 {
        return outs;
      }
      i -= 1;
      if cur[i] + 1 < fan[i] {
        cur[i] += 1;
        cur.truncate(i + 1);
        break;
      }
    }
    choices = cur;
    if outs.len() > 200 {
      return outs;
    }
  }
}

pub struct Obs {
  pub out: Vec<N>,
  pub max_live: usize,
  pub queued_then_started: bool,
  pub two_live: bool,
  pub events: usize,
}

pub fn observe(c: &Case) -> Result<Obs, String> {
  catch(|| {
    let mut w = World::new(c.flavor, c.inners.len() + 1);
    w.subscribe(&chain_of(c), 1);
    for (who, n) in &c.timeline {
      w.inject(*who, n.clone());
    }
    let evs = w.log.evs();
    // running-inner counter from the tracked inners: Subscribed .. (terminal | UnsubCall)
    let mut live: std::collections::HashSet<u32> = Default::default();
    let mut max_live = 0;
    let mut subs_seen = 0usize;
    let mut outer_items = 0usize;
    let mut queued_then_started = false;
    for e in &evs {
      if e.id >= SPY_BASE * 1000 {
        match &e.k {
          K::Subscribed => {
            live.insert(e.id);
            subs_seen += 1;
            if subs_seen > outer_items.max(0) {}
          }
          K::N(n) if n.is_terminal() => {
            live.remove(&e.id);
          }
          K::UnsubCall => {
            live.remove(&e.id);
          }
          _ => {}
        }
        max_live = max_live.max(live.len());
      }
      if let K::Mark("act", _) = e.k {
        outer_items += 1;
      }
    }
    // an inner was subscribed while handling an inner's completion, not an outer item
    let mut last_was_inner_terminal = false;
    for e in &evs {
      if e.id >= SPY_BASE * 1000 {
        match &e.k {
          K::N(N::Complete) => last_was_inner_terminal = true,
          K::Subscribed => {
            if last_was_inner_terminal {
              queued_then_started = true
            }
          }
          K::Mark(..) => {}
          _ => last_was_inner_terminal = false,
        }
      }
    }
    let out = w.log.notes(1);
    let events = evs.len();
    w.teardown();
    Obs { out, max_live, queued_then_started, two_live: max_live >= 2, events }
  })
}

pub fn judge(c: &Case, obs: &Result<Obs, String>) -> Option<(String, serde_json::Value)> {
  match obs {
    Err(p) => {
      if p.starts_with(crate::conc::SELF_DEADLOCK) {
        Some(("deadlock".into(), json!({"self_deadlock": p})))
      } else {
        Some(("panic".into(), json!({"panic": p})))
      }
    }
    Ok(o) => {
      let all = model_all(c);
      let exp = all[0].clone();
      let lim = c.sp.limit();
      if o.max_live > lim {
        return Some(("limit_exceeded".into(), json!({"max_live_inners": o.max_live, "limit": lim})));
      }
      if all.contains(&o.out) {
        return None;
      }
      let items = |v: &[N]| v.iter().filter_map(|n| if let N::Next(x) = n { Some(x.int()) } else { None }).collect::<Vec<_>>();
      let (oi, ei) = (items(&o.out), items(&exp));
      let mut so = oi.clone();
      so.sort();
      let mut dedup = so.clone();
      dedup.dedup();
      let mut se = ei.clone();
      se.sort();
      let kind = if grammar_violation(&o.out).is_some() {
        "malformed_sequence"
      } else if dedup.len() != so.len() {
        "duplicate_item"
      } else if so == se && oi != ei {
        "wrong_order"
      } else if so != se && so.iter().all(|x| se.contains(x)) {
        "lost_item"
      } else if so != se {
        "wrong_items"
      } else if exp.last() == Some(&N::Complete) && o.out.last() != Some(&N::Complete) {
        "completion_missing"
      } else if o.out.last() == Some(&N::Complete) && exp.last() != Some(&N::Complete) {
        "completion_early"
      } else {
        "wrong_termination"
      };
      Some((kind.into(), json!({"observed": jn(&o.out), "expected": jn(&exp)})))
    }
  }
}

fn inner_script(i: usize, items: usize, term: u8) -> Vec<N> {
  let mut s: Vec<N> = (0..items).map(|k| N::Next(V::I(((i + 1) * 100 + k) as i64))).collect();
  match term {
    1 => s.push(N::Complete),
    2 => s.push(N::Err(20 + i as i32)),
    _ => {}
  }
  s
}

pub fn random_case(r: &mut Rng, kmax: usize) -> Case {
  let k = 1 + r.below(kmax);
  let flavor = if r.chance(1, 2) { Flavor::Local } else { Flavor::Threads };
  let sp = match r.below(7) {
    0 | 1 | 2 => Spelling::MergeAll(1 + r.below(k + 1)),
    3 => Spelling::ConcatAll,
    4 => Spelling::Flatten,
    5 => Spelling::FlatMap,
    _ => Spelling::ConcatMap,
  };
  let mut inners = vec![];
  let mut scripts: Vec<Vec<N>> = vec![];
  // outer: indices 0..k in order, sometimes with a terminal
  let mut outer: Vec<N> = (0..k).map(|i| N::Next(V::I(i as i64))).collect();
  match r.below(6) {
    0 => {}
    1 => outer.push(N::Err(9)),
    _ => outer.push(N::Complete),
  }
  scripts.push(outer);
  for i in 0..k {
    if r.chance(1, 2) {
      inners.push(Inner::Hot);
      let term = match r.below(8) {
        0 => 0,
        1 => 2,
        _ => 1,
      };
      scripts.push(inner_script(i, r.below(4), term));
    } else {
      let term = if r.chance(1, 8) { 2 } else { 1 };
      inners.push(Inner::Cold(inner_script(i, r.below(3), term)));
      scripts.push(vec![]);
    }
  }
  // random interleaving that keeps each script's own order
  let mut pos = vec![0usize; scripts.len()];
  let mut timeline = vec![];
  loop {
    let avail: Vec<usize> = (0..scripts.len()).filter(|i| pos[*i] < scripts[*i].len()).collect();
    if avail.is_empty() {
      break;
    }
    // bias: outer items early so that inners queue up behind hot ones
    let who = if avail.contains(&0) && r.chance(1, 2) { 0 } else { avail[r.below(avail.len())] };
    timeline.push((who, scripts[who][pos[who]].clone()));
    pos[who] += 1;
  }
  Case { flavor, sp, inners, timeline }
}

fn check(cfg: &Cfg, rep: &mut Report, id: &str, c: &Case) {
  if !cfg.wants(id) {
    return;
  }
  rep.evaluations += 1;
  let obs = observe(c);
  let fl = if c.flavor == Flavor::Threads { "_threads" } else { "" };
  rep.set("operators_covered", &format!("{}{}", c.sp.name(), fl));
  if let Ok(o) = &obs {
    rep.events += o.events as u64;
    if o.queued_then_started || o.two_live {
      rep.nontrivial.insert(hash64(c));
    }
    if o.queued_then_started {
      rep.count("cases_with_queued_then_started_inner", 1);
    }
    if o.two_live {
      rep.count("cases_with_2plus_live_inners", 1);
    }
  }
  if let Some((kind, detail)) = judge(c, &obs) {
    // shrink the timeline
    let mut cur = c.clone();
    let mut i = 0;
    while i < cur.timeline.len() {
      let mut cand = cur.clone();
      cand.timeline.remove(i);
      if judge(&cand, &observe(&cand)).map_or(false, |(k, _)| k == kind) {
        cur = cand;
      } else {
        i += 1;
      }
    }
    let cold = cur.inners.iter().any(|x| matches!(x, Inner::Cold(_)));
    let hot = cur.inners.iter().any(|x| matches!(x, Inner::Hot));
    let locus = format!("{}{}[{}{}]", c.sp.name(), fl, if hot { "hot" } else { "" }, if cold { "+cold" } else { "" });
    rep.violation(
      &kind,
      &locus,
      id,
      json!({"case": format!("{:?}", c), "shrunk_timeline": format!("{:?}", cur.timeline), "result": detail}),
    );
  } else if let Ok(o) = &obs {
    rep.sample_some(6007, || {
      json!({"case": id, "spelling": format!("{:?}{}", c.sp, fl), "inners": format!("{:?}", c.inners),
             "timeline": c.timeline.iter().map(|(w, n)| json!([w, n.j()])).collect::<Vec<_>>(),
             "observed": jn(&o.out), "max_live_inners": o.max_live})
    });
  }
}

pub fn run(cfg: &Cfg, rep: &mut Report) {
  // the documented queued-then-started shapes first (deterministic battery)
  let mut idx = 0usize;
  for flavor in [Flavor::Local, Flavor::Threads] {
    for sp in [Spelling::MergeAll(1), Spelling::MergeAll(2), Spelling::ConcatAll, Spelling::ConcatMap] {
      for second_cold in [true, false] {
        for third in [0usize, 1, 2] {
          idx += 1;
          if !cfg.mine(idx) {
            continue;
          }
          let mut inners = vec![Inner::Hot];
          inners.push(if second_cold { Inner::Cold(inner_script(1, 2, 1)) } else { Inner::Hot });
          if third > 0 {
            inners.push(if third == 1 { Inner::Cold(inner_script(2, 1, 1)) } else { Inner::Hot });
          }
          let k = inners.len();
          let mut tl: Vec<(usize, N)> = (0..k).map(|i| (0, N::Next(V::I(i as i64)))).collect();
          tl.push((0, N::Complete));
          tl.push((1, N::Next(V::I(100))));
          tl.push((1, N::Complete));
          for i in 1..k {
            if inners[i] == Inner::Hot {
              tl.push((i + 1, N::Next(V::I(((i + 1) * 100) as i64))));
              tl.push((i + 1, N::Complete));
            }
          }
          check(cfg, rep, &format!("shape:{}", idx), &Case { flavor, sp, inners, timeline: tl });
        }
      }
    }
  }
  let total = cfg.n(500_000, 18_000_000);
  let kmax = cfg.n(3, 5);
  let mut rng = Rng::new(cfg.seed ^ 0xC05);
  for i in 0..total {
    let mut r = rng.fork();
    if !cfg.mine(i) {
      continue;
    }
    // a quarter of the cases have up to kmax+3 inners, so that three or more can wait at once
    let c = random_case(&mut r, if i % 4 == 0 { kmax + 3 } else { kmax });
    check(cfg, rep, &format!("rand:{}", i), &c);
  }

  // thread part: outer, inner and unsubscribing threads on merge_all_threads (baton scheduler)
  let n = cfg.n(12_000, 600_000);
  super::thr::systematic_families(cfg, rep, 0xC05A, &[9, 9, 9], &|_, _| {}, &|o, s| super::thr::flatten_oracle(o, s));
  super::thr::campaign(cfg, rep, "thr", n, 0xC05F, &mut |r: &mut Rng| super::thr::random_scen(r, 9), &|o, s| super::thr::flatten_oracle(o, s));

  // mixed battery: cold, hot AND timed (interval.take / timer) inners on the virtual clock,
  // judged by invariants read off the tracked inners (conservation, per-inner order, limit, completion)
  let total = cfg.n(200_000, 4_000_000);
  let mut rng = Rng::new(cfg.seed ^ 0xC05B);
  for i in 0..total {
    let mut r = rng.fork();
    if !cfg.mine(i) {
      continue;
    }
    let id = format!("mixed:{}", i);
    if !cfg.wants(&id) {
      continue;
    }
    mixed_case(cfg, rep, &id, &mut r, kmax);
  }
}

fn mixed_case(_cfg: &Cfg, rep: &mut Report, id: &str, r: &mut Rng, kmax: usize) {
  use super::common::*;
  use crate::gen::Pipe;
  use crate::vtime::MS;
  let k = 1 + r.below(kmax);
  let flavor = [Flavor::Local, Flavor::Threads, Flavor::LocalPool][r.below(3)];
  let sp = match r.below(6) {
    0 | 1 | 2 => Spelling::MergeAll(1 + r.below(k + 1)),
    3 => Spelling::ConcatAll,
    4 => Spelling::FlatMap,
    _ => Spelling::ConcatMap,
  };
  // inner i: items carry ids (i+1)*100 + n
  let mut table = vec![];
  let mut acts: Vec<TAct> = vec![];
  let mut t = 0u64;
  for i in 0..k {
    let tag = Op::Map(MapF::Add(((i + 1) * 100) as i64));
    let chain = match r.below(4) {
      0 => Chain::new(Src::Interval([1, 2, 5][r.below(3)]), vec![Op::Take(1 + r.below(3)), tag, Op::Spy(SPY_BASE + i as u32)]),
      1 => Chain::new(Src::Timer(V::I(0), [0, 1, 4][r.below(3)]), vec![tag, Op::Spy(SPY_BASE + i as u32)]),
      2 => Chain::new(Src::Iter((0..r.below(3) as i64).map(V::I).collect()), vec![tag, Op::Spy(SPY_BASE + i as u32)]),
      _ => {
        // hot inner driven by timed script events
        let mut tt = t;
        for n in 0..r.below(4) {
          tt += [0u64, 1, 3][r.below(3)] * MS;
          acts.push(TAct { t: tt, act: Act::In(i + 1, N::Next(V::I(n as i64))) });
        }
        tt += [1u64, 2, 6][r.below(3)] * MS;
        acts.push(TAct { t: tt, act: Act::In(i + 1, N::Complete) });
        Chain::new(Src::Hot(i + 1), vec![tag, Op::Spy(SPY_BASE + i as u32)])
      }
    };
    table.push(chain);
    t += [0u64, 1, 2][r.below(3)] * MS;
    acts.push(TAct { t, act: Act::In(0, N::Next(V::I(i as i64))) });
  }
  let outer_completes = r.chance(4, 5);
  if outer_completes {
    t += [0u64, 1, 5][r.below(3)] * MS;
    acts.push(TAct { t, act: Act::In(0, N::Complete) });
  }
  acts.sort_by_key(|a| a.t);
  let op = match sp {
    Spelling::MergeAll(n) => Op::MergeAll(n, table),
    Spelling::ConcatAll => Op::ConcatAll(table),
    Spelling::FlatMap => Op::FlatMap(table),
    _ => Op::ConcatMap(table),
  };
  let pipe = Pipe { chain: Chain::new(Src::Hot(0), vec![op]), n_hot: k + 1, acts, horizon: 400 * MS };
  let policy = if flavor == Flavor::LocalPool || r.chance(1, 2) { Policy::Fifo } else { Policy::Any };
  let late = r.chance(1, 3);
  rep.evaluations += 1;
  let fl = if flavor == Flavor::Threads { "_threads" } else { "" };
  rep.set("operators_covered", &format!("{}{}", sp.name(), fl));
  let out = run_pipe(flavor, &pipe, policy, late, r.next(), &mut |_, _, _| {});
  let run = match out {
    Err(p) => {
      let kind = if p.starts_with(crate::conc::SELF_DEADLOCK) { "deadlock" } else { "panic" };
      rep.violation(kind, &format!("{}{}[timed]", sp.name(), fl), id, json!({"chain": pipe.chain.show(), "panic": p}));
      return;
    }
    Ok(r) => r,
  };
  rep.events += run.evs.len() as u64;
  rep.count("mixed_cases_with_timed_inners", 1);
  let outv = notes_of(&run.evs, 1);
  // what the tracked inners delivered to the operator, in log order, and their life cycle
  let mut inner_items: Vec<i64> = vec![];
  let mut live: std::collections::HashSet<u32> = Default::default();
  let (mut max_live, mut subs, mut completed) = (0usize, 0usize, 0usize);
  for e in &run.evs {
    if e.id >= SPY_BASE * 1000 {
      match &e.k {
        K::Subscribed => {
          live.insert(e.id);
          subs += 1;
        }
        K::N(N::Next(v)) => inner_items.push(v.int()),
        K::N(N::Complete) => {
          live.remove(&e.id);
          completed += 1;
        }
        K::N(N::Err(_)) | K::UnsubCall => {
          live.remove(&e.id);
        }
        _ => {}
      }
      max_live = max_live.max(live.len());
    }
  }
  let got: Vec<i64> = outv.iter().filter_map(|n| if let N::Next(v) = n { Some(v.int()) } else { None }).collect();
  let mut verdict: Option<(&str, String)> = None;
  if max_live > sp.limit() {
    verdict = Some(("limit_exceeded", format!("{} inners live at once, limit {}", max_live, sp.limit())));
  } else if got != inner_items {
    // every inner item exactly once, in the order the inners produced them
    let mut a = got.clone();
    a.sort();
    let mut b = inner_items.clone();
    b.sort();
    verdict = Some((if a == b { "wrong_order" } else if a.len() < b.len() { "lost_item" } else { "wrong_items" }, format!("delivered {:?}, the inners produced {:?}", got, inner_items)));
  } else if outer_completes && subs == k && completed == k && outv.last() != Some(&N::Complete) {
    verdict = Some(("completion_missing", "outer and all inners completed, the output did not".into()));
  } else if outv.last() == Some(&N::Complete) && (!outer_completes || completed < subs || subs < k) {
    verdict = Some(("completion_early", format!("output completed with {} of {} inners subscribed, {} completed, outer completes: {}", subs, k, completed, outer_completes)));
  }
  if max_live >= 2 || subs > 1 {
    rep.nontrivial.insert(hash64(&pipe));
  }
  if let Some((kind, why)) = verdict {
    rep.violation(kind, &format!("{}{}[timed]", sp.name(), fl), id, json!({"chain": pipe.chain.show(), "acts": format!("{:?}", pipe.acts), "why": why, "observed": jn(&outv)}));
  }
}
