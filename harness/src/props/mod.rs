pub mod c03;

use crate::report::{Cfg, Report};

pub fn run(cfg: &Cfg, rep: &mut Report) -> bool {
  match cfg.prop.as_str() {
    "C03" => c03::run(cfg, rep),
    _ => return false,
  }
  true
}
