pub mod c01;
pub mod c02;
pub mod c03;
pub mod c05;
pub mod c06;
pub mod c07;
pub mod c08;
pub mod c09;
pub mod c10;
pub mod c11;
pub mod c12;
pub mod c13;
pub mod c14;
pub mod c15;
pub mod c16;
pub mod c17;
pub mod c18;
pub mod c19;
pub mod c20;
pub mod common;
pub mod thr;
pub mod c04;

use crate::report::{Cfg, Report};

pub fn run(cfg: &Cfg, rep: &mut Report) -> bool {
  match cfg.prop.as_str() {
    "C01" => c01::run(cfg, rep),
    "C02" => c02::run(cfg, rep),
    "C03" => c03::run(cfg, rep),
    "C05" => c05::run(cfg, rep),
    "C06" => c06::run(cfg, rep),
    "C07" => c07::run(cfg, rep),
    "C08" => c08::run(cfg, rep),
    "C09" => c09::run(cfg, rep),
    "C10" => c10::run(cfg, rep),
    "C11" => c11::run(cfg, rep),
    "C12" => c12::run(cfg, rep),
    "C13" => c13::run(cfg, rep),
    "C14" => c14::run(cfg, rep),
    "C15" => c15::run(cfg, rep),
    "C16" => c16::run(cfg, rep),
    "C17" => c17::run(cfg, rep),
    "C18" => c18::run(cfg, rep),
    "C19" => c19::run(cfg, rep),
    "C20" => c20::run(cfg, rep),
    "C04" => c04::run(cfg, rep),
    _ => return false,
  }
  true
}
pub mod cross;
