//! C14 — conversions and completion status report the real outcome and never hang.
use crate::log::*;
use crate::report::{Cfg, Report};
use crate::value::*;
use futures::task::{waker, ArcWake};
use futures::{Future, Stream};
use rxrust::ops::complete_status::CompleteStatus;
use rxrust::ops::future::ObservableError;
use rxrust::prelude::*;
use serde_json::json;
use std::pin::Pin;
use std::sync::atomic::{AtomicUsize, Ordering};
use std::sync::Arc;
use std::task::{Context, Poll};
use std::time::Duration;

struct CountWaker(AtomicUsize);
impl ArcWake for CountWaker {
  fn wake_by_ref(a: &Arc<Self>) {
    a.0.fetch_add(1, Ordering::SeqCst);
  }
}

#[derive(Clone, Debug, PartialEq, Eq, Hash)]
pub enum Step {
  Ev(N),
  Poll,
}

#[derive(Clone, Copy, Debug, PartialEq, Eq, Hash)]
pub enum Conv {
  Future,
  Stream,
  Status,
}

#[derive(Clone, Debug, PartialEq, Eq, Hash)]
pub struct Case {
  pub conv: Conv,
  pub steps: Vec<Step>,
  pub threads: bool,
  /// another subscriber of the same subject, subscribed before the conversion:
  /// 0 none, 1 unsubscribed at once (a closed entry ahead of the conversion), 2 stays,
  /// 3 stays and the program calls the public `retain()` of the subject before every emission
  pub bystander: u8,
  /// the conversion hangs on `subject.share()` / `share_threads()` instead of the subject itself;
  /// an earlier `take(1)` subscriber of the share has already been served and has finished
  pub via_share: bool,
  /// the conversion is attached to a cold synchronous source that plays the whole script at subscription
  pub cold: bool,
}

fn script_of(c: &Case) -> Vec<N> {
  crate::model::well_formed(c.steps.iter().filter_map(|s| if let Step::Ev(n) = s { Some(n.clone()) } else { None }).collect())
}

#[derive(Debug, Clone, PartialEq)]
pub enum FOut {
  Pending,
  Value(V),
  Error(E),
  Empty,
  Multiple,
}

pub struct Obs {
  /// (step index, result of the poll)
  pub polls: Vec<(usize, String)>,
  pub violation: Option<(String, String)>,
  pub pending_before_terminal: bool,
  pub events: usize,
}

fn inject<S: Observer<V, E> + Clone>(s: &mut S, n: &N) {
  match n {
    N::Next(v) => s.next(v.clone()),
    N::Err(e) => s.clone().error(*e),
    N::Complete => s.clone().complete(),
  }
}

macro_rules! drive {
  ($subj:ty, $boxty:ty, $share:ident, $subscriber:ident, $c:expr) => {{
    let c: &Case = $c;
    let mut subj = <$subj>::default();
    let _bystander = match c.bystander {
      0 => None,
      1 => {
        subj.clone().actual_subscribe(Probe::new(900, &Log::new())).unsubscribe();
        None
      }
      _ => Some(subj.clone().actual_subscribe(Probe::new(900, &Log::new()))),
    };
    // what the conversion is attached to: the subject itself, or a share of it whose first
    // subscriber (take(1)) has been served by one item and is finished
    let script = script_of(c);
    let conv_src: $boxty = if c.cold {
      // a cold synchronous source: the whole script is delivered inside the conversion's own
      // subscription, before the first poll
      let sc = script.clone();
      create(move |mut s: $subscriber<_>| {
        for n in sc.iter() {
          match n {
            N::Next(v) => s.next(v.clone()),
            N::Err(e) => {
              s.error(*e);
              return;
            }
            N::Complete => {
              s.complete();
              return;
            }
          }
        }
      })
      .box_it()
    } else if c.via_share {
      let b: $boxty = subj.clone().box_it();
      let sh = b.$share();
      if c.steps.len() % 2 == 0 {
        // ... or a sibling that came and went before the first item
        sh.clone().actual_subscribe(Probe::new(901, &Log::new())).unsubscribe();
      } else {
        std::mem::forget(sh.clone().take(1).actual_subscribe(Probe::new(901, &Log::new())));
        subj.next(V::I(-1));
      }
      sh.box_it()
    } else {
      subj.clone().box_it()
    };
    // cold: only the polls remain as steps, numbered from 1, and the terminal (if any) lies before all of them
    let off = if c.cold { 1 } else { 0 };
    let steps: Vec<Step> = if c.cold { c.steps.iter().filter(|s| matches!(s, Step::Poll)).cloned().collect() } else { c.steps.clone() };
    let term_pos = if c.cold { script.last().filter(|n| n.is_terminal()).map(|_| 0usize) } else { c.steps.iter().position(|s| matches!(s, Step::Ev(n) if n.is_terminal())) };
    // every poll uses a waker of its own (a future that moves between tasks is polled with
    // different wakers); the one handed over by the most recent pending poll is the one owed a wake-up
    let wakers: std::rc::Rc<std::cell::RefCell<Vec<Arc<CountWaker>>>> = Default::default();
    let woken_total = |ws: &std::rc::Rc<std::cell::RefCell<Vec<Arc<CountWaker>>>>| -> usize { ws.borrow().last().map_or(0, |w| w.0.load(Ordering::SeqCst)) };
    let mut polls: Vec<(usize, String)> = vec![];
    let mut violation: Option<(String, String)> = None;
    let mut pending_before_terminal = false;
    let items: Vec<V> = script.iter().filter_map(|n| if let N::Next(v) = n { Some(v.clone()) } else { None }).collect();
    let terminal = script.last().filter(|n| n.is_terminal()).cloned();
    match c.conv {
      Conv::Future => {
        let mut fut = Box::pin(conv_src.to_future());
        let mut resolved: Option<FOut> = None;
        let mut wakes_at_pending = 0usize;
        let mut last_pending = false;
        let mut do_poll = |i: usize, fut: &mut Pin<Box<rxrust::ops::future::ObservableFuture<V, E>>>, resolved: &mut Option<FOut>, polls: &mut Vec<(usize, String)>| -> FOut {
          if resolved.is_some() {
            return resolved.clone().unwrap();
          }
          let cwn = Arc::new(CountWaker(AtomicUsize::new(0)));
          let w = waker(cwn.clone());
          let mut cx = Context::from_waker(&w);
          wakers.borrow_mut().push(cwn);
          let r = match Future::poll(fut.as_mut(), &mut cx) {
            Poll::Pending => FOut::Pending,
            Poll::Ready(Ok(Ok(v))) => FOut::Value(v),
            Poll::Ready(Ok(Err(e))) => FOut::Error(e),
            Poll::Ready(Err(ObservableError::Empty)) => FOut::Empty,
            Poll::Ready(Err(ObservableError::MultipleValues)) => FOut::Multiple,
          };
          polls.push((i, format!("{:?}", r)));
          if r != FOut::Pending {
            *resolved = Some(r.clone());
          }
          r
        };
        for (i, st) in steps.iter().enumerate() {
          let i = i + off;
          match st {
            Step::Ev(n) => {
              if c.bystander == 3 {
                subj.retain();
              }
              inject(&mut subj, n)
            }
            Step::Poll => {
              let r = do_poll(i, &mut fut, &mut resolved, &mut polls);
              let terminated = term_pos.map_or(false, |t| t < i);
              if r == FOut::Pending {
                if !terminated {
                  pending_before_terminal = true;
                  last_pending = true;
                  wakes_at_pending = woken_total(&wakers);
                }
              } else if !terminated {
                violation = Some(("resolved_before_terminal".into(), format!("poll at step {} returned {:?} before the source terminated", i, r)));
              }
            }
          }
        }
        if terminal.is_some() && violation.is_none() {
          // a poll that returned Pending before the terminal must have been woken by it
          if last_pending && resolved.is_none() && woken_total(&wakers) == wakes_at_pending {
            violation = Some(("lost_wakeup".into(), "the future was pending, the source terminated, and the registered waker was never woken".into()));
          }
          // ready within two polls after termination
          let mut r = do_poll(usize::MAX, &mut fut, &mut resolved, &mut polls);
          if r == FOut::Pending {
            r = do_poll(usize::MAX, &mut fut, &mut resolved, &mut polls);
          }
          let want: Vec<FOut> = match (&terminal, items.len()) {
            (Some(N::Complete), 0) => vec![FOut::Empty],
            (Some(N::Complete), 1) => vec![FOut::Value(items[0].clone())],
            (Some(N::Complete), _) => vec![FOut::Multiple],
            (Some(N::Err(e)), 0) => vec![FOut::Error(*e)],
            // items then error: the documentation fixes only the pure cases
            (Some(N::Err(e)), _) => vec![FOut::Error(*e), FOut::Multiple],
            _ => vec![],
          };
          if violation.is_none() {
            if r == FOut::Pending {
              violation = Some(("not_ready_after_terminal".into(), format!("to_future() still pending two polls after the source terminated with {:?}", terminal)));
            } else if !want.contains(&r) {
              violation = Some(("wrong_outcome".into(), format!("to_future() resolved to {:?}, expected one of {:?}", r, want)));
            }
          }
        }
      }
      Conv::Stream => {
        let mut st = Box::pin(conv_src.to_stream());
        let mut got: Vec<N> = vec![];
        let mut ended = false;
        let mut poll_one = |i: usize, st: &mut Pin<Box<rxrust::ops::stream::ObservableStream<V, E>>>, got: &mut Vec<N>, ended: &mut bool, polls: &mut Vec<(usize, String)>| -> bool {
          if *ended {
            return true;
          }
          let cwn = Arc::new(CountWaker(AtomicUsize::new(0)));
          let w = waker(cwn.clone());
          let mut cx = Context::from_waker(&w);
          wakers.borrow_mut().push(cwn);
          match Stream::poll_next(st.as_mut(), &mut cx) {
            Poll::Pending => {
              polls.push((i, "Pending".into()));
              false
            }
            Poll::Ready(Some(Ok(v))) => {
              polls.push((i, format!("Item({:?})", v)));
              got.push(N::Next(v));
              true
            }
            Poll::Ready(Some(Err(e))) => {
              polls.push((i, format!("Err({})", e)));
              got.push(N::Err(e));
              true
            }
            Poll::Ready(None) => {
              polls.push((i, "End".into()));
              *ended = true;
              true
            }
          }
        };
        let mut last_pending_wakes: Option<usize> = None;
        for (i, s) in steps.iter().enumerate() {
          let i = i + off;
          match s {
            Step::Ev(n) => {
              if c.bystander == 3 {
                subj.retain();
              }
              inject(&mut subj, n)
            }
            Step::Poll => {
              let ready = poll_one(i, &mut st, &mut got, &mut ended, &mut polls);
              if !ready {
                pending_before_terminal = term_pos.map_or(true, |t| t > i) || pending_before_terminal;
                last_pending_wakes = Some(woken_total(&wakers));
              } else {
                last_pending_wakes = None;
              }
            }
          }
        }
        if terminal.is_some() {
          if let Some(wk) = last_pending_wakes {
            if woken_total(&wakers) == wk && got.len() < script.len() {
              violation = Some(("lost_wakeup".into(), "the stream was pending, more notifications arrived, and the waker was never woken".into()));
            }
          }
          // drain: everything, then the end, without ever staying pending
          let mut budget = script.len() + 4;
          while !ended && budget > 0 {
            let ready = poll_one(usize::MAX, &mut st, &mut got, &mut ended, &mut polls);
            if !ready {
              let again = poll_one(usize::MAX, &mut st, &mut got, &mut ended, &mut polls);
              if !again {
                break;
              }
            }
            budget -= 1;
          }
          // the stream yields the items and the error, in order, then ends
          let want: Vec<N> = script.iter().filter(|n| !matches!(n, N::Complete)).cloned().collect();
          if violation.is_none() {
            if got != want {
              violation = Some(("wrong_outcome".into(), format!("to_stream() yielded {:?}, expected {:?}", got, want)));
            } else if !ended {
              violation = Some(("not_ready_after_terminal".into(), format!("to_stream() is pending instead of ending after the source terminated with {:?}", terminal)));
            }
          }
        } else if got.len() > items.len() || got.iter().zip(items.iter()).any(|(g, i)| *g != N::Next(i.clone())) {
          violation = Some(("wrong_outcome".into(), format!("to_stream() yielded {:?} of source items {:?}", got, items)));
        }
      }
      Conv::Status => {
        let log = Log::new();
        let (o, status) = conv_src.complete_status();
        o.actual_subscribe(Probe::new(1, &log));
        let check = |status: &Arc<CompleteStatus>, seen: &[N]| -> Option<String> {
          let t = seen.iter().find(|n| n.is_terminal());
          let (closed, completed, errored) = (status.is_closed(), status.is_completed(), status.error_occur());
          let want = match t {
            Some(N::Complete) => (true, true, false),
            Some(N::Err(_)) => (true, false, true),
            _ => (false, false, false),
          };
          if (closed, completed, errored) != want {
            Some(format!("is_closed={} is_completed={} error_occur={} but the subscriber saw {:?}", closed, completed, errored, t))
          } else {
            None
          }
        };
        let mut injected: Vec<N> = if c.cold { script.clone() } else { vec![] };
        for (i, s) in steps.iter().enumerate() {
          let i = i + off;
          match s {
            Step::Ev(n) => {
              if c.bystander == 3 {
                subj.retain();
              }
              inject(&mut subj, n);
              injected.push(n.clone());
            }
            Step::Poll => {
              polls.push((i, format!("closed={}", status.is_closed())));
            }
          }
          if let Some(w) = check(&status, &log.notes(1)) {
            if violation.is_none() {
              violation = Some(("wrong_status".into(), w));
            }
          }
          // ... and with what the source was told (its calls have returned)
          if let Some(w) = check(&status, &injected) {
            if violation.is_none() {
              violation = Some(("wrong_status".into(), format!("{} (the source's calls so far: {:?})", w.replace("the subscriber saw", "the source did"), injected)));
            }
          }
        }
        if terminal.is_some() && violation.is_none() {
          // the source has terminated: wait_for_end must return
          CompleteStatus::wait_for_end(status.clone());
          polls.push((usize::MAX, "wait_for_end returned".into()));
        }
      }
    }
    Obs { polls, violation, pending_before_terminal, events: c.steps.len() }
  }};
}

pub fn observe(c: &Case) -> Result<Obs, String> {
  catch(|| if c.threads { drive!(SubjectThreads<V, E>, rxrust::ops::box_it::BoxOpThreads<V, E>, share_threads, SubscriberThreads, c) } else { drive!(Subject<'static, V, E>, rxrust::ops::box_it::BoxOp<'static, V, E>, share, Subscriber, c) })
}

// --------------------------------------------------------------------------
// gate: one waiting thread in wait_for_end vs the producing thread
// --------------------------------------------------------------------------

#[derive(Clone, Copy, Debug, PartialEq, Eq, Hash)]
pub enum Placement {
  BeforeCheck,
  InsideWindow,
  AfterRegistration,
}

/// Ok(returned?) plus whether the logical witness (terminal completed while
/// the waiter sat between its flag check and its waker registration) exists
pub fn gate_case(pl: Placement, error: bool) -> (Option<bool>, bool, String) {
  use crate::conc::*;
  let mut subj = SubjectThreads::<V, E>::default();
  let (o, status) = subj.clone().complete_status();
  let log = Log::new();
  o.actual_subscribe(Probe::new(1, &log));
  let finish = |s: &mut SubjectThreads<V, E>| {
    if error {
      s.clone().error(7)
    } else {
      s.clone().complete()
    }
  };
  let (tx, rx) = std::sync::mpsc::channel::<()>();
  let mut witness = false;
  match pl {
    Placement::BeforeCheck => {
      finish(&mut subj);
      let st = status.clone();
      std::thread::spawn(move || {
        CompleteStatus::wait_for_end(st);
        let _ = tx.send(());
      });
    }
    Placement::InsideWindow => {
      gate_arm();
      let st = status.clone();
      std::thread::spawn(move || {
        CompleteStatus::wait_for_end(st);
        let _ = tx.send(());
      });
      if !gate_wait_inside(Duration::from_secs(10)) {
        gate_disarm();
        return (None, false, "the waiter never reached the check/register window".into());
      }
      // the waiter has seen flag == 0 and has not registered its waker yet
      finish(&mut subj);
      witness = true;
      gate_release();
    }
    Placement::AfterRegistration => {
      gate_arm();
      let st = status.clone();
      std::thread::spawn(move || {
        CompleteStatus::wait_for_end(st);
        let _ = tx.send(());
      });
      if !gate_wait_inside(Duration::from_secs(10)) {
        gate_disarm();
        return (None, false, "the waiter never reached the hooked point of its first poll".into());
      }
      // let the waiter finish its first poll (flag still 0) and park, then terminate the source:
      // whichever of the two comes first, a terminated source must let wait_for_end return
      gate_release();
      std::thread::sleep(Duration::from_millis(2));
      finish(&mut subj);
      witness = true;
    }
  }
  let returned = rx.recv_timeout(Duration::from_secs(if witness { 20 } else { 60 })).is_ok();
  let flags = format!("is_closed={} is_completed={} error_occur={}", status.is_closed(), status.is_completed(), status.error_occur());
  (Some(returned), witness, flags)
}

pub fn random_case(r: &mut Rng, max_items: usize) -> Case {
  let conv = [Conv::Future, Conv::Stream, Conv::Status][r.below(3)];
  let n = r.below(max_items + 1);
  let mut evs: Vec<N> = (0..n).map(|i| N::Next(V::I(10 + i as i64))).collect();
  match r.below(5) {
    0 => {}
    1 | 2 => evs.push(N::Err(7)),
    _ => evs.push(N::Complete),
  }
  if r.chance(1, 4) && evs.last().map_or(false, |n| n.is_terminal()) {
    evs.push(N::Next(V::I(99)));
  }
  // polls before, between and after the events
  let mut steps = vec![];
  for e in evs {
    for _ in 0..[0, 0, 1, 2][r.below(4)] {
      steps.push(Step::Poll);
    }
    steps.push(Step::Ev(e));
  }
  for _ in 0..r.below(3) {
    steps.push(Step::Poll);
  }
  Case { conv, steps, threads: r.chance(1, 2), bystander: [0, 0, 1, 2, 3][r.below(5)], via_share: r.chance(1, 4), cold: r.chance(1, 6) }
}

pub fn run(cfg: &Cfg, rep: &mut Report) {
  // gate scenarios: 3 placements x {complete, error}, repeated
  if cfg.only_case.is_none() || cfg.only_case.as_deref().map_or(false, |c| c.starts_with("gate")) {
    let reps = cfg.n(3, 20);
    let mut k = 0;
    for rpt in 0..reps {
      for pl in [Placement::BeforeCheck, Placement::InsideWindow, Placement::AfterRegistration] {
        for error in [false, true] {
          k += 1;
          if !cfg.mine(k) {
            continue;
          }
          let id = format!("gate:{:?}:{}:{}", pl, if error { "error" } else { "complete" }, rpt);
          if !cfg.wants(&id) {
            continue;
          }
          rep.evaluations += 1;
          let (ret, witness, flags) = gate_case(pl, error);
          rep.events += 1;
          rep.count("gate_scenarios", 1);
          match ret {
            None => rep.inconclusive.push(format!("{}: {}", id, flags)),
            Some(true) => {
              if witness {
                rep.count("gate_terminal_inside_window_and_returned", 1);
              }
              rep.nontrivial.insert(hash64(&(format!("{:?}", pl), error)));
            }
            Some(false) => {
              if witness || pl == Placement::BeforeCheck {
                rep.violation(
                  "wait_for_end_hangs",
                  &format!("complete_status[{:?}]", pl).to_lowercase(),
                  &id,
                  json!({"placement": format!("{:?}", pl), "terminal": if error { "error" } else { "complete" }, "flags": flags,
                         "why": "the source terminated (flags above) while the waiter was between its flag check and its waker registration; wait_for_end did not return within 20s"}),
                );
              } else {
                rep.inconclusive.push(format!("{}: waiter did not return and no logical witness exists ({})", id, flags));
              }
            }
          }
        }
      }
    }
  }
  let total = cfg.n(500_000, 40_000_000);
  let maxi = cfg.n(4, 6);
  let mut rng = Rng::new(cfg.seed ^ 0xC14);
  for i in 0..total {
    let mut r = rng.fork();
    if !cfg.mine(i) {
      continue;
    }
    let id = format!("conv:{}", i);
    if !cfg.wants(&id) {
      continue;
    }
    let c = random_case(&mut r, maxi);
    rep.evaluations += 1;
    let o = observe(&c);
    rep.set("conversions_covered", &format!("{:?}", c.conv));
    if c.via_share && !c.cold {
      rep.count("conversions_attached_through_a_share", 1);
    }
    if c.cold {
      rep.count("conversions_of_a_cold_synchronous_source", 1);
    }
    let script = script_of(&c);
    let term = script.last().filter(|n| n.is_terminal()).cloned();
    match &o {
      Err(p) => rep.violation("panic", &format!("{:?}", c.conv).to_lowercase(), &id, json!({"case": format!("{:?}", c), "panic": p})),
      Ok(obs) => {
        rep.events += obs.events as u64 + obs.polls.len() as u64;
        if (term.is_some() && obs.pending_before_terminal) || matches!(term, Some(N::Err(_))) {
          rep.nontrivial.insert(hash64(&c));
        }
        if let Some((kind, why)) = &obs.violation {
          let cls = match (&term, script.len()) {
            (Some(N::Err(_)), 1) => "error-only",
            (Some(N::Err(_)), _) => "items-then-error",
            (Some(N::Complete), _) => "complete",
            _ => "unterminated",
          };
          let name = match c.conv {
            Conv::Future => "to_future",
            Conv::Stream => "to_stream",
            Conv::Status => "complete_status",
          };
          rep.violation(kind, &format!("{}[{}]", name, cls), &id, json!({"case": format!("{:?}", c), "why": why, "polls": format!("{:?}", obs.polls)}));
        } else {
          rep.sample_some(9011, || json!({"case": id, "conversion": format!("{:?}", c.conv), "steps": format!("{:?}", c.steps), "polls": format!("{:?}", obs.polls)}));
        }
      }
    }
  }

  // complete_status ABOVE an early terminator, over a `create` source (which delivers its
  // terminal through its shared subscriber even when everything below has finished)
  if cfg.only_case.is_none() || cfg.only_case.as_deref().map_or(false, |c| c.starts_with("above")) {
    let mut idx = 0usize;
    for threads in [false, true] {
      for below in 0..6u8 {
        // 3..5: the same with collect() above the status
        let (collect, below) = (below >= 3, below % 3);
        for items in 0..4usize {
          for terminal in 0..3u8 {
            idx += 1;
            if !cfg.mine(idx) {
              continue;
            }
            let id = format!("above:{}", idx);
            if !cfg.wants(&id) {
              continue;
            }
            rep.evaluations += 1;
            rep.count("status_above_an_early_terminator_cases", 1);
            rep.events += items as u64 + 1;
            if items >= 1 && terminal > 0 {
              rep.nontrivial.insert(hash64(&("above", threads, collect, below, items, terminal)));
            }
            let term_name = ["none", "complete", "error"][terminal as usize];
            if let Some(why) = status_above(threads, collect, below, items, terminal) {
              rep.violation("wrong_status", &format!("complete_status[{}above {}]", if collect { "below collect, " } else { "" }, ["take(0)", "take(1)", "take(2)"][below as usize]), &id, json!({"threads_form": threads, "collect_above_the_status": collect, "items": items, "terminal": term_name, "why": why}));
            }
          }
        }
      }
    }
  }

  // two-thread free-running part: a real waiter thread blocks on the future /
  // stream / status while the producer thread emits (true parallelism, seeded jitter)
  if cfg.only_case.is_none() || cfg.only_case.as_deref().map_or(false, |c| c.starts_with("race")) {
    let n = cfg.n(3_000, 300_000);
    let mut rng = Rng::new(cfg.seed ^ 0xC14F);
    let mut hung = 0;
    for i in 0..n {
      let mut r = rng.fork();
      if !cfg.mine(i) {
        continue;
      }
      let id = format!("race:{}", i);
      if !cfg.wants(&id) || hung >= 2 {
        continue;
      }
      rep.evaluations += 1;
      rep.count("two_thread_races", 1);
      if let Some((kind, locus, detail, was_hang)) = race_case(&mut r) {
        if was_hang {
          hung += 1;
        }
        rep.violation(&kind, &locus, &id, detail);
      } else {
        rep.nontrivial.insert(hash64(&("race", i)));
      }
      rep.events += 4;
    }
  }
}

fn jitter(r: &mut Rng) {
  match r.below(6) {
    0 => std::thread::yield_now(),
    1 => std::thread::sleep(Duration::from_micros(r.below(80) as u64)),
    2 => {
      for _ in 0..r.below(400) {
        std::hint::spin_loop()
      }
    }
    _ => {}
  }
}

/// (kind, locus, detail, hang?)
fn race_case(r: &mut Rng) -> Option<(String, String, serde_json::Value, bool)> {
  use futures::executor::block_on;
  use futures::StreamExt;
  use std::sync::mpsc::channel;
  let conv = [Conv::Future, Conv::Stream, Conv::Status][r.below(3)];
  // one stream case in six is a long one: hundreds of items are ready back to back
  let long = conv == Conv::Stream && r.chance(1, 6);
  let n_items = if long { [130usize, 300, 700][r.below(3)] } else { r.below(4) };
  // a thread may hold a stale unpark token (an earlier block_on on the same thread, a
  // spurious wake-up): half of the waiters are given one before they wait
  let stale_token = r.chance(1, 2);
  let error = r.chance(1, 3);
  let mut subj = SubjectThreads::<V, E>::default();
  if r.chance(1, 4) {
    // a closed entry ahead of the conversion in the subject's list
    subj.clone().actual_subscribe(Probe::new(900, &Log::new())).unsubscribe();
  }
  let prev = crate::conc::mode();
  crate::conc::set_mode(if r.chance(1, 2) { crate::conc::FREE } else { crate::conc::OFF });
  let items: Vec<V> = (0..n_items).map(|i| V::I(10 + i as i64)).collect();
  let (tx, rx) = channel::<String>();
  let name;
  match conv {
    Conv::Future => {
      name = "to_future";
      let fut = subj.clone().to_future();
      std::thread::spawn(move || {
        if stale_token {
          std::thread::current().unpark();
        }
        let res = block_on(fut);
        let _ = tx.send(match res {
          Ok(Ok(v)) => format!("value:{}", v.int()),
          Ok(Err(e)) => format!("error:{}", e),
          Err(ObservableError::Empty) => "empty".into(),
          Err(ObservableError::MultipleValues) => "multiple".into(),
        });
      });
    }
    Conv::Stream if r.chance(1, 2) => {
      // busy-polling consumer: polls land inside the producer's calls
      name = "to_stream";
      let mut st = Box::pin(subj.clone().to_stream());
      std::thread::spawn(move || {
        let cw = Arc::new(CountWaker(AtomicUsize::new(0)));
        let w = waker(cw.clone());
        let mut cx = Context::from_waker(&w);
        let mut all: Vec<String> = vec![];
        let t0 = std::time::Instant::now();
        loop {
          match Stream::poll_next(st.as_mut(), &mut cx) {
            Poll::Ready(Some(Ok(v))) => all.push(format!("{}", v.int())),
            Poll::Ready(Some(Err(e))) => all.push(format!("e{}", e)),
            Poll::Ready(None) => break,
            Poll::Pending => {
              if t0.elapsed() > Duration::from_secs(25) {
                return; // the main thread reports the hang
              }
              std::hint::spin_loop();
            }
          }
        }
        let _ = tx.send(all.join(","));
      });
    }
    Conv::Stream => {
      name = "to_stream";
      let st = subj.clone().to_stream();
      std::thread::spawn(move || {
        if stale_token {
          std::thread::current().unpark();
        }
        let all: Vec<Result<V, E>> = block_on(st.collect::<Vec<_>>());
        let _ = tx.send(
          all
            .iter()
            .map(|x| match x {
              Ok(v) => format!("{}", v.int()),
              Err(e) => format!("e{}", e),
            })
            .collect::<Vec<_>>()
            .join(","),
        );
      });
    }
    Conv::Status => {
      name = "complete_status";
      let (o, status) = subj.clone().complete_status();
      o.actual_subscribe(Probe::new(1, &Log::new()));
      std::thread::spawn(move || {
        if stale_token {
          std::thread::current().unpark();
        }
        CompleteStatus::wait_for_end(status.clone());
        let _ = tx.send(format!("closed={} completed={} error={}", status.is_closed(), status.is_completed(), status.error_occur()));
      });
    }
  }
  jitter(r);
  for v in &items {
    subj.next(v.clone());
    if !long {
      jitter(r);
    }
  }
  if error {
    subj.clone().error(7)
  } else {
    subj.clone().complete()
  }
  // the source has terminated (the call returned): the waiter must come back
  let got = rx.recv_timeout(Duration::from_secs(20));
  crate::conc::set_mode(prev);
  let cls = if error { if n_items == 0 { "error-only" } else { "items-then-error" } } else { "complete" };
  let locus = format!("{}[{}][two-threads]", name, cls);
  match got {
    Err(_) => Some((
      "waiter_never_returned".into(),
      locus,
      json!({"why": format!("the producer emitted {} items and its {} call returned; the waiting thread was still blocked 20 s later", n_items, if error { "error()" } else { "complete()" })}),
      true,
    )),
    Ok(res) => {
      let want: Vec<String> = match conv {
        Conv::Future => match (error, n_items) {
          (false, 0) => vec!["empty".into()],
          (false, 1) => vec!["value:10".into()],
          (false, _) => vec!["multiple".into()],
          (true, 0) => vec!["error:7".into()],
          (true, _) => vec!["error:7".into(), "multiple".into()],
        },
        Conv::Stream => {
          let mut v: Vec<String> = items.iter().map(|x| format!("{}", x.int())).collect();
          if error {
            v.push("e7".into());
          }
          vec![v.join(",")]
        }
        Conv::Status => vec![format!("closed=true completed={} error={}", !error, error)],
      };
      if want.contains(&res) {
        None
      } else {
        Some(("wrong_outcome".into(), locus, json!({"observed": res, "expected_one_of": want}), false))
      }
    }
  }
}

macro_rules! status_above_drive {
  ($subscriber:ident, $boxty:ty, $boxobs:ty, $collect:expr, $cell:expr, $below:expr, $items:expr, $terminal:expr) => {{
    let cell = $cell;
    let c2 = cell.clone();
    let src = create(move |s: $subscriber<$boxobs>| {
      *c2.lock().unwrap() = Some(s);
    });
    // optionally an aggregating stage above the status: collect() hands over its one item and
    // its completion back to back when the source completes
    let src: $boxty = src.box_it();
    let src: $boxty = if $collect { src.collect::<Vec<V>>().map(V::L).box_it() } else { src };
    let (o, status) = src.complete_status();
    let log = Log::new();
    // take(0) is finished from the start, take(1) after the first item, take(2) after the second
    o.take($below as usize).actual_subscribe(Probe::new(1, &log));
    let mut why = None;
    let mut s = cell.lock().unwrap().take().expect("create handed over its subscriber");
    for i in 0..$items {
      s.next(V::I(10 + i as i64));
      if status.is_closed() && why.is_none() {
        why = Some(format!("is_closed() became true after item {} although the source has not terminated", i));
      }
    }
    match $terminal {
      1 => s.clone().complete(),
      2 => s.clone().error(7),
      _ => {}
    }
    let want = match $terminal {
      1 => (true, true, false),
      2 => (true, false, true),
      _ => (false, false, false),
    };
    let got = (status.is_closed(), status.is_completed(), status.error_occur());
    if got != want && why.is_none() {
      why = Some(format!("after the source's terminal call returned: is_closed={} is_completed={} error_occur={}, expected {:?}", got.0, got.1, got.2, want));
    }
    if why.is_none() && $terminal > 0 {
      CompleteStatus::wait_for_end(status.clone());
    }
    why
  }};
}

/// Some(why) when the status above take(1)/first()/take_while disagrees with what the source did
fn status_above(threads: bool, collect: bool, below: u8, items: usize, terminal: u8) -> Option<String> {
  use std::sync::Mutex;
  let r = catch(|| {
    if threads {
      let cell: Arc<Mutex<Option<SubscriberThreads<_>>>> = Arc::new(Mutex::new(None));
      status_above_drive!(SubscriberThreads, rxrust::ops::box_it::BoxOpThreads<V, E>, rxrust::observer::BoxObserverThreads<V, E>, collect, cell, below, items, terminal)
    } else {
      // (the local subscriber is not Send; a Mutex in an Arc is just a cell here)
      #[allow(clippy::arc_with_non_send_sync)]
      let cell: Arc<Mutex<Option<Subscriber<_>>>> = Arc::new(Mutex::new(None));
      status_above_drive!(Subscriber, rxrust::ops::box_it::BoxOp<'static, V, E>, rxrust::observer::BoxObserver<'static, V, E>, collect, cell, below, items, terminal)
    }
  });
  match r {
    Ok(w) => w,
    Err(p) => Some(format!("panic: {}", p)),
  }
}
