//! C12 — BehaviorSubject hands every new subscriber the current value first
//! (sequential histories; the two-producer thread part lives in c10.rs).
use crate::log::*;
use crate::report::{Cfg, Report};
use crate::value::*;
use rxrust::prelude::*;
use serde_json::json;

#[derive(Clone, Debug, PartialEq, Eq, Hash)]
pub enum Hop {
  Next,
  NextBy,
  /// next_by(f) where f itself subscribes a new subscriber before it returns its result
  NextBySub,
  Clone,
  Sub,
  /// subscribe a subscriber whose callback calls peek() while it is handed its FIRST item, i.e.
  /// from inside the replay of the current value that subscribing performs
  SubPeek,
  Unsub(usize),
  Peek,
  /// the next item delivered to subscriber k calls peek() from inside the callback
  ArmPeek(usize),
  /// the next item delivered to subscriber k subscribes a new subscriber from inside the callback
  ArmNested(usize),
  Complete,
  Error,
}

pub struct Out {
  pub seen: Vec<Vec<N>>,
  /// per subscriber: acceptable traces
  pub allowed: Vec<Vec<Vec<N>>>,
  pub problems: Vec<String>,
  pub events: usize,
  pub late_join: bool,
}

macro_rules! exec {
  ($subj:ty, $h:expr) => {{
    let log = Log::new();
    let mut b = BehaviorSubject::<V, $subj>::new(V::I(5));
    let mut clones = vec![b.clone()];
    // model
    let mut cur = V::I(5);
    let armed_peek: std::rc::Rc<std::cell::RefCell<Vec<usize>>> = Default::default();
    let armed_nest: std::rc::Rc<std::cell::RefCell<Vec<usize>>> = Default::default();
    let peek_problems: std::rc::Rc<std::cell::RefCell<Vec<String>>> = Default::default();
    let mut nested_slots: Vec<(usize, usize)> = vec![]; // (armed on k, slot index)
    let mut ever_nested: Vec<usize> = vec![];
    let mut finished = false;
    let mut active: Vec<bool> = vec![];
    let mut allowed: Vec<Vec<Vec<N>>> = vec![];
    let mut unsubs: Vec<Option<Box<dyn FnOnce()>>> = vec![];
    let mut problems = vec![];
    let mut item = 10i64;
    let mut emitted = 0;
    let mut late_join = false;
    for op in $h {
      match op {
        Hop::Next | Hop::NextBy | Hop::NextBySub => {
          let mut joined_in_f: Option<usize> = None;
          let v = if *op == Hop::NextBySub && !finished && unsubs.len() < 5 {
            // the newcomer joins while f is being evaluated: it is handed the value current at
            // that moment and then, like everybody else, f's result
            let id = 1 + unsubs.len() as u32;
            let cell: std::rc::Rc<std::cell::RefCell<Option<Box<dyn FnOnce()>>>> = Default::default();
            let (c2, b2, l2) = (cell.clone(), b.clone(), log.clone());
            Behavior::<V, E>::next_by(&mut b, move |x| {
              let s = b2.clone().actual_subscribe(Probe::new(id, &l2));
              *c2.borrow_mut() = Some(Box::new(move || s.unsubscribe()));
              V::I(x.int() * 2 + 1)
            });
            unsubs.push(cell.borrow_mut().take());
            allowed.push(vec![vec![N::Next(cur.clone())]]);
            active.push(true);
            joined_in_f = Some(unsubs.len() - 1);
            late_join = true;
            V::I(cur.int() * 2 + 1)
          } else if *op == Hop::Next {
            item += 1;
            let v = V::I(item);
            Observer::<V, E>::next(&mut b, v.clone());
            v
          } else {
            // f(most recent value)
            let base = cur.clone();
            Behavior::<V, E>::next_by(&mut b, |x| V::I(x.int() * 2 + 1));
            let _ = base;
            V::I(cur.int() * 2 + 1)
          };
          // the most recent value passed to any clone, terminated or not
          cur = v.clone();
          if !finished {
            emitted += 1;
            let receivers: Vec<usize> = (0..active.len()).filter(|k| active[*k]).collect();
            for k in &receivers {
              for t in allowed[*k].iter_mut() {
                t.push(N::Next(v.clone()));
              }
            }
            // subscribers created from inside a callback of this emission:
            // they get the in-flight value as their "current value", not a second time as an item
            for k in receivers {
              if let Some(pos) = nested_slots.iter().position(|(a, _)| *a == k) {
                let (_, slot) = nested_slots.remove(pos);
                allowed[slot] = vec![vec![N::Next(v.clone())]];
                active[slot] = true;
              }
            }
          }
        }
        Hop::Clone => {
          let c = clones[clones.len() - 1].clone();
          clones.push(c);
          b = clones[clones.len() - 1].clone();
        }
        Hop::Sub | Hop::SubPeek => {
          if unsubs.len() >= 5 {
            continue;
          }
          let id = 1 + unsubs.len() as u32;
          if *op == Hop::SubPeek {
            let (pp, bc) = (peek_problems.clone(), b.clone());
            let fired = std::rc::Rc::new(std::cell::Cell::new(false));
            set_local_cb(
              id,
              std::rc::Rc::new(move |n: &N| {
                if let N::Next(v) = n {
                  if !fired.replace(true) {
                    let p = Behavior::<V, E>::peek(&bc);
                    if p != *v {
                      pp.borrow_mut().push(format!("peek() from inside the replay of {:?} to a new subscriber returned {:?}", v, p));
                    }
                  }
                }
              }),
            );
          }
          let s = b.clone().actual_subscribe(Probe::new(id, &log));
          unsubs.push(Some(Box::new(move || s.unsubscribe())));
          if emitted > 0 {
            late_join = true;
          }
          if finished {
            // joining after a terminal: the most recent value (optionally followed by the terminal replayed)
            allowed.push(vec![vec![N::Next(cur.clone())], vec![N::Next(cur.clone()), N::Complete], vec![N::Next(cur.clone()), N::Err(7)]]);
            active.push(false);
          } else {
            allowed.push(vec![vec![N::Next(cur.clone())]]);
            active.push(true);
          }
        }
        Hop::Unsub(k) => {
          if let Some(Some(u)) = unsubs.get_mut(*k).map(|u| u.take()) {
            u();
            active[*k] = false;
          }
        }
        Hop::Peek => {
          let p = Behavior::<V, E>::peek(&b);
          if p != cur {
            problems.push(format!("peek() returned {:?}, most recent value is {:?}", p, cur));
          }
        }
        Hop::ArmPeek(k) => {
          if *k < unsubs.len() && active[*k] && !armed_peek.borrow().contains(k) && !armed_nest.borrow().contains(k) {
            armed_peek.borrow_mut().push(*k);
            let (ap, pp, bc, kk) = (armed_peek.clone(), peek_problems.clone(), b.clone(), *k);
            set_local_cb(
              1 + *k as u32,
              std::rc::Rc::new(move |n: &N| {
                if let N::Next(v) = n {
                  if ap.borrow().contains(&kk) {
                    ap.borrow_mut().retain(|x| *x != kk);
                    let p = Behavior::<V, E>::peek(&bc);
                    if p != *v {
                      pp.borrow_mut().push(format!("peek() from inside the callback delivering {:?} returned {:?}", v, p));
                    }
                  }
                }
              }),
            );
          }
        }
        Hop::ArmNested(k) => {
          if *k < unsubs.len() && active[*k] && unsubs.len() < 6 && !ever_nested.contains(k) && !armed_peek.borrow().contains(k) {
            ever_nested.push(*k);
            armed_nest.borrow_mut().push(*k);
            // reserve the model slot and probe id now; it becomes active at the next emission
            let slot = unsubs.len();
            let id = 1 + slot as u32;
            unsubs.push(None);
            allowed.push(vec![vec![]]);
            active.push(false);
            nested_slots.push((*k, slot));
            let (an, bc, lg, kk) = (armed_nest.clone(), b.clone(), log.clone(), *k);
            set_local_cb(
              1 + *k as u32,
              std::rc::Rc::new(move |n: &N| {
                if matches!(n, N::Next(_)) && an.borrow().contains(&kk) {
                  an.borrow_mut().retain(|x| *x != kk);
                  std::mem::forget(bc.clone().actual_subscribe(Probe::new(id, &lg)));
                }
              }),
            );
          }
        }
        Hop::Complete | Hop::Error => {
          let n = if *op == Hop::Complete { N::Complete } else { N::Err(7) };
          if !finished {
            for (k, a) in active.iter_mut().enumerate() {
              if *a {
                for t in allowed[k].iter_mut() {
                  t.push(n.clone());
                }
                *a = false;
              }
            }
          }
          finished = true;
          if *op == Hop::Complete {
            Observer::<V, E>::complete(b.clone())
          } else {
            Observer::<V, E>::error(b.clone(), 7)
          }
        }
      }
    }
    problems.extend(peek_problems.borrow().iter().cloned());
    clear_local_cbs();
    let seen: Vec<Vec<N>> = (0..unsubs.len()).map(|k| log.notes(1 + k as u32)).collect();
    Out { seen, allowed, problems, events: log.len() + $h.len(), late_join }
  }};
}

pub fn observe(threads: bool, h: &[Hop]) -> Result<Out, String> {
  clear_local_cbs();
  catch(|| if threads { exec!(SubjectThreads<V, E>, h) } else { exec!(Subject<'static, V, E>, h) })
}

fn judge(o: &Result<Out, String>) -> Option<(String, serde_json::Value)> {
  match o {
    Err(p) => Some(("panic".into(), json!({"panic": p}))),
    Ok(o) => {
      for (k, s) in o.seen.iter().enumerate() {
        if !o.allowed[k].contains(s) {
          let first_ok = match (s.first(), o.allowed[k][0].first()) {
            (a, b) => a == b,
          };
          let kind = if !first_ok { "wrong_first_value" } else if s.len() < o.allowed[k][0].len() { "missed_item" } else { "wrong_items" };
          return Some((kind.into(), json!({"subscriber": k, "saw": jn(s), "allowed": o.allowed[k].iter().map(|t| jn(t)).collect::<Vec<_>>()})));
        }
      }
      o.problems.first().map(|p| ("wrong_peek".to_string(), json!({"why": p})))
    }
  }
}

pub fn run(cfg: &Cfg, rep: &mut Report) {
  let total = cfg.n(800_000, 30_000_000);
  let max_len = cfg.n(10, 24);
  let mut rng = Rng::new(cfg.seed ^ 0xC12);
  for i in 0..total {
    let mut r = rng.fork();
    if !cfg.mine(i) {
      continue;
    }
    let id = format!("beh:{}", i);
    if !cfg.wants(&id) {
      continue;
    }
    let n = 2 + r.below(max_len - 1);
    let h: Vec<Hop> = (0..n)
      .map(|_| match r.below(16) {
        0..=4 => Hop::Next,
        5 => Hop::NextBy,
        6 => if r.chance(1, 2) { Hop::NextBySub } else { Hop::NextBy },
        7 => Hop::Clone,
        8 | 9 => Hop::Sub,
        10 => Hop::SubPeek,
        11 => Hop::Unsub(r.below(3)),
        12 => Hop::Peek,
        13 => match r.below(3) {
          0 => Hop::ArmPeek(r.below(3)),
          1 => Hop::ArmNested(r.below(3)),
          _ => Hop::Peek,
        },
        14 => Hop::Complete,
        _ => Hop::Error,
      })
      .collect();
    let threads = r.chance(1, 2);
    rep.evaluations += 1;
    let o = observe(threads, &h);
    rep.set("subject_types_covered", if threads { "SubjectThreads" } else { "Subject" });
    if let Ok(out) = &o {
      rep.events += out.events as u64;
      if out.late_join {
        rep.nontrivial.insert(hash64(&(threads, &h)));
      }
    }
    if let Some((kind, detail)) = judge(&o) {
      let mut cur = h.clone();
      let mut j = 0;
      while j < cur.len() {
        let mut cand = cur.clone();
        cand.remove(j);
        if judge(&observe(threads, &cand)).map_or(false, |(k, _)| k == kind) {
          cur = cand
        } else {
          j += 1
        }
      }
      rep.violation(&kind, if threads { "BehaviorSubject<SubjectThreads>" } else { "BehaviorSubject<Subject>" }, &id, json!({"history": format!("{:?}", h), "shrunk_history": format!("{:?}", cur), "result": detail}));
    } else if let Ok(out) = &o {
      rep.sample_some(8017, || json!({"case": id, "threads": threads, "history": format!("{:?}", h), "subscribers_saw": out.seen.iter().map(|s| jn(s)).collect::<Vec<_>>()}));
    }
  }

  // thread part: producer threads and late subscribers on BehaviorSubject<_, SubjectThreads> (baton scheduler)
  let n = cfg.n(12_000, 600_000);
  super::thr::systematic_families(cfg, rep, 0xC12A, &[1, 1, 1], &|s, _| {
    for t in s.threads.iter_mut() {
      t.retain(|op| !matches!(op, super::thr::TOp::Complete(_) | super::thr::TOp::Error(_) | super::thr::TOp::Unsub(_) | super::thr::TOp::UnsubSubject));
      if t.is_empty() {
        t.push(super::thr::TOp::Next(0));
      }
    }
  }, &|o, _| super::thr::first_probe_receives_all(o).or_else(|| super::thr::behavior_oracle(o)));
  super::thr::campaign(cfg, rep, "thr", n, 0xC12F, &mut |r: &mut Rng| {
    let mut s = super::thr::random_scen(r, 1);
    // two producers (+ one late subscriber), no terminal: the statement's thread scenario
    for t in s.threads.iter_mut() {
      t.retain(|op| !matches!(op, super::thr::TOp::Complete(_) | super::thr::TOp::Error(_) | super::thr::TOp::Unsub(_) | super::thr::TOp::UnsubSubject));
      if t.is_empty() {
        t.push(super::thr::TOp::Next(0));
      }
    }
    s
  }, &|o, _| super::thr::first_probe_receives_all(o).or_else(|| super::thr::behavior_oracle(o)));
  // the same producers free-running on OS threads with seeded jitter at the lock points
  super::thr::free_campaign(cfg, rep, cfg.n(2_000, 200_000), 0xC12E, &mut |r: &mut Rng| {
    let mut s = super::thr::random_scen(r, 1);
    for t in s.threads.iter_mut() {
      t.retain(|op| !matches!(op, super::thr::TOp::Complete(_) | super::thr::TOp::Error(_) | super::thr::TOp::Unsub(_) | super::thr::TOp::UnsubSubject));
      if t.is_empty() {
        t.push(super::thr::TOp::Next(0));
      }
    }
    s
  }, &|o, _| super::thr::first_probe_receives_all(o).or_else(|| super::thr::behavior_oracle(o)));
}
