//! Reference models, written from the documentation in `src/observable.rs`
//! and the property statements — never from the operator sources.
//! Single-input operators: causal list transformers. Where the documentation
//! is silent, a `Relax` flag selects one of the permitted behaviours and the
//! oracle accepts membership in the resulting set.
use crate::ast::*;
use crate::value::*;

#[derive(Clone, Copy, Debug, Default, PartialEq, Eq, Hash)]
pub struct Relax {
  /// `take(0)` completes at subscription instead of forwarding the source's terminal
  pub take0_completes_at_once: bool,
}

pub fn relax_variants() -> Vec<Relax> {
  vec![Relax { take0_completes_at_once: false }, Relax { take0_completes_at_once: true }]
}

/// truncate after the first terminal (the contract of every upstream)
pub fn well_formed(mut ns: Vec<N>) -> Vec<N> {
  if let Some(p) = ns.iter().position(|n| n.is_terminal()) {
    ns.truncate(p + 1);
  }
  ns
}

struct Out {
  v: Vec<N>,
  done: bool,
}
impl Out {
  fn new() -> Self {
    Out { v: vec![], done: false }
  }
  fn next(&mut self, v: V) {
    if !self.done {
      self.v.push(N::Next(v))
    }
  }
  fn complete(&mut self) {
    if !self.done {
      self.v.push(N::Complete);
      self.done = true
    }
  }
  fn error(&mut self, e: E) {
    if !self.done {
      self.v.push(N::Err(e));
      self.done = true
    }
  }
}

/// list semantics of one single-input operator on a well-formed input
pub fn op_model(op: &Op, input: &[N], rx: Relax) -> Option<Vec<N>> {
  let mut o = Out::new();
  macro_rules! each {
    (|$v:ident| $body:block, complete: $c:block) => {{
      for n in input {
        if o.done {
          break;
        }
        match n {
          N::Next($v) => {
            let $v = $v.clone();
            $body
          }
          N::Err(e) => o.error(*e),
          N::Complete => {
            $c;
            o.complete()
          }
        }
      }
    }};
    (|$v:ident| $body:block) => {
      each!(|$v| $body, complete: {})
    };
  }
  match op {
    Op::Map(f) => each!(|v| { o.next(f.eval(v)) }),
    Op::MapTo(c) => each!(|v| {
      let _ = v;
      o.next(c.clone())
    }),
    Op::Filter(p) => each!(|v| {
      if p.eval(&v) {
        o.next(v)
      }
    }),
    Op::FilterMap(p, f) => each!(|v| {
      if p.eval(&v) {
        o.next(f.eval(v))
      }
    }),
    Op::Tap(_) | Op::Spy(_) | Op::BoxIt | Op::Deaf | Op::Status | Op::Finalize(_) => each!(|v| { o.next(v) }),
    Op::Take(n) => {
      if *n == 0 {
        if rx.take0_completes_at_once {
          o.complete()
        } else {
          each!(|v| {
            let _ = v;
          })
        }
      } else {
        let mut k = 0;
        each!(|v| {
          o.next(v);
          k += 1;
          if k == *n {
            o.complete()
          }
        })
      }
    }
    Op::First => {
      each!(|v| {
        o.next(v);
        o.complete()
      })
    }
    Op::FirstOr(d) => {
      each!(|v| {
        o.next(v);
        o.complete()
      }, complete: { o.next(d.clone()) })
    }
    Op::ElementAt(n) => {
      let mut k = 0;
      each!(|v| {
        if k == *n {
          o.next(v);
          o.complete()
        }
        k += 1;
      })
    }
    Op::Skip(n) => {
      let mut k = 0;
      each!(|v| {
        if k >= *n {
          o.next(v)
        }
        k += 1;
      })
    }
    Op::TakeWhile(p) => each!(|v| {
      if p.eval(&v) {
        o.next(v)
      } else {
        o.complete()
      }
    }),
    Op::TakeWhileIncl(p) => each!(|v| {
      let ok = p.eval(&v);
      o.next(v);
      if !ok {
        o.complete()
      }
    }),
    Op::SkipWhile(p) => {
      let mut skipping = true;
      each!(|v| {
        if skipping && !p.eval(&v) {
          skipping = false
        }
        if !skipping {
          o.next(v)
        }
      })
    }
    Op::TakeLast(n) => {
      let mut q: Vec<V> = vec![];
      each!(|v| {
        q.push(v);
        if q.len() > *n {
          q.remove(0);
        }
      }, complete: {
        for v in q.drain(..) { o.next(v) }
      })
    }
    Op::SkipLast(n) => {
      let mut q: Vec<V> = vec![];
      each!(|v| {
        q.push(v);
        if q.len() > *n {
          let x = q.remove(0);
          o.next(x)
        }
      })
    }
    Op::Last => {
      let mut last = None;
      each!(|v| { last = Some(v) }, complete: {
        if let Some(v) = last.take() { o.next(v) }
      })
    }
    Op::LastOr(d) => {
      let mut last = None;
      each!(|v| { last = Some(v) }, complete: {
        o.next(last.take().unwrap_or(d.clone()))
      })
    }
    Op::IgnoreElements => each!(|v| {
      let _ = v;
    }),
    Op::StartWith(vs) => {
      for v in vs {
        o.next(v.clone())
      }
      each!(|v| { o.next(v) })
    }
    Op::DefaultIfEmpty(d) => {
      let mut empty = true;
      each!(|v| {
        empty = false;
        o.next(v)
      }, complete: { if empty { o.next(d.clone()) } })
    }
    Op::Scan => {
      let mut acc = V::default();
      each!(|v| {
        acc = acc.clone() + v;
        o.next(acc.clone())
      })
    }
    Op::ScanInitial(i) => {
      let mut acc = i.clone();
      each!(|v| {
        acc = acc.clone() + v;
        o.next(acc.clone())
      })
    }
    Op::Reduce => {
      let mut acc = V::default();
      each!(|v| { acc = acc.clone() + v }, complete: { o.next(acc.clone()) })
    }
    Op::ReduceInitial(i) => {
      let mut acc = i.clone();
      each!(|v| { acc = acc.clone() + v }, complete: { o.next(acc.clone()) })
    }
    Op::Sum => {
      // sum of an empty stream is the additive identity (Default)
      let mut acc: Option<V> = None;
      each!(|v| {
        acc = Some(match acc.take() { None => V::default() + v, Some(a) => a + v })
      }, complete: { o.next(acc.clone().unwrap_or_default()) })
    }
    Op::Count => {
      let mut k = 0i64;
      each!(|v| {
        let _ = v;
        k += 1
      }, complete: { o.next(V::I(k)) })
    }
    Op::Min => {
      let mut m: Option<V> = None;
      each!(|v| {
        m = Some(match m.take() { Some(x) if x < v => x, _ => v })
      }, complete: { if let Some(x) = m.take() { o.next(x) } })
    }
    Op::Max => {
      let mut m: Option<V> = None;
      each!(|v| {
        m = Some(match m.take() { Some(x) if x > v => x, _ => v })
      }, complete: { if let Some(x) = m.take() { o.next(x) } })
    }
    Op::Distinct => {
      let mut seen: Vec<V> = vec![];
      each!(|v| {
        if !seen.contains(&v) {
          seen.push(v.clone());
          o.next(v)
        }
      })
    }
    Op::DistinctKey(k) => {
      let mut seen: Vec<i64> = vec![];
      each!(|v| {
        let key = k.eval(&v);
        if !seen.contains(&key) {
          seen.push(key);
          o.next(v)
        }
      })
    }
    Op::DistinctUntilChanged => {
      let mut last: Option<V> = None;
      each!(|v| {
        if last.as_ref() != Some(&v) {
          last = Some(v.clone());
          o.next(v)
        }
      })
    }
    Op::DistinctUntilKeyChanged(k) => {
      let mut last: Option<i64> = None;
      each!(|v| {
        let key = k.eval(&v);
        if last != Some(key) {
          last = Some(key);
          o.next(v)
        }
      })
    }
    Op::Pairwise => {
      let mut prev: Option<V> = None;
      each!(|v| {
        if let Some(p) = prev.take() {
          o.next(V::p(p, v.clone()))
        }
        prev = Some(v);
      })
    }
    Op::BufferWithCount(n) => {
      let mut buf: Vec<V> = vec![];
      each!(|v| {
        buf.push(v);
        if buf.len() >= *n {
          o.next(V::L(std::mem::take(&mut buf)))
        }
      }, complete: { if !buf.is_empty() { o.next(V::L(std::mem::take(&mut buf))) } })
    }
    Op::Contains(t) => {
      each!(|v| {
        if v == *t {
          o.next(V::B(true));
          o.complete()
        }
      }, complete: { o.next(V::B(false)) })
    }
    Op::All(p) => {
      each!(|v| {
        if !p.eval(&v) {
          o.next(V::B(false));
          o.complete()
        }
      }, complete: { o.next(V::B(true)) })
    }
    Op::Collect => {
      let mut all: Vec<V> = vec![];
      each!(|v| { all.push(v) }, complete: { o.next(V::L(std::mem::take(&mut all))) })
    }
    Op::OnErrorMap(k) => {
      for n in input {
        if o.done {
          break;
        }
        match n {
          N::Next(v) => o.next(v.clone()),
          N::Err(e) => o.error(e.wrapping_mul(10).wrapping_add(*k)),
          N::Complete => o.complete(),
        }
      }
    }
    Op::GroupByFlat(_) => each!(|v| { o.next(v) }),
    _ => return None,
  }
  Some(o.v)
}

/// what a cold source emits at subscription (None: not a synchronous cold source)
pub fn src_model(s: &Src, hot: &[Vec<N>], rx: Relax) -> Option<Vec<N>> {
  Some(match s {
    Src::Hot(k) => well_formed(hot.get(*k).cloned().unwrap_or_default()),
    Src::Create(k) => well_formed(hot.get(*k).cloned().unwrap_or_default()),
    Src::CreateSync(sc) => well_formed(sc.clone()),
    Src::Iter(items) => {
      let mut v: Vec<N> = items.iter().cloned().map(N::Next).collect();
      v.push(N::Complete);
      v
    }
    Src::IterCount(_, cap) => {
      let mut v: Vec<N> = (0..*cap as i64).map(|i| N::Next(V::I(i))).collect();
      v.push(N::Complete);
      v
    }
    Src::Of(v) | Src::OfFn(v) | Src::Start(v) => vec![N::Next(v.clone()), N::Complete],
    Src::OfOpt(Some(v)) => vec![N::Next(v.clone()), N::Complete],
    Src::OfOpt(None) => vec![N::Complete],
    Src::OfRes(Ok(v)) => vec![N::Next(v.clone()), N::Complete],
    Src::OfRes(Err(e)) => vec![N::Err(*e)],
    Src::Repeat(v, n) => {
      let mut r: Vec<N> = (0..*n).map(|_| N::Next(v.clone())).collect();
      r.push(N::Complete);
      r
    }
    Src::Empty => vec![N::Complete],
    Src::Never => vec![],
    Src::Throw(e) => vec![N::Err(*e)],
    Src::Defer(c) => return chain_model(c, hot, rx),
    _ => return None,
  })
}

/// list semantics of a whole single-input chain
pub fn chain_model(c: &Chain, hot: &[Vec<N>], rx: Relax) -> Option<Vec<N>> {
  let mut cur = src_model(&c.src, hot, rx)?;
  for op in &c.ops {
    cur = op_model(op, &cur, rx)?;
  }
  Some(cur)
}

/// the items that reach position `upto` (exclusive) of the chain
pub fn prefix_model(c: &Chain, upto: usize, hot: &[Vec<N>], rx: Relax) -> Option<Vec<N>> {
  let mut cur = src_model(&c.src, hot, rx)?;
  for op in &c.ops[..upto] {
    cur = op_model(op, &cur, rx)?;
  }
  Some(cur)
}

pub fn allowed_outputs(c: &Chain, hot: &[Vec<N>]) -> Option<Vec<Vec<N>>> {
  let mut outs = vec![];
  for rx in relax_variants() {
    let o = chain_model(c, hot, rx)?;
    if !outs.contains(&o) {
      outs.push(o)
    }
  }
  Some(outs)
}

// ---------------------------------------------------------------------------
// Two-input combinators on a merged timeline (C04)
// ---------------------------------------------------------------------------

/// Behaviours the documentation leaves open; the oracle accepts any of them.
#[derive(Clone, Copy, Debug, Default, PartialEq, Eq, Hash)]
pub struct Relax2 {
  /// zip / combine_latest complete as soon as no further output is possible
  pub early_complete: bool,
  /// skip_until: a notifier that completes without an item opens the gate
  pub empty_notifier_opens: bool,
  /// buffer: completion of the notifier flushes and completes the output
  pub buffer_notifier_complete_ends: bool,
  /// take_until / skip_until: an error of the notifier is propagated
  pub notifier_error_propagates: bool,
  /// sample: a value not yet sampled is flushed when the source completes
  pub sample_flush_on_source_complete: bool,
  /// buffer: a tick with nothing gathered emits an empty buffer
  pub buffer_emits_empty: bool,
}

pub fn relax2_variants() -> Vec<Relax2> {
  let mut v = vec![];
  for m in 0..64u32 {
    v.push(Relax2 {
      early_complete: m & 1 != 0,
      empty_notifier_opens: m & 2 != 0,
      buffer_notifier_complete_ends: m & 4 != 0,
      notifier_error_propagates: m & 8 != 0,
      sample_flush_on_source_complete: m & 16 != 0,
      buffer_emits_empty: m & 32 != 0,
    });
  }
  v
}

/// `timeline`: (input 0 = main/self, 1 = other/notifier, notification).
/// Events of an input after that input's terminal are ignored (hot subjects
/// drop them). Returns the output of `op`.
pub fn two_input_model(op: &str, timeline: &[(usize, N)], rx: Relax2) -> Vec<N> {
  let mut o = Out::new();
  let mut ended = [false, false];
  let mut completed = [false, false];
  // operator state
  let mut qa: Vec<V> = vec![];
  let mut qb: Vec<V> = vec![];
  let mut la: Option<V> = None;
  let mut lb: Option<V> = None;
  let mut ever = [false, false];
  let mut gate_open = false; // skip_until
  let mut buf: Vec<V> = vec![];
  let mut stored: Option<V> = None; // sample
  for (who, n) in timeline {
    let who = *who;
    if ended[who] || o.done {
      continue;
    }
    if n.is_terminal() {
      ended[who] = true;
    }
    match op {
      "merge" => match n {
        N::Next(v) => o.next(v.clone()),
        N::Err(e) => o.error(*e),
        N::Complete => {
          completed[who] = true;
          if completed[0] && completed[1] {
            o.complete()
          }
        }
      },
      "zip" => {
        match n {
          N::Next(v) => {
            if who == 0 {
              qa.push(v.clone())
            } else {
              qb.push(v.clone())
            }
            if !qa.is_empty() && !qb.is_empty() {
              let a = qa.remove(0);
              let b = qb.remove(0);
              o.next(V::p(a, b));
            }
          }
          N::Err(e) => o.error(*e),
          N::Complete => completed[who] = true,
        }
        if completed[0] && completed[1] {
          o.complete()
        } else if rx.early_complete
          && ((completed[0] && qa.is_empty()) || (completed[1] && qb.is_empty()))
        {
          o.complete()
        }
      }
      "combine_latest" => {
        match n {
          N::Next(v) => {
            ever[who] = true;
            if who == 0 {
              la = Some(v.clone())
            } else {
              lb = Some(v.clone())
            }
            if let (Some(a), Some(b)) = (&la, &lb) {
              o.next(V::p(a.clone(), b.clone()))
            }
          }
          N::Err(e) => o.error(*e),
          N::Complete => completed[who] = true,
        }
        if completed[0] && completed[1] {
          o.complete()
        } else if rx.early_complete
          && ((completed[0] && !ever[0]) || (completed[1] && !ever[1]))
        {
          o.complete()
        }
      }
      "with_latest_from" => match (who, n) {
        (0, N::Next(v)) => {
          if let Some(b) = &lb {
            o.next(V::p(v.clone(), b.clone()))
          }
        }
        (0, N::Complete) => o.complete(),
        (1, N::Next(v)) => lb = Some(v.clone()),
        (1, N::Complete) => {}
        (_, N::Err(e)) => o.error(*e),
        _ => {}
      },
      "take_until" => match (who, n) {
        (0, N::Next(v)) => o.next(v.clone()),
        (0, N::Complete) => o.complete(),
        (0, N::Err(e)) => o.error(*e),
        (1, N::Next(_)) => o.complete(),
        (1, N::Err(e)) => {
          if rx.notifier_error_propagates {
            o.error(*e)
          }
        }
        _ => {}
      },
      "skip_until" => match (who, n) {
        (0, N::Next(v)) => {
          if gate_open {
            o.next(v.clone())
          }
        }
        (0, N::Complete) => o.complete(),
        (0, N::Err(e)) => o.error(*e),
        (1, N::Next(_)) => gate_open = true,
        (1, N::Complete) => {
          if rx.empty_notifier_opens {
            gate_open = true
          }
        }
        (1, N::Err(e)) => {
          if rx.notifier_error_propagates {
            o.error(*e)
          }
        }
        _ => {}
      },
      "sample" => match (who, n) {
        (0, N::Next(v)) => stored = Some(v.clone()),
        (0, N::Complete) => {
          if rx.sample_flush_on_source_complete {
            if let Some(v) = stored.take() {
              o.next(v)
            }
          }
          o.complete()
        }
        (1, N::Next(_)) | (1, N::Complete) => {
          // documented: the sampler's completion also releases the pending value
          if let Some(v) = stored.take() {
            o.next(v)
          }
        }
        (_, N::Err(e)) => o.error(*e),
        _ => {}
      },
      "buffer" => match (who, n) {
        (0, N::Next(v)) => buf.push(v.clone()),
        (0, N::Complete) => {
          if !buf.is_empty() {
            o.next(V::L(std::mem::take(&mut buf)))
          }
          o.complete()
        }
        (1, N::Next(_)) => {
          if !buf.is_empty() || rx.buffer_emits_empty {
            o.next(V::L(std::mem::take(&mut buf)))
          }
        }
        (1, N::Complete) => {
          if rx.buffer_notifier_complete_ends {
            if !buf.is_empty() {
              o.next(V::L(std::mem::take(&mut buf)))
            }
            o.complete()
          }
        }
        (_, N::Err(e)) => o.error(*e),
        _ => {}
      },
      _ => panic!("two_input_model: unknown op {}", op),
    }
  }
  o.v
}

pub fn two_input_allowed(op: &str, timeline: &[(usize, N)]) -> Vec<Vec<N>> {
  let mut outs: Vec<Vec<N>> = vec![];
  for rx in relax2_variants() {
    let o = two_input_model(op, timeline, rx);
    if !outs.contains(&o) {
      outs.push(o)
    }
  }
  outs
}
