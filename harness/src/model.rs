//! Reference models, written from the documentation in `src/observable.rs`
//! and the property statements — never from the operator sources.
//! Single-input operators: causal list transformers. Where the documentation
//! is silent, a `Relax` flag selects one of the permitted behaviours and the
//! oracle accepts membership in the resulting set.
use crate::ast::*;
use crate::value::*;

#[derive(Clone, Copy, Debug, Default, PartialEq, Eq, Hash)]
pub struct Relax {
  /// `take(0)` completes at subscription instead of forwarding the source's terminal
  pub take0_completes_at_once: bool,
}

pub fn relax_variants() -> Vec<Relax> {
  vec![Relax { take0_completes_at_once: false }, Relax { take0_completes_at_once: true }]
}

/// truncate after the first terminal (the contract of every upstream)
pub fn well_formed(mut ns: Vec<N>) -> Vec<N> {
  if let Some(p) = ns.iter().position(|n| n.is_terminal()) {
    ns.truncate(p + 1);
  }
  ns
}

struct Out {
  v: Vec<N>,
  done: bool,
}
impl Out {
  fn new() -> Self {
    Out { v: vec![], done: false }
  }
  fn next(&mut self, v: V) {
    if !self.done {
      self.v.push(N::Next(v))
    }
  }
  fn complete(&mut self) {
    if !self.done {
      self.v.push(N::Complete);
      self.done = true
    }
  }
  fn error(&mut self, e: E) {
    if !self.done {
      self.v.push(N::Err(e));
      self.done = true
    }
  }
}

/// list semantics of one single-input operator on a well-formed input
pub fn op_model(op: &Op, input: &[N], rx: Relax) -> Option<Vec<N>> {
  let mut o = Out::new();
  macro_rules! each {
    (|$v:ident| $body:block, complete: $c:block) => {{
      for n in input {
        if o.done {
          break;
        }
        match n {
          N::Next($v) => {
            let $v = $v.clone();
            $body
          }
          N::Err(e) => o.error(*e),
          N::Complete => {
            $c;
            o.complete()
          }
        }
      }
    }};
    (|$v:ident| $body:block) => {
      each!(|$v| $body, complete: {})
    };
  }
  match op {
    Op::Map(f) => each!(|v| { o.next(f.eval(v)) }),
    Op::MapTo(c) => each!(|v| {
      let _ = v;
      o.next(c.clone())
    }),
    Op::Filter(p) => each!(|v| {
      if p.eval(&v) {
        o.next(v)
      }
    }),
    Op::FilterMap(p, f) => each!(|v| {
      if p.eval(&v) {
        o.next(f.eval(v))
      }
    }),
    Op::Tap(_) | Op::Spy(_) | Op::BoxIt | Op::Finalize(_) => each!(|v| { o.next(v) }),
    Op::Take(n) => {
      if *n == 0 {
        if rx.take0_completes_at_once {
          o.complete()
        } else {
          each!(|v| {
            let _ = v;
          })
        }
      } else {
        let mut k = 0;
        each!(|v| {
          o.next(v);
          k += 1;
          if k == *n {
            o.complete()
          }
        })
      }
    }
    Op::First => {
      each!(|v| {
        o.next(v);
        o.complete()
      })
    }
    Op::FirstOr(d) => {
      each!(|v| {
        o.next(v);
        o.complete()
      }, complete: { o.next(d.clone()) })
    }
    Op::ElementAt(n) => {
      let mut k = 0;
      each!(|v| {
        if k == *n {
          o.next(v);
          o.complete()
        }
        k += 1;
      })
    }
    Op::Skip(n) => {
      let mut k = 0;
      each!(|v| {
        if k >= *n {
          o.next(v)
        }
        k += 1;
      })
    }
    Op::TakeWhile(p) => each!(|v| {
      if p.eval(&v) {
        o.next(v)
      } else {
        o.complete()
      }
    }),
    Op::TakeWhileIncl(p) => each!(|v| {
      let ok = p.eval(&v);
      o.next(v);
      if !ok {
        o.complete()
      }
    }),
    Op::SkipWhile(p) => {
      let mut skipping = true;
      each!(|v| {
        if skipping && !p.eval(&v) {
          skipping = false
        }
        if !skipping {
          o.next(v)
        }
      })
    }
    Op::TakeLast(n) => {
      let mut q: Vec<V> = vec![];
      each!(|v| {
        q.push(v);
        if q.len() > *n {
          q.remove(0);
        }
      }, complete: {
        for v in q.drain(..) { o.next(v) }
      })
    }
    Op::SkipLast(n) => {
      let mut q: Vec<V> = vec![];
      each!(|v| {
        q.push(v);
        if q.len() > *n {
          let x = q.remove(0);
          o.next(x)
        }
      })
    }
    Op::Last => {
      let mut last = None;
      each!(|v| { last = Some(v) }, complete: {
        if let Some(v) = last.take() { o.next(v) }
      })
    }
    Op::LastOr(d) => {
      let mut last = None;
      each!(|v| { last = Some(v) }, complete: {
        o.next(last.take().unwrap_or(d.clone()))
      })
    }
    Op::IgnoreElements => each!(|v| {
      let _ = v;
    }),
    Op::StartWith(vs) => {
      for v in vs {
        o.next(v.clone())
      }
      each!(|v| { o.next(v) })
    }
    Op::DefaultIfEmpty(d) => {
      let mut empty = true;
      each!(|v| {
        empty = false;
        o.next(v)
      }, complete: { if empty { o.next(d.clone()) } })
    }
    Op::Scan => {
      let mut acc = V::default();
      each!(|v| {
        acc = acc.clone() + v;
        o.next(acc.clone())
      })
    }
    Op::ScanInitial(i) => {
      let mut acc = i.clone();
      each!(|v| {
        acc = acc.clone() + v;
        o.next(acc.clone())
      })
    }
    Op::Reduce => {
      let mut acc = V::default();
      each!(|v| { acc = acc.clone() + v }, complete: { o.next(acc.clone()) })
    }
    Op::ReduceInitial(i) => {
      let mut acc = i.clone();
      each!(|v| { acc = acc.clone() + v }, complete: { o.next(acc.clone()) })
    }
    Op::Sum => {
      // sum of an empty stream is the additive identity (Default)
      let mut acc: Option<V> = None;
      each!(|v| {
        acc = Some(match acc.take() { None => V::default() + v, Some(a) => a + v })
      }, complete: { o.next(acc.clone().unwrap_or_default()) })
    }
    Op::Count => {
      let mut k = 0i64;
      each!(|v| {
        let _ = v;
        k += 1
      }, complete: { o.next(V::I(k)) })
    }
    Op::Min => {
      let mut m: Option<V> = None;
      each!(|v| {
        m = Some(match m.take() { Some(x) if x < v => x, _ => v })
      }, complete: { if let Some(x) = m.take() { o.next(x) } })
    }
    Op::Max => {
      let mut m: Option<V> = None;
      each!(|v| {
        m = Some(match m.take() { Some(x) if x > v => x, _ => v })
      }, complete: { if let Some(x) = m.take() { o.next(x) } })
    }
    Op::Distinct => {
      let mut seen: Vec<V> = vec![];
      each!(|v| {
        if !seen.contains(&v) {
          seen.push(v.clone());
          o.next(v)
        }
      })
    }
    Op::DistinctKey(k) => {
      let mut seen: Vec<i64> = vec![];
      each!(|v| {
        let key = k.eval(&v);
        if !seen.contains(&key) {
          seen.push(key);
          o.next(v)
        }
      })
    }
    Op::DistinctUntilChanged => {
      let mut last: Option<V> = None;
      each!(|v| {
        if last.as_ref() != Some(&v) {
          last = Some(v.clone());
          o.next(v)
        }
      })
    }
    Op::DistinctUntilKeyChanged(k) => {
      let mut last: Option<i64> = None;
      each!(|v| {
        let key = k.eval(&v);
        if last != Some(key) {
          last = Some(key);
          o.next(v)
        }
      })
    }
    Op::Pairwise => {
      let mut prev: Option<V> = None;
      each!(|v| {
        if let Some(p) = prev.take() {
          o.next(V::p(p, v.clone()))
        }
        prev = Some(v);
      })
    }
    Op::BufferWithCount(n) => {
      let mut buf: Vec<V> = vec![];
      each!(|v| {
        buf.push(v);
        if buf.len() >= *n {
          o.next(V::L(std::mem::take(&mut buf)))
        }
      }, complete: { if !buf.is_empty() { o.next(V::L(std::mem::take(&mut buf))) } })
    }
    Op::Contains(t) => {
      each!(|v| {
        if v == *t {
          o.next(V::B(true));
          o.complete()
        }
      }, complete: { o.next(V::B(false)) })
    }
    Op::All(p) => {
      each!(|v| {
        if !p.eval(&v) {
          o.next(V::B(false));
          o.complete()
        }
      }, complete: { o.next(V::B(true)) })
    }
    Op::Collect => {
      let mut all: Vec<V> = vec![];
      each!(|v| { all.push(v) }, complete: { o.next(V::L(std::mem::take(&mut all))) })
    }
    Op::OnErrorMap(k) => {
      for n in input {
        if o.done {
          break;
        }
        match n {
          N::Next(v) => o.next(v.clone()),
          N::Err(e) => o.error(e.wrapping_mul(10).wrapping_add(*k)),
          N::Complete => o.complete(),
        }
      }
    }
    Op::GroupByFlat(_) => each!(|v| { o.next(v) }),
    _ => return None,
  }
  Some(o.v)
}

/// what a cold source emits at subscription (None: not a synchronous cold source)
pub fn src_model(s: &Src, hot: &[Vec<N>], rx: Relax) -> Option<Vec<N>> {
  Some(match s {
    Src::Hot(k) => well_formed(hot.get(*k).cloned().unwrap_or_default()),
    Src::Create(k) => well_formed(hot.get(*k).cloned().unwrap_or_default()),
    Src::CreateSync(sc) => well_formed(sc.clone()),
    Src::Iter(items) => {
      let mut v: Vec<N> = items.iter().cloned().map(N::Next).collect();
      v.push(N::Complete);
      v
    }
    Src::IterCount(_, cap) => {
      let mut v: Vec<N> = (0..*cap as i64).map(|i| N::Next(V::I(i))).collect();
      v.push(N::Complete);
      v
    }
    Src::Of(v) | Src::OfFn(v) | Src::Start(v) => vec![N::Next(v.clone()), N::Complete],
    Src::OfOpt(Some(v)) => vec![N::Next(v.clone()), N::Complete],
    Src::OfOpt(None) => vec![N::Complete],
    Src::OfRes(Ok(v)) => vec![N::Next(v.clone()), N::Complete],
    Src::OfRes(Err(e)) => vec![N::Err(*e)],
    Src::Repeat(v, n) => {
      let mut r: Vec<N> = (0..*n).map(|_| N::Next(v.clone())).collect();
      r.push(N::Complete);
      r
    }
    Src::Empty => vec![N::Complete],
    Src::Never => vec![],
    Src::Throw(e) => vec![N::Err(*e)],
    Src::Defer(c) => return chain_model(c, hot, rx),
    _ => return None,
  })
}

/// list semantics of a whole single-input chain
pub fn chain_model(c: &Chain, hot: &[Vec<N>], rx: Relax) -> Option<Vec<N>> {
  let mut cur = src_model(&c.src, hot, rx)?;
  for op in &c.ops {
    cur = op_model(op, &cur, rx)?;
  }
  Some(cur)
}

/// the items that reach position `upto` (exclusive) of the chain
pub fn prefix_model(c: &Chain, upto: usize, hot: &[Vec<N>], rx: Relax) -> Option<Vec<N>> {
  let mut cur = src_model(&c.src, hot, rx)?;
  for op in &c.ops[..upto] {
    cur = op_model(op, &cur, rx)?;
  }
  Some(cur)
}

pub fn allowed_outputs(c: &Chain, hot: &[Vec<N>]) -> Option<Vec<Vec<N>>> {
  let mut outs = vec![];
  for rx in relax_variants() {
    let o = chain_model(c, hot, rx)?;
    if !outs.contains(&o) {
      outs.push(o)
    }
  }
  Some(outs)
}
