pub fn yield_now() {}
