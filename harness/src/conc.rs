//! The one hook installed into rxRust's `verif_hooks`, and the engines behind
//! it: single-thread self-deadlock detection, the baton scheduler (one
//! managed OS thread runs at a time; every shared-cell lock acquisition and
//! every explicit `yield_now()` is a scheduling point), the gate used for the
//! `complete_status` check/register window, and free-run delay injection.
use crate::value::Rng;
use std::cell::Cell;
use std::sync::atomic::{AtomicU64, AtomicU8, Ordering};
use std::sync::{Arc, Condvar, Mutex};
use std::time::{Duration, Instant};

pub const OFF: u8 = 0;
pub const SINGLE: u8 = 1;
pub const BATON: u8 = 2;
pub const FREE: u8 = 3;

static MODE: AtomicU8 = AtomicU8::new(OFF);
pub static LOCK_POINTS: AtomicU64 = AtomicU64::new(0);

thread_local! {
  static MANAGED: Cell<Option<usize>> = const { Cell::new(None) };
  static RUN_GEN: Cell<u64> = const { Cell::new(0) };
  static FREE_RNG: Cell<u64> = const { Cell::new(0x9E3779B97F4A7C15) };
}

pub fn set_mode(m: u8) {
  MODE.store(m, Ordering::SeqCst)
}
pub fn mode() -> u8 {
  MODE.load(Ordering::SeqCst)
}

pub fn install() {
  rxrust::verif_hooks::set_hook(Some(Arc::new(hook)));
  set_mode(SINGLE);
}

pub const SELF_DEADLOCK: &str = "SELF-DEADLOCK";

fn hook(site: &'static str, addr: usize, avail: &mut dyn FnMut() -> bool) {
  if std::thread::panicking() {
    return;
  }
  match site {
    "lock" => {
      LOCK_POINTS.fetch_add(1, Ordering::Relaxed);
      match mode() {
        SINGLE => {
          // only one thread exists: a held cell can never be released
          if !avail() {
            panic!("{}: a thread-safe shared cell is locked again by the thread that already holds it (cell {:#x})", SELF_DEADLOCK, addr & 0xffff);
          }
        }
        BATON => baton_point(addr, avail),
        FREE => free_jitter(),
        _ => {}
      }
    }
    "status_window" => gate_point(),
    _ => {}
  }
}

/// explicit scheduling point (inside probe callbacks and task bodies)
pub fn yield_now() {
  match mode() {
    BATON => baton_point(0, &mut || true),
    FREE => free_jitter(),
    _ => {}
  }
}

// ---------------------------------------------------------------------------
// free-run jitter
// ---------------------------------------------------------------------------

pub fn free_seed(seed: u64) {
  FREE_RNG.with(|r| r.set(seed | 1))
}

fn free_jitter() {
  let x = FREE_RNG.with(|r| {
    let mut x = r.get();
    x ^= x >> 12;
    x ^= x << 25;
    x ^= x >> 27;
    r.set(x);
    x.wrapping_mul(0x2545F4914F6CDD1D)
  });
  match x % 16 {
    0 | 1 => std::thread::yield_now(),
    2 => {
      for _ in 0..(x >> 8) % 200 {
        std::hint::spin_loop()
      }
    }
    3 => std::thread::sleep(Duration::from_micros((x >> 8) % 50)),
    _ => {}
  }
}

// ---------------------------------------------------------------------------
// baton scheduler
// ---------------------------------------------------------------------------

#[derive(Clone, Copy, Debug, PartialEq)]
enum TS {
  Ready,
  Blocked { addr: usize, epoch: u64 },
  Done,
}

#[derive(Clone, Debug, PartialEq, Eq, Hash)]
pub enum Strategy {
  Uniform,
  /// PCT-style: random priorities, d priority change points
  Pct(u32),
  /// systematic: the running thread continues (no preemption) except at the
  /// listed scheduling points, where the baton goes to the listed thread
  Fixed(Vec<(u64, usize)>),
}

struct Sched {
  gen: u64,
  th: Vec<TS>,
  current: usize,
  epoch: u64,
  trace: Vec<u8>,
  rng: Rng,
  points: u64,
  switches: u64,
  deadlock: Option<Vec<(usize, usize)>>,
  abandoned: bool,
  livelock: bool,
  strategy: Strategy,
  prio: Vec<i64>,
  change_at: Vec<u64>,
  max_points: u64,
}

static SCHED: Mutex<Option<Sched>> = Mutex::new(None);
static GEN: AtomicU64 = AtomicU64::new(1);
static CV: Condvar = Condvar::new();

fn sched_lock() -> std::sync::MutexGuard<'static, Option<Sched>> {
  SCHED.lock().unwrap_or_else(|e| e.into_inner())
}

impl Sched {
  fn candidates(&self, exclude: Option<usize>) -> Vec<usize> {
    (0..self.th.len())
      .filter(|i| Some(*i) != exclude)
      .filter(|i| match self.th[*i] {
        TS::Ready => true,
        TS::Blocked { epoch, .. } => epoch < self.epoch,
        TS::Done => false,
      })
      .collect()
  }
  fn pick(&mut self, cands: &[usize]) -> usize {
    let c = match &self.strategy {
      Strategy::Fixed(list) => {
        let forced = list.iter().find(|(p, _)| *p == self.points).map(|(_, t)| *t).filter(|t| cands.contains(t));
        match forced {
          Some(t) => t,
          None if cands.contains(&self.current) => self.current,
          None => cands[0],
        }
      }
      Strategy::Uniform => cands[self.rng.below(cands.len())],
      Strategy::Pct(_) => {
        if self.change_at.contains(&self.points) {
          // demote the running thread
          let low = self.prio.iter().cloned().min().unwrap_or(0) - 1;
          let cur = self.current;
          self.prio[cur] = low;
        }
        *cands.iter().max_by_key(|i| self.prio[**i]).unwrap()
      }
    };
    self.trace.push(c as u8);
    c
  }
}

fn park_forever() -> ! {
  loop {
    std::thread::park();
  }
}

fn baton_point(addr: usize, avail: &mut dyn FnMut() -> bool) {
  let Some(me) = MANAGED.with(|m| m.get()) else { return };
  let mut g = sched_lock();
  let mut grace = true;
  loop {
    let Some(s) = g.as_mut() else { return };
    if s.abandoned || s.gen != RUN_GEN.with(|g| g.get()) {
      drop(g);
      park_forever();
    }
    s.points += 1;
    if s.points > s.max_points {
      s.livelock = true;
      s.abandoned = true;
      CV.notify_all();
      drop(g);
      park_forever();
    }
    // I hold the baton. Who continues?
    s.th[me] = TS::Ready;
    let cands = s.candidates(None);
    let next = s.pick(&cands);
    if next != me {
      s.switches += 1;
      s.current = next;
      CV.notify_all();
      loop {
        g = CV.wait(g).unwrap_or_else(|e| e.into_inner());
        match g.as_ref() {
          None => return,
          Some(s) if s.abandoned || s.gen != RUN_GEN.with(|g| g.get()) => {
            drop(g);
            park_forever();
          }
          Some(s) if s.current == me => break,
          _ => {}
        }
      }
    }
    let s = g.as_mut().unwrap();
    if avail() {
      s.epoch += 1;
      s.th[me] = TS::Ready;
      return;
    }
    // the cell is held by a paused thread (or by me): give the baton away
    s.th[me] = TS::Blocked { addr, epoch: s.epoch };
    let mut others = s.candidates(Some(me));
    if others.is_empty() && grace {
      // A lock *release* is not a scheduling point: a thread that blocked
      // earlier in this epoch may be able to go on by now. Before calling it
      // a deadlock every blocked thread gets one more probe.
      grace = false;
      s.epoch += 1;
      others = s.candidates(Some(me));
    }
    if others.is_empty() {
      let wit: Vec<(usize, usize)> = s
        .th
        .iter()
        .enumerate()
        .filter_map(|(i, t)| if let TS::Blocked { addr, .. } = t { Some((i, *addr)) } else { None })
        .collect();
      s.deadlock = Some(wit);
      s.abandoned = true;
      CV.notify_all();
      drop(g);
      park_forever();
    }
    let next = s.pick(&others);
    s.switches += 1;
    s.current = next;
    CV.notify_all();
    loop {
      g = CV.wait(g).unwrap_or_else(|e| e.into_inner());
      match g.as_ref() {
        None => return,
        Some(s) if s.abandoned || s.gen != RUN_GEN.with(|g| g.get()) => {
          drop(g);
          park_forever();
        }
        Some(s) if s.current == me => break,
        _ => {}
      }
    }
    // loop: count a point again and re-probe
  }
}

#[derive(Debug, Default, Clone)]
pub struct BatonOutcome {
  pub trace: Vec<u8>,
  pub points: u64,
  pub switches: u64,
  /// thread -> cell address it waits for
  pub deadlock: Option<Vec<(usize, usize)>>,
  pub livelock: bool,
  pub panics: Vec<(usize, String)>,
  pub finished: Vec<bool>,
  pub timed_out: bool,
}

pub static LEAKED_THREADS: AtomicU64 = AtomicU64::new(0);

/// Run the bodies as managed threads under the baton. Deterministic in
/// (seed, strategy, bodies).
pub fn baton_run(seed: u64, strategy: Strategy, bodies: Vec<Box<dyn FnOnce() + Send>>) -> BatonOutcome {
  let n = bodies.len();
  let mut rng = Rng::new(seed);
  let prio: Vec<i64> = {
    let mut p: Vec<i64> = (0..n as i64).collect();
    for i in (1..n).rev() {
      let j = rng.below(i + 1);
      p.swap(i, j);
    }
    p
  };
  let change_at: Vec<u64> = match &strategy {
    Strategy::Pct(d) => (0..*d).map(|_| 1 + rng.below(60) as u64).collect(),
    _ => vec![],
  };
  let first = if matches!(strategy, Strategy::Fixed(_)) { 0 } else { rng.below(n) };
  let gen = GEN.fetch_add(1, Ordering::SeqCst);
  {
    let mut g = sched_lock();
    *g = Some(Sched {
      gen,
      th: vec![TS::Ready; n],
      current: first,
      epoch: 1,
      trace: vec![first as u8],
      rng,
      points: 0,
      switches: 0,
      deadlock: None,
      abandoned: false,
      livelock: false,
      strategy,
      prio,
      change_at,
      max_points: 200_000,
    });
  }
  let prev_mode = mode();
  set_mode(BATON);
  let results: Arc<Mutex<Vec<Option<Result<(), String>>>>> = Arc::new(Mutex::new(vec![None; n]));
  let mut handles = vec![];
  for (i, body) in bodies.into_iter().enumerate() {
    let results = results.clone();
    handles.push(std::thread::spawn(move || {
      MANAGED.with(|m| m.set(Some(i)));
      RUN_GEN.with(|g| g.set(gen));
      crate::log::set_thread_id(i as u32 + 1);
      // wait for the baton
      {
        let mut g = sched_lock();
        loop {
          match g.as_ref() {
            None => return,
            Some(s) if s.abandoned || s.gen != RUN_GEN.with(|g| g.get()) => {
              drop(g);
              park_forever();
            }
            Some(s) if s.current == i => break,
            _ => {}
          }
          g = CV.wait(g).unwrap_or_else(|e| e.into_inner());
        }
      }
      let r = crate::log::catch(body);
      results.lock().unwrap_or_else(|e| e.into_inner())[i] = Some(r);
      // finished: hand the baton on
      let mut g = sched_lock();
      if let Some(s) = g.as_mut() {
        if s.abandoned || s.gen != gen {
          return;
        }
        s.th[i] = TS::Done;
        s.epoch += 1;
        let cands = s.candidates(None);
        if cands.is_empty() {
          let blocked: Vec<(usize, usize)> = s
            .th
            .iter()
            .enumerate()
            .filter_map(|(i, t)| if let TS::Blocked { addr, .. } = t { Some((i, *addr)) } else { None })
            .collect();
          if !blocked.is_empty() {
            s.deadlock = Some(blocked);
            s.abandoned = true;
          }
        } else {
          let next = s.pick(&cands);
          s.current = next;
        }
        CV.notify_all();
      }
    }));
  }
  // main: wait until all done, or abandoned, or wall-clock watchdog
  let t0 = Instant::now();
  let mut out = BatonOutcome::default();
  loop {
    let g = sched_lock();
    let s = g.as_ref().unwrap();
    let all_done = s.th.iter().all(|t| *t == TS::Done);
    if all_done || s.abandoned {
      break;
    }
    if t0.elapsed() > Duration::from_secs(30) {
      out.timed_out = true;
      break;
    }
    let (g2, _) = CV.wait_timeout(g, Duration::from_millis(50)).unwrap_or_else(|e| e.into_inner());
    drop(g2);
  }
  {
    let mut g = sched_lock();
    let s = g.as_mut().unwrap();
    if out.timed_out {
      s.abandoned = true;
      CV.notify_all();
    }
    out.trace = s.trace.clone();
    out.points = s.points;
    out.switches = s.switches;
    out.deadlock = s.deadlock.clone();
    out.livelock = s.livelock;
    out.finished = s.th.iter().map(|t| *t == TS::Done).collect();
    let abandoned = s.abandoned;
    if !abandoned {
      *g = None;
    }
    drop(g);
    if abandoned {
      // threads of an abandoned run stay parked for ever; never join them
      LEAKED_THREADS.fetch_add(n as u64, Ordering::Relaxed);
      for h in handles {
        std::mem::forget(h);
      }
      // leave the Sched in place (abandoned) so parked threads never resume;
      // the next run replaces it, late wake-ups see `abandoned` or a foreign
      // `current` and park again
    } else {
      for h in handles {
        let _ = h.join();
      }
    }
  }
  set_mode(prev_mode);
  let res = results.lock().unwrap_or_else(|e| e.into_inner());
  for (i, r) in res.iter().enumerate() {
    if let Some(Err(p)) = r {
      out.panics.push((i, p.clone()));
    }
  }
  out
}

// ---------------------------------------------------------------------------
// gate for the complete_status check/register window
// ---------------------------------------------------------------------------

#[derive(Default)]
struct Gate {
  armed: bool,
  waiter_inside: bool,
  release: bool,
  hits: u64,
}
static GATE: Mutex<Gate> = Mutex::new(Gate { armed: false, waiter_inside: false, release: false, hits: 0 });
static GATE_CV: Condvar = Condvar::new();

fn gate_point() {
  let mut g = GATE.lock().unwrap_or_else(|e| e.into_inner());
  g.hits += 1;
  if !g.armed {
    return;
  }
  g.armed = false; // one shot
  g.waiter_inside = true;
  GATE_CV.notify_all();
  let t0 = Instant::now();
  while !g.release && t0.elapsed() < Duration::from_secs(20) {
    let (g2, _) = GATE_CV.wait_timeout(g, Duration::from_millis(20)).unwrap_or_else(|e| e.into_inner());
    g = g2;
  }
  g.waiter_inside = false;
}

pub fn gate_arm() {
  let mut g = GATE.lock().unwrap_or_else(|e| e.into_inner());
  *g = Gate { armed: true, waiter_inside: false, release: false, hits: 0 };
}
pub fn gate_disarm() {
  let mut g = GATE.lock().unwrap_or_else(|e| e.into_inner());
  g.armed = false;
  g.release = true;
  GATE_CV.notify_all();
}
/// wait until the waiter is parked inside the window
pub fn gate_wait_inside(max: Duration) -> bool {
  let mut g = GATE.lock().unwrap_or_else(|e| e.into_inner());
  let t0 = Instant::now();
  while !g.waiter_inside && t0.elapsed() < max {
    let (g2, _) = GATE_CV.wait_timeout(g, Duration::from_millis(5)).unwrap_or_else(|e| e.into_inner());
    g = g2;
  }
  g.waiter_inside
}
pub fn gate_release() {
  let mut g = GATE.lock().unwrap_or_else(|e| e.into_inner());
  g.release = true;
  GATE_CV.notify_all();
}
pub fn gate_hits() -> u64 {
  GATE.lock().unwrap_or_else(|e| e.into_inner()).hits
}
