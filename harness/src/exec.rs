//! Order-choosing executor behind `VerifScheduler` / `VerifSchedulerThreads`.
//! The library wraps every task in its own cancellable `Remote` future before
//! handing it over; here we only decide *which ready task is polled next*.
use futures::future::LocalBoxFuture;
use futures::task::{waker, ArcWake};
use rxrust::verif_hooks::{VerifScheduler, VerifSchedulerThreads};
use std::cell::RefCell;
use std::collections::VecDeque;
use std::rc::Rc;
use std::sync::{Arc, Mutex};
use std::task::{Context, Poll};

type ReadyQ = Arc<Mutex<VecDeque<usize>>>;

struct TaskWaker {
  id: usize,
  ready: ReadyQ,
}
impl ArcWake for TaskWaker {
  fn wake_by_ref(a: &Arc<Self>) {
    let mut q = a.ready.lock().unwrap_or_else(|e| e.into_inner());
    if !q.contains(&a.id) {
      q.push_back(a.id)
    }
  }
}

#[derive(Default)]
struct Inner {
  tasks: Vec<Option<LocalBoxFuture<'static, ()>>>,
  live: usize,
  spawned: usize,
  polls: usize,
}

#[derive(Clone)]
pub struct Arena {
  inner: Rc<RefCell<Inner>>,
  inbox_local: Rc<RefCell<Vec<LocalBoxFuture<'static, ()>>>>,
  inbox_send: Arc<Mutex<Vec<futures::future::BoxFuture<'static, ()>>>>,
  ready: ReadyQ,
}

impl Arena {
  pub fn new() -> Self {
    Arena {
      inner: Rc::new(RefCell::new(Inner::default())),
      inbox_local: Rc::new(RefCell::new(Vec::new())),
      inbox_send: Arc::new(Mutex::new(Vec::new())),
      ready: Arc::new(Mutex::new(VecDeque::new())),
    }
  }
  pub fn scheduler(&self) -> VerifScheduler {
    let inbox = self.inbox_local.clone();
    VerifScheduler(Rc::new(move |f| inbox.borrow_mut().push(f)))
  }
  pub fn scheduler_threads(&self) -> VerifSchedulerThreads {
    let inbox = self.inbox_send.clone();
    VerifSchedulerThreads(Arc::new(move |f| {
      inbox.lock().unwrap_or_else(|e| e.into_inner()).push(f)
    }))
  }
  fn drain_inbox(&self) {
    let mut newl: Vec<LocalBoxFuture<'static, ()>> =
      std::mem::take(&mut *self.inbox_local.borrow_mut());
    let news: Vec<_> =
      std::mem::take(&mut *self.inbox_send.lock().unwrap_or_else(|e| e.into_inner()));
    for f in news {
      newl.push(f);
    }
    if newl.is_empty() {
      return;
    }
    let mut inner = self.inner.borrow_mut();
    for f in newl {
      let id = inner.tasks.len();
      inner.tasks.push(Some(f));
      inner.live += 1;
      inner.spawned += 1;
      self.ready.lock().unwrap_or_else(|e| e.into_inner()).push_back(id);
    }
  }
  /// ids of ready tasks in wake order
  pub fn ready(&self) -> Vec<usize> {
    self.drain_inbox();
    let inner = self.inner.borrow();
    let mut q = self.ready.lock().unwrap_or_else(|e| e.into_inner());
    q.retain(|id| inner.tasks.get(*id).map_or(false, |t| t.is_some()));
    q.iter().cloned().collect()
  }
  pub fn live(&self) -> usize {
    self.drain_inbox();
    self.inner.borrow().live
  }
  pub fn spawned(&self) -> usize {
    self.drain_inbox();
    self.inner.borrow().spawned
  }
  pub fn polls(&self) -> usize {
    self.inner.borrow().polls
  }
  /// poll one ready task once; returns true if it completed
  pub fn run(&self, id: usize) -> bool {
    self.drain_inbox();
    {
      let mut q = self.ready.lock().unwrap_or_else(|e| e.into_inner());
      q.retain(|x| *x != id);
    }
    // the task is taken out of the arena while it is polled, so spawning (or
    // waking itself) from inside the poll is safe
    let fut = self.inner.borrow_mut().tasks.get_mut(id).and_then(|t| t.take());
    let Some(mut fut) = fut else { return false };
    self.inner.borrow_mut().polls += 1;
    let w = waker(Arc::new(TaskWaker { id, ready: self.ready.clone() }));
    let mut cx = Context::from_waker(&w);
    match fut.as_mut().poll(&mut cx) {
      Poll::Ready(()) => {
        self.inner.borrow_mut().live -= 1;
        drop(fut);
        true
      }
      Poll::Pending => {
        self.inner.borrow_mut().tasks[id] = Some(fut);
        false
      }
    }
  }
  /// FIFO run until no task is ready; returns number of polls (capped)
  pub fn run_until_stalled(&self, cap: usize) -> usize {
    let mut n = 0;
    while n < cap {
      let r = self.ready();
      let Some(id) = r.first().cloned() else { break };
      self.run(id);
      n += 1;
    }
    n
  }
  /// drop every task (cancels whatever is left)
  pub fn clear(&self) {
    self.drain_inbox();
    let tasks = std::mem::take(&mut self.inner.borrow_mut().tasks);
    self.inner.borrow_mut().live = 0;
    drop(tasks);
    self.ready.lock().unwrap_or_else(|e| e.into_inner()).clear();
  }
}
