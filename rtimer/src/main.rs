//! Real-clock monitor for the library's built-in timer (`timer` feature).
//!
//! The main harness replaces the timer by a virtual clock (NEW_TIMER_FN), so the code of
//! `new_timer` behind the `timer` feature is never compiled there. This binary links rxrust
//! with its default features and watches real executions with oracles that no amount of
//! machine load can turn into a false alarm:
//!   * lower bounds: something that is due at `t` was observed no earlier than `t`
//!     (all instants from std::time::Instant, the due time computed from an instant taken
//!     BEFORE the call that starts the wait, the observation instant taken INSIDE the callback);
//!   * spacing: two consecutive runs of a periodic task are at least one period apart,
//!     their sequence numbers are consecutive;
//!   * due-after-idle (logical, not a deadline): a wait that the property says starts at
//!     subscription (interval / interval_at) is over once the thread has slept past the due
//!     time (std::thread::sleep never returns early), so one `run_until_stalled()` afterwards
//!     must deliver the first tick;
//!   * cancelled stays cancelled, at most once.
//! Output: one line `RT-RESULT {json}`.
use futures::executor::{LocalPool, ThreadPool};
use rxrust::prelude::*;
use serde_json::{json, Value};
use std::cell::RefCell;
use std::collections::BTreeMap;
use std::rc::Rc;
use std::sync::{Arc, Mutex};

#[derive(Default)]
struct Rep {
  counters: BTreeMap<String, u64>,
  violations: Vec<Value>,
  sample: Vec<Value>,
}
impl Rep {
  fn count(&mut self, k: &str, n: u64) {
    *self.counters.entry(k.to_string()).or_insert(0) += n;
  }
  fn violation(&mut self, kind: &str, locus: &str, case: &str, detail: Value) {
    self.violations.push(json!({"kind": kind, "locus": locus, "case_id": case, "detail": detail}));
  }
}

struct Rng(u64);
impl Rng {
  fn next(&mut self) -> u64 {
    self.0 ^= self.0 << 13;
    self.0 ^= self.0 >> 7;
    self.0 ^= self.0 << 17;
    self.0
  }
  fn below(&mut self, n: u64) -> u64 {
    self.next() % n
  }
}

fn us(n: u64) -> Duration {
  Duration::from_nanos(n * 1000)
}

/// the fixed grid (sub-millisecond parts on both sides of one half) plus seeded values
fn durations(r: &mut Rng, extra: usize) -> Vec<Duration> {
  let mut v: Vec<Duration> = [0u64, 50, 100, 400, 499, 500, 501, 999, 1000, 1001, 1400, 1499, 1500, 2400, 2499, 4167]
    .iter()
    .map(|n| us(*n))
    .collect();
  for _ in 0..extra {
    v.push(Duration::from_nanos(r.below(3_000_000)));
  }
  v
}

fn early(what: &str, rep: &mut Rep, locus: &str, case: &str, t0: Instant, due: Duration, seen: Instant) {
  rep.count("lower_bounds_checked", 1);
  let waited = seen.saturating_duration_since(t0);
  if waited < due {
    rep.violation(
      "fired_early",
      locus,
      case,
      json!({"what": what, "due_after_ns": due.as_nanos() as u64, "observed_after_ns": waited.as_nanos() as u64}),
    );
  }
}

// ---------------------------------------------------------------- C08: timer / interval / delay

fn c08_local(rep: &mut Rep, r: &mut Rng, extra: usize) {
  // timer / timer_at
  for (k, d) in durations(r, extra).into_iter().enumerate() {
    for at_form in [false, true] {
      let locus = if at_form { "timer_at[real-timer]" } else { "timer[real-timer]" };
      let case = format!("rt:timer:{}:{}:{}", at_form, k, d.as_nanos());
      let mut pool = LocalPool::new();
      let seen: Rc<RefCell<Vec<Instant>>> = Default::default();
      let s2 = seen.clone();
      let t0 = Instant::now();
      if at_form {
        observable::timer_at(1, t0 + d, pool.spawner()).subscribe(move |_| s2.borrow_mut().push(Instant::now()));
      } else {
        observable::timer(1, d, pool.spawner()).subscribe(move |_| s2.borrow_mut().push(Instant::now()));
      }
      pool.run();
      rep.count("real_timer_cases", 1);
      let seen = seen.borrow();
      if seen.len() != 1 {
        rep.violation("wrong_emission_count", locus, &case, json!({"emissions": seen.len(), "expected": 1}));
        continue;
      }
      early("single emission", rep, locus, &case, t0, d, seen[0]);
    }
  }
  // interval / interval_at: first tick, spacing, consecutive numbers
  for (k, p) in durations(r, extra / 2).into_iter().enumerate() {
    for at_form in [false, true] {
      let first = if at_form { us(r.below(2500)) } else { p };
      let locus = if at_form { "interval_at[real-timer]" } else { "interval[real-timer]" };
      let case = format!("rt:interval:{}:{}:{}:{}", at_form, k, p.as_nanos(), first.as_nanos());
      let mut pool = LocalPool::new();
      let seen: Rc<RefCell<Vec<(usize, Instant)>>> = Default::default();
      let s2 = seen.clone();
      let t0 = Instant::now();
      if at_form {
        observable::interval_at(t0 + first, p, pool.spawner()).take(4).subscribe(move |v| s2.borrow_mut().push((v, Instant::now())));
      } else {
        observable::interval(p, pool.spawner()).take(4).subscribe(move |v| s2.borrow_mut().push((v, Instant::now())));
      }
      pool.run();
      rep.count("real_timer_cases", 1);
      check_ticks(rep, locus, &case, t0, first, p, &seen.borrow());
    }
  }
  // the _at forms built first and subscribed a little later (real time passes in between):
  // whatever they do with the time that passed, nothing may come before the given instant
  for (k, d) in [us(2500), us(4000), us(6000)].into_iter().enumerate() {
    for form in 0..3 {
      let names = ["interval_at[real-timer]", "timer_at[real-timer]", "delay_at[real-timer]"];
      let locus = names[form];
      let case = format!("rt:built_earlier:{}:{}", form, k);
      let mut pool = LocalPool::new();
      let seen: Rc<RefCell<Vec<Instant>>> = Default::default();
      let s2 = seen.clone();
      let t0 = Instant::now();
      let at = t0 + d;
      let pause = us(1000 + r.below(1500));
      match form {
        0 => {
          let o = observable::interval_at(at, us(700), pool.spawner()).take(2);
          std::thread::sleep(pause);
          o.subscribe(move |_| s2.borrow_mut().push(Instant::now()));
        }
        1 => {
          let o = observable::timer_at(1, at, pool.spawner());
          std::thread::sleep(pause);
          o.subscribe(move |_| s2.borrow_mut().push(Instant::now()));
        }
        _ => {
          let o = observable::from_iter(vec![1, 2]).delay_at(at, pool.spawner());
          std::thread::sleep(pause);
          o.subscribe(move |_| s2.borrow_mut().push(Instant::now()));
        }
      }
      pool.run();
      rep.count("real_timer_cases", 1);
      rep.count("at_forms_built_before_they_are_subscribed", 1);
      let first = seen.borrow().first().cloned();
      match first {
        None => rep.violation("wrong_emission_count", locus, &case, json!({"emissions": 0})),
        Some(first) => early("first value of an _at form built earlier", rep, locus, &case, t0, d, first),
      }
    }
  }
  // an executor that is held up for several periods after the first tick (the thread sleeps
  // while nothing runs): when it resumes, the later ticks are still at least one period apart
  // (nothing "makes up" for the ticks that were missed) and still numbered consecutively
  for (k, p) in [us(400), us(1000), us(2500)].into_iter().enumerate() {
    let case = format!("rt:held_up:{}", k);
    let locus = "interval[real-timer]";
    let mut pool = LocalPool::new();
    let seen: Rc<RefCell<Vec<(usize, Instant)>>> = Default::default();
    let s2 = seen.clone();
    let t0 = Instant::now();
    observable::interval(p, pool.spawner()).take(5).subscribe(move |v| s2.borrow_mut().push((v, Instant::now())));
    // run until the first tick has been seen, then stall for more than three periods
    let watchdog = Instant::now() + Duration::from_secs(10);
    while seen.borrow().is_empty() && Instant::now() < watchdog {
      pool.run_until_stalled();
      std::thread::sleep(us(100));
    }
    std::thread::sleep(p * 3 + us(500));
    pool.run();
    rep.count("real_timer_cases", 1);
    rep.count("executors_held_up_for_several_periods", 1);
    let seen = seen.borrow();
    let vals: Vec<usize> = seen.iter().map(|s| s.0).collect();
    if vals != vec![0, 1, 2, 3, 4] {
      rep.violation("wrong_sequence_numbers", locus, &case, json!({"observed": vals, "expected": [0, 1, 2, 3, 4]}));
      continue;
    }
    early("first tick", rep, locus, &case, t0, p, seen[0].1);
    for w in seen.windows(2) {
      early("tick after the previous one (the executor had been held up)", rep, locus, &case, w[0].1, p, w[1].1);
    }
  }
  // due-after-idle: the first wait of interval / interval_at starts at subscription
  for (k, p) in [us(300), us(1000), us(1400), us(2500)].into_iter().enumerate() {
    for at_form in [false, true] {
      let locus = if at_form { "interval_at[real-timer]" } else { "interval[real-timer]" };
      let case = format!("rt:idle:{}:{}", at_form, k);
      let mut pool = LocalPool::new();
      let seen: Rc<RefCell<Vec<usize>>> = Default::default();
      let s2 = seen.clone();
      let t0 = Instant::now();
      let sub = if at_form {
        observable::interval_at(t0 + p, us(50_000), pool.spawner()).subscribe(move |v| s2.borrow_mut().push(v))
      } else {
        observable::interval(p, pool.spawner()).take(1).subscribe(move |v| s2.borrow_mut().push(v))
      };
      // the executor is idle while the due time passes
      std::thread::sleep(p + us(1500));
      pool.run_until_stalled();
      rep.count("real_timer_cases", 1);
      rep.count("due_after_idle_cases", 1);
      if seen.borrow().is_empty() {
        rep.violation(
          "late_first_tick",
          locus,
          &case,
          json!({"why": "the thread slept past subscription + first wait; the executor then ran until stalled and the first tick was not delivered (the first wait was not armed at subscription)",
                 "first_wait_ns": p.as_nanos() as u64, "slept_ns": (p + us(1500)).as_nanos() as u64}),
        );
      }
      sub.unsubscribe();
      pool.run_until_stalled();
    }
  }
  // delay / delay_at / delay_subscription / debounce on a hot subject: per-item lower bounds
  for (k, d) in durations(r, extra / 2).into_iter().enumerate() {
    for form in 0..4 {
      let names = ["delay[real-timer]", "delay_at[real-timer]", "delay_subscription[real-timer]", "debounce[real-timer]"];
      let locus = names[form];
      let case = format!("rt:delay:{}:{}:{}", form, k, d.as_nanos());
      let mut pool = LocalPool::new();
      let seen: Rc<RefCell<Vec<(i64, Instant)>>> = Default::default();
      let s2 = seen.clone();
      let mut subj = Subject::<'static, i64, std::convert::Infallible>::default();
      let t0 = Instant::now();
      let rec = move |v: i64| s2.borrow_mut().push((v, Instant::now()));
      let mut sent: Vec<(i64, Instant)> = vec![];
      match form {
        0 => {
          subj.clone().delay(d, pool.spawner()).subscribe(rec);
        }
        1 => {
          subj.clone().delay_at(t0 + d, pool.spawner()).subscribe(rec);
        }
        2 => {
          // a cold source behind delay_subscription: its items are not due before t0 + d
          observable::from_iter(vec![1i64, 2, 3]).delay_subscription(d, pool.spawner()).subscribe(rec);
        }
        _ => {
          subj.clone().debounce(d, pool.spawner()).subscribe(rec);
        }
      }
      if form != 2 {
        for v in 1..=3i64 {
          let e = Instant::now();
          subj.next(v);
          sent.push((v, e));
          if r.below(2) == 0 {
            pool.run_until_stalled();
          }
        }
      }
      // no terminal before the waits are over (debounce flushes on complete); wait for the
      // expected deliveries under a generous watchdog whose firing decides nothing
      let want = |seen: &Vec<(i64, Instant)>| if form == 3 { seen.last().map(|s| s.0) == Some(3) } else { seen.len() >= 3 };
      let watchdog = Instant::now() + Duration::from_secs(10);
      loop {
        pool.run_until_stalled();
        if want(&seen.borrow()) || Instant::now() > watchdog {
          break;
        }
        std::thread::sleep(us(200));
      }
      // a little longer: anything delivered once too often shows up now
      std::thread::sleep(us(500));
      pool.run_until_stalled();
      rep.count("real_timer_cases", 1);
      let seen = seen.borrow();
      if !want(&seen) {
        rep.count("cases_unfinished_at_the_watchdog", 1);
        continue;
      }
      let vals: Vec<i64> = seen.iter().map(|s| s.0).collect();
      if vals.windows(2).any(|w| w[0] >= w[1]) || (form != 3 && vals != vec![1, 2, 3]) {
        rep.violation("wrong_items", locus, &case, json!({"observed": vals, "sent": [1, 2, 3]}));
        continue;
      }
      for (v, at) in seen.iter() {
        match form {
          0 | 3 => {
            // not before its own emission + d
            let e = sent.iter().find(|(x, _)| x == v).unwrap().1;
            early(if form == 0 { "delayed item" } else { "debounced item" }, rep, locus, &case, e, d, *at);
          }
          _ => early("item behind an absolute / subscription delay", rep, locus, &case, t0, d, *at),
        }
      }
    }
  }
}

fn check_ticks(rep: &mut Rep, locus: &str, case: &str, t0: Instant, first: Duration, p: Duration, seen: &[(usize, Instant)]) {
  let vals: Vec<usize> = seen.iter().map(|s| s.0).collect();
  if vals != vec![0, 1, 2, 3] {
    rep.violation("wrong_sequence_numbers", locus, case, json!({"observed": vals, "expected": [0, 1, 2, 3]}));
    return;
  }
  early("first tick", rep, locus, case, t0, first, seen[0].1);
  for w in seen.windows(2) {
    early("tick after the previous one", rep, locus, case, w[0].1, p, w[1].1);
  }
}

fn c08_pool(rep: &mut Rep, r: &mut Rng, extra: usize) {
  let pool = ThreadPool::builder().pool_size(2).create().unwrap();
  let mut waits = vec![];
  for (k, d) in durations(r, extra).into_iter().enumerate() {
    // timer on the thread pool
    let seen: Arc<Mutex<Vec<Instant>>> = Default::default();
    let s2 = seen.clone();
    let t0 = Instant::now();
    observable::timer(1, d, pool.clone()).subscribe(move |_| s2.lock().unwrap().push(Instant::now()));
    waits.push((format!("rt:pooltimer:{}:{}", k, d.as_nanos()), "timer[real-timer,pool]", t0, d, d, seen, 1usize));
    // interval on the thread pool
    let seen: Arc<Mutex<Vec<Instant>>> = Default::default();
    let s2 = seen.clone();
    let t0 = Instant::now();
    observable::interval(d, pool.clone()).take(3).subscribe(move |_| s2.lock().unwrap().push(Instant::now()));
    waits.push((format!("rt:poolinterval:{}:{}", k, d.as_nanos()), "interval[real-timer,pool]", t0, d, d, seen, 3usize));
  }
  // bounded wait for everything to arrive (inconclusive, not a violation, if it does not)
  let deadline = Instant::now() + Duration::from_secs(20);
  loop {
    let done = waits.iter().all(|w| w.5.lock().unwrap().len() >= w.6);
    if done || Instant::now() > deadline {
      break;
    }
    std::thread::sleep(us(500));
  }
  for (case, locus, t0, first, p, seen, n) in waits {
    let seen = seen.lock().unwrap();
    rep.count("real_timer_cases", 1);
    if seen.len() < n {
      rep.count("pool_cases_unfinished_at_the_watchdog", 1);
      continue;
    }
    early("first emission", rep, locus, &case, t0, first, seen[0]);
    for w in seen.windows(2) {
      early("tick after the previous one", rep, locus, &case, w[0], p, w[1]);
    }
  }
}

// ---------------------------------------------------------------- C19: tasks scheduled directly

#[derive(Clone, Default)]
struct Runs(Arc<Mutex<Vec<(usize, Instant)>>>);

fn once_body(a: Runs) -> NormalReturn<()> {
  a.0.lock().unwrap().push((0, Instant::now()));
  NormalReturn::new(())
}
fn repeat_body(a: &mut (Runs, usize), seq: usize) -> bool {
  let mut runs = a.0 .0.lock().unwrap();
  runs.push((seq, Instant::now()));
  // the second condition bounds a task whose sequence numbers do not advance
  seq + 1 < a.1 && runs.len() < 4 * a.1
}

fn c19_local(rep: &mut Rep, r: &mut Rng, extra: usize) {
  for (k, d) in durations(r, extra).into_iter().enumerate() {
    // one-shot task with a delay: not early, exactly once
    {
      let case = format!("rt:once:{}:{}", k, d.as_nanos());
      let mut pool = LocalPool::new();
      let runs = Runs::default();
      let t0 = Instant::now();
      let h = pool.spawner().schedule(OnceTask::new(once_body, runs.clone()), Some(d));
      pool.run();
      rep.count("real_timer_cases", 1);
      let seen = runs.0.lock().unwrap().clone();
      if seen.len() != 1 {
        rep.violation("wrong_run_count", "OnceTask[real-timer]", &case, json!({"runs": seen.len(), "expected": 1}));
      } else {
        early("one-shot body", rep, "OnceTask[real-timer]", &case, t0, d, seen[0].1);
      }
      if !h.is_closed() {
        rep.violation("finished_task_not_closed", "OnceTask[real-timer]", &case, json!({}));
      }
    }
    // cancelled while it waits for its delay: no run after unsubscribe() has returned. Whether the
    // cancellation really came before the body is OBSERVED, not assumed: the pool runs on this thread
    // only, so the run count sampled right before unsubscribe() is what had happened by then. A thread
    // that is held up inside run_until_stalled() for longer than the delay (a loaded machine) runs the
    // body there, when it is due - that is the task doing its job, and the case is then a cancellation
    // after completion (counted apart, same oracle: nothing after the cancellation, not early, once).
    // Such a case is tried again with a longer delay so that the cancellations before the due time
    // stay populated whatever the load.
    // `hold` = a sibling task scheduled behind the timed one that keeps the thread busy past the due
    // time inside the same run_until_stalled(): the late cancellation made on purpose.
    for hold in [false, true] {
      if hold && k % 4 != 0 {
        continue;
      }
      let mut d2 = d + us(1000);
      for attempt in 0..4 {
        let case = format!("rt:cancel:{}:{}:{}:{}", k, d.as_nanos(), hold, attempt);
        let mut pool = LocalPool::new();
        let runs = Runs::default();
        let t0 = Instant::now();
        let h = pool.spawner().schedule(OnceTask::new(once_body, runs.clone()), Some(d2));
        if hold {
          fn busy(d: Duration) -> NormalReturn<()> {
            std::thread::sleep(d);
            NormalReturn::new(())
          }
          let _s = pool.spawner().schedule(OnceTask::new(busy, d2 + us(300)), None);
          pool.run_until_stalled();
        } else if r.below(2) == 0 {
          pool.run_until_stalled();
        }
        let before = runs.0.lock().unwrap().clone();
        let closed_before = h.is_closed();
        h.unsubscribe();
        std::thread::sleep(d2 + us(500));
        pool.run_until_stalled();
        rep.count("real_timer_cases", 1);
        let after = runs.0.lock().unwrap().len();
        if after > before.len() {
          rep.violation("ran_after_cancel", "OnceTask[real-timer]", &case, json!({"runs_before_unsubscribe": before.len(), "runs_afterwards": after}));
        }
        if before.len() > 1 {
          rep.violation("wrong_run_count", "OnceTask[real-timer]", &case, json!({"runs": before.len(), "expected": "at most 1"}));
        }
        if let Some(first) = before.first() {
          // it ran before the cancellation: then it was due
          early("one-shot body that ran before its cancellation", rep, "OnceTask[real-timer]", &case, t0, d2, first.1);
        }
        if closed_before && before.is_empty() {
          rep.violation("closed_but_can_still_act", "OnceTask[real-timer]", &case, json!({"why": "is_closed() was true while the body had not run and the task was not cancelled"}));
        }
        if before.is_empty() {
          rep.count("cancellations_before_due", 1);
          if hold {
            // the sibling slept past the due time and the pool still did not run the body: it
            // simply was not woken in time; nothing to conclude, and no retry needed
            rep.count("held_up_cancellations_that_still_came_first", 1);
          }
          break;
        }
        rep.count("cancellations_after_the_body_had_run", 1);
        if hold {
          break;
        }
        // not the case that was meant: once more, with a delay eight times as long
        d2 = d2 * 8;
      }
    }
    // repeating task: spacing and consecutive sequence numbers (zero period included)
    for first_form in [false, true] {
      let case = format!("rt:repeat:{}:{}:{}", first_form, k, d.as_nanos());
      let locus = if first_form { "RepeatTask::with_first_delay[real-timer]" } else { "RepeatTask::new[real-timer]" };
      let mut pool = LocalPool::new();
      let runs = Runs::default();
      let first = if first_form { us(r.below(2000)) } else { d };
      let t0 = Instant::now();
      let task = if first_form {
        RepeatTask::with_first_delay(first, d, repeat_body, (runs.clone(), 4))
      } else {
        RepeatTask::new(d, repeat_body, (runs.clone(), 4))
      };
      let _h = pool.spawner().schedule(task, None);
      pool.run();
      rep.count("real_timer_cases", 1);
      let seen = runs.0.lock().unwrap().clone();
      check_ticks(rep, locus, &case, t0, first, d, &seen);
    }
  }
  // a repeating task whose executor is held up for several periods after the first run
  for (k, p) in [us(400), us(1000), us(2500)].into_iter().enumerate() {
    let case = format!("rt:repeat_held_up:{}", k);
    let locus = "RepeatTask::new[real-timer]";
    let mut pool = LocalPool::new();
    let runs = Runs::default();
    let t0 = Instant::now();
    let _h = pool.spawner().schedule(RepeatTask::new(p, repeat_body, (runs.clone(), 5)), None);
    let watchdog = Instant::now() + Duration::from_secs(10);
    while runs.0.lock().unwrap().is_empty() && Instant::now() < watchdog {
      pool.run_until_stalled();
      std::thread::sleep(us(100));
    }
    std::thread::sleep(p * 3 + us(500));
    pool.run();
    rep.count("real_timer_cases", 1);
    rep.count("executors_held_up_for_several_periods", 1);
    let seen = runs.0.lock().unwrap().clone();
    let seqs: Vec<usize> = seen.iter().map(|s| s.0).collect();
    if seqs != vec![0, 1, 2, 3, 4] {
      rep.violation("wrong_sequence_numbers", locus, &case, json!({"observed": seqs, "expected": [0, 1, 2, 3, 4]}));
      continue;
    }
    early("first run", rep, locus, &case, t0, p, seen[0].1);
    for w in seen.windows(2) {
      early("run after the previous one (the executor had been held up)", rep, locus, &case, w[0].1, p, w[1].1);
    }
  }
  // a repeating task whose body takes time (it sleeps for most of a period): the wait for the next
  // run starts when the body has returned, so run n+1 starts at least one period after run n ENDED
  for (k, p) in [us(800), us(2000)].into_iter().enumerate() {
    let case = format!("rt:slow_body:{}", k);
    let locus = "RepeatTask::new[real-timer]";
    let mut pool = LocalPool::new();
    let ends: Arc<Mutex<Vec<(usize, Instant, Instant)>>> = Default::default();
    fn slow_body(a: &mut (Arc<Mutex<Vec<(usize, Instant, Instant)>>>, Duration), seq: usize) -> bool {
      let start = Instant::now();
      std::thread::sleep(a.1);
      let mut g = a.0.lock().unwrap();
      g.push((seq, start, Instant::now()));
      seq < 3 && g.len() < 12
    }
    let _h = pool.spawner().schedule(RepeatTask::new(p, slow_body, (ends.clone(), p * 3 / 4)), None);
    pool.run();
    rep.count("real_timer_cases", 1);
    rep.count("repeating_tasks_with_a_slow_body", 1);
    let seen = ends.lock().unwrap().clone();
    let seqs: Vec<usize> = seen.iter().map(|s| s.0).collect();
    if seqs != vec![0, 1, 2, 3] {
      rep.violation("wrong_sequence_numbers", locus, &case, json!({"observed": seqs, "expected": [0, 1, 2, 3]}));
      continue;
    }
    for w in seen.windows(2) {
      early("run after the previous one had ended (slow body)", rep, locus, &case, w[0].2, p, w[1].1);
    }
  }
  // delays far beyond any run: the body may not run while we watch
  for (k, d) in [Duration::from_secs(3600), Duration::from_secs(86_400 * 365 * 30), Duration::from_millis(u32::MAX as u64 + 1), Duration::from_secs(u32::MAX as u64 + 1), Duration::from_secs(u64::MAX / 1000 + 1), Duration::MAX]
    .into_iter()
    .enumerate()
  {
    let case = format!("rt:far:{}", k);
    let mut pool = LocalPool::new();
    let runs = Runs::default();
    let h = pool.spawner().schedule(OnceTask::new(once_body, runs.clone()), Some(d));
    pool.run_until_stalled();
    std::thread::sleep(us(3000));
    pool.run_until_stalled();
    rep.count("real_timer_cases", 1);
    rep.count("far_future_delays", 1);
    let n = runs.0.lock().unwrap().len();
    if n != 0 {
      rep.violation("fired_early", "OnceTask[real-timer]", &case, json!({"what": "one-shot body", "due_after_ns": d.as_nanos().min(u64::MAX as u128) as u64, "observed_after_ns": "a few milliseconds"}));
    }
    h.unsubscribe();
    pool.run_until_stalled();
  }
}

fn c19_pool(rep: &mut Rep, r: &mut Rng, extra: usize) {
  let pool = ThreadPool::builder().pool_size(2).create().unwrap();
  let mut waits = vec![];
  for (k, d) in durations(r, extra).into_iter().enumerate() {
    let runs = Runs::default();
    let t0 = Instant::now();
    let h = pool.schedule(OnceTask::new(once_body, runs.clone()), Some(d));
    waits.push((format!("rt:poolonce:{}:{}", k, d.as_nanos()), "OnceTask[real-timer,pool]", t0, d, d, runs, 1usize));
    std::mem::forget(h);
    let runs = Runs::default();
    let t0 = Instant::now();
    let h = pool.schedule(RepeatTask::new(d, repeat_body, (runs.clone(), 3)), None);
    waits.push((format!("rt:poolrepeat:{}:{}", k, d.as_nanos()), "RepeatTask::new[real-timer,pool]", t0, d, d, runs, 3usize));
    std::mem::forget(h);
  }
  let deadline = Instant::now() + Duration::from_secs(20);
  loop {
    let done = waits.iter().all(|w| w.5 .0.lock().unwrap().len() >= w.6);
    if done || Instant::now() > deadline {
      break;
    }
    std::thread::sleep(us(500));
  }
  // give a misbehaving task the chance to run once too often
  std::thread::sleep(us(3000));
  for (case, locus, t0, first, p, runs, n) in waits {
    let seen = runs.0.lock().unwrap().clone();
    rep.count("real_timer_cases", 1);
    if seen.len() < n {
      rep.count("pool_cases_unfinished_at_the_watchdog", 1);
      continue;
    }
    if seen.len() > n {
      rep.violation("wrong_run_count", locus, &case, json!({"runs": seen.len(), "expected": n}));
      continue;
    }
    let seqs: Vec<usize> = seen.iter().map(|s| s.0).collect();
    if n > 1 && seqs != (0..n).collect::<Vec<_>>() {
      rep.violation("wrong_sequence_numbers", locus, &case, json!({"observed": seqs}));
      continue;
    }
    early("first run", rep, locus, &case, t0, first, seen[0].1);
    for w in seen.windows(2) {
      early("run after the previous one", rep, locus, &case, w[0].1, p, w[1].1);
    }
  }
}

fn main() {
  let a: Vec<String> = std::env::args().collect();
  let opt = |n: &str, d: &str| a.iter().position(|x| x == n).and_then(|i| a.get(i + 1).cloned()).unwrap_or(d.to_string());
  let prop = opt("--prop", "C08");
  let tier = opt("--tier", "quick");
  let seed: u64 = opt("--seed", "1").parse().unwrap_or(1);
  let rounds = if tier == "thorough" { 12 } else { 1 };
  let extra = if tier == "thorough" { 40 } else { 12 };
  let mut rep = Rep::default();
  let t0 = Instant::now();
  for round in 0..rounds {
    let mut r = Rng(0x9E3779B97F4A7C15 ^ (seed.wrapping_mul(0x100000001B3) + round as u64 * 7919 + 1));
    match prop.as_str() {
      "C08" => {
        c08_local(&mut rep, &mut r, extra);
        c08_pool(&mut rep, &mut r, extra);
      }
      "C19" => {
        c19_local(&mut rep, &mut r, extra);
        c19_pool(&mut rep, &mut r, extra);
      }
      _ => {}
    }
  }
  rep.sample.push(json!({"wall_s": t0.elapsed().as_secs_f64()}));
  println!("RT-RESULT {}", json!({"counters": rep.counters, "violations": rep.violations, "sample": rep.sample}));
}
